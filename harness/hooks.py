"""Recording wrappers (no source edits in /repo).

All linearization points the specifications need are module attributes looked up at
call time, so the harness wraps them from outside after importing pyrefact from the
working tree.  Nothing is wrapped unless PYREFACT_VERIF=1 (the guard recorded in
MANIFEST.hooks); with the guard off pyrefact runs exactly as shipped.
"""
from __future__ import annotations

import ast
import functools
import os
import re
from contextlib import contextmanager
from typing import Any, Dict, List

GUARD = "PYREFACT_VERIF"
IGNORE_RE = re.compile(r"#\s*pyrefact\s*:\s*(skip_file|ignore)")


def enabled() -> bool:
    return os.environ.get(GUARD) == "1"


def ignored_line_ranges(source: str):
    out, pos = [], 0
    for line in source.splitlines(keepends=True):
        if IGNORE_RE.search(line):
            out.append([pos, pos + len(line)])
        pos += len(line)
    return out


class SchedulerRecorder:
    """Records every _schedule_rewrites / _apply_rewrites call as an event for SchedulerTrace.tla."""

    def __init__(self, mods):
        self.processing = mods["processing"]
        self.core = mods["core"]
        self.events: List[dict] = []
        self.max_events = 10 ** 9
        self._orig_schedule = None
        self._orig_apply = None

    def install(self):
        if not enabled():
            raise RuntimeError(f"hooks requested but {GUARD}!=1")
        processing, core = self.processing, self.core
        self._orig_schedule = processing._schedule_rewrites
        self._orig_apply = processing._apply_rewrites
        rec = self

        def schedule(source, funcs):
            funcs = list(funcs)
            yielded: List[tuple] = []
            wrapped = []
            for gi, (func, args, kwargs) in enumerate(funcs):
                def recording(*a, _f=func, _g=gi, **kw):
                    for tup in _f(*a, **kw):
                        yielded.append((_g, tup))
                        yield tup
                try:
                    recording.__name__ = func.__name__
                except AttributeError:
                    pass
                wrapped.append((recording, args, kwargs))
            result = rec._orig_schedule(source, wrapped)
            try:
                if len(rec.events) < rec.max_events:
                    rec.events.append(rec._schedule_event(source, len(funcs), yielded, result))
            except Exception as exc:  # recording must never disturb the run
                rec.events.append({"kind": "error", "error": repr(exc)})
            return result

        def apply(source, rewrites):
            out = rec._orig_apply(source, rewrites)
            if len(rec.events) < rec.max_events:
                rec.events.append({"kind": "apply", "valid_in": _valid(source), "valid_out": _valid(out),
                                   "unchanged": out == source, "n": len(rewrites)})
            return out

        processing._schedule_rewrites = schedule
        processing._apply_rewrites = apply

    def uninstall(self):
        if self._orig_schedule is not None:
            self.processing._schedule_rewrites = self._orig_schedule
            self.processing._apply_rewrites = self._orig_apply
            self._orig_schedule = None

    # ---------------------------------------------------------------------------------
    def _schedule_event(self, source, ngroups, yielded, result) -> dict:
        core = self.core
        rows = []
        for gi, tup in yielded:
            if len(tup) == 3:
                before, after, txn = tup
                explicit = True
            else:
                before, after = tup
                txn, explicit = None, False
            if isinstance(before, core.Range):
                rng = core.Range(before.start, before.end)
            elif isinstance(before, ast.AST):
                rng = core.get_charnos(before, source)
            else:
                r = core.get_charnos(after, source)
                rng = core.Range(r.start, r.start)
            new = after if after else ""
            text = core.unparse(new) if new else ""
            eqkey = (rng.start, rng.end, new if isinstance(new, str) else id(new))
            rows.append((gi, rng, text, eqkey, txn, explicit))
        texts = sorted({r[2] for r in rows} | {""})
        rank = {t: i for i, t in enumerate(texts)}   # "" has rank 0 = deletion
        eqids: Dict[Any, int] = {}
        ys = []
        for gi, rng, text, eqkey, txn, explicit in rows:
            eq = eqids.setdefault(eqkey, len(eqids) + 1)
            if explicit and not (isinstance(txn, int) and not isinstance(txn, bool) and -2 ** 30 < txn < 2 ** 30 and txn != -1):
                raise ValueError(f"unsupported transaction id {txn!r}")
            ys.append({"g": gi + 1, "lo": rng.start, "hi": rng.end, "new": rank[text], "eq": eq,
                       "txn": txn if explicit else -1})
        sched = []
        for t, (rng, rewrite) in result:
            text = core.unparse(rewrite.new) if rewrite.new else ""
            sched.append([rng.start, rng.end, rank.get(text, -7), t.group_number + 1, t.transaction_number])
        return {"kind": "schedule", "ngroups": max(ngroups, 1), "yields": ys,
                "ignored": ignored_line_ranges(source), "scheduled": sched}


def _valid(source: str) -> bool:
    try:
        ast.parse(source)
        return True
    except (SyntaxError, ValueError):
        return False


@contextmanager
def scheduler_recording(mods):
    rec = SchedulerRecorder(mods)
    rec.install()
    try:
        yield rec
    finally:
        rec.uninstall()
