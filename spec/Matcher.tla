------------------------------- MODULE Matcher -------------------------------
(***************************************************************************)
(* List matching with quantifiers (core._match_list,                        *)
(* core._iter_template_permutations, core.merge_matches) against its        *)
(* declarative reading (C12).                                               *)
(*                                                                         *)
(* A case is  h(<list template>, <tail template>)  matched against           *)
(* h(<node list>, <tail node>).  A list template is a sequence of elements   *)
(* [b |-> base, q |-> quantifier]:                                          *)
(*   base  "a","b",..   a literal node                                      *)
(*         "x","y"      a named wildcard  {{x}}                             *)
(*         "_"          the anonymous wildcard {{...}}                      *)
(*         "gx"         the call g({{x}}): a wildcard nested in an element  *)
(*   q     "1" | "?" | "*" | "+"                                            *)
(* Nodes are "a","b",.. and "ga","gb",.. (the call g(a)).                   *)
(* The tail template is "none", a literal, or the named wildcard "x": it     *)
(* lets a wildcard bound inside the quantified list recur outside it.        *)
(*                                                                         *)
(* Ideal*  = the statement: some assignment of counts to the quantifiers     *)
(*           and of ONE tree to every named wildcard makes pattern = code.   *)
(* Impl*   = what the code does: count vectors are enumerated in             *)
(*           itertools.product order, the FIRST vector that is consistent    *)
(*           inside the list wins, and consistency with the rest of the      *)
(*           pattern is only checked afterwards (no backtracking).           *)
(***************************************************************************)
EXTENDS Integers, Sequences, FiniteSets, TLC, SequencesExt, Json

CONSTANTS
    Lits,        \* literal bases, e.g. {"a", "b"}
    Wilds,       \* named wildcards usable in lists, e.g. {"x", "y"}
    UseAnon,     \* BOOLEAN: anonymous wildcard allowed
    UseNested,   \* BOOLEAN: "gx" allowed
    Quants,      \* subset of {"1", "?", "*", "+"}
    NodeAtoms,   \* nodes, e.g. {"a", "b", "ga"}
    MaxT, MaxN,  \* length bounds of template / node lists
    Tails        \* subset of {"none", "x", "a"}

VARIABLES tpl, tail
vars == <<tpl, tail>>

Bases == Lits \cup Wilds \cup (IF UseAnon THEN {"_"} ELSE {}) \cup (IF UseNested THEN {"gx"} ELSE {})
Elems == [b : Bases, q : Quants]

Inner(n) == IF n = "ga" THEN "a" ELSE IF n = "gb" THEN "b" ELSE IF n = "gc" THEN "c" ELSE n
IsCall(n) == n \in {"ga", "gb", "gc"}

\* does node n match base b, and what does it bind
BaseOK(b, n) == IF b \in Lits THEN n = b
                ELSE IF b = "gx" THEN IsCall(n)
                ELSE TRUE
BindVar(b) == IF b \in Wilds THEN b ELSE IF b = "gx" THEN "x" ELSE "-"
BindVal(b, n) == IF b = "gx" THEN Inner(n) ELSE n

-----------------------------------------------------------------------------
(* _iter_template_permutations                                             *)
MinC(q) == IF q \in {"1", "+"} THEN 1 ELSE 0
RECURSIVE SumMin(_)
SumMin(T) == IF T = <<>> THEN 0 ELSE MinC(Head(T).q) + SumMin(Tail(T))
Slack(T, L) == L - SumMin(T)
MaxC(q, s) == CASE q = "1" -> 1 [] q = "?" -> 1 [] q = "*" -> s [] q = "+" -> 1 + s

RECURSIVE SumF(_, _)
SumF(c, n) == IF n = 0 THEN 0 ELSE c[n] + SumF(c, n - 1)

Vectors(T, L) ==
    IF Slack(T, L) < 0 THEN {}
    ELSE {c \in [1..Len(T) -> 0..L] :
            /\ \A i \in 1..Len(T) : MinC(T[i].q) <= c[i] /\ c[i] <= MaxC(T[i].q, Slack(T, L))
            /\ SumF(c, Len(T)) = L}

\* template index responsible for node position p under count vector c
RECURSIVE Owner(_, _, _)
Owner(c, p, i) == IF p <= c[i] THEN i ELSE Owner(c, p - c[i], i + 1)

Bindings(T, N, c, w) ==
    {BindVal(T[Owner(c, p, 1)].b, N[p]) : p \in {q \in 1..Len(N) : BindVar(T[Owner(c, q, 1)].b) = w}}

\* merge_matches inside the list: all children match, every wildcard field has one value
LocallyConsistent(T, N, c) ==
    /\ \A p \in 1..Len(N) : BaseOK(T[Owner(c, p, 1)].b, N[p])
    /\ \A w \in Wilds : Cardinality(Bindings(T, N, c, w)) <= 1

LCSet(T, N) == {c \in Vectors(T, Len(N)) : LocallyConsistent(T, N, c)}

\* itertools.product order = lexicographic order of the count vectors
LexLess(c, d, n) == \E i \in 1..n : (\A j \in 1..(i - 1) : c[j] = d[j]) /\ c[i] < d[i]
First(S, n) == CHOOSE c \in S : \A d \in S \ {c} : LexLess(c, d, n)

\* the rest of the pattern: the tail template against the tail node
TailOK(tl, nt) == tl \in {"none", "x"} \/ tl = nt
OuterOK(T, N, c, tl, nt) ==
    /\ TailOK(tl, nt)
    /\ (tl = "x" => Bindings(T, N, c, "x") \subseteq {nt})

IdealMatch(T, N, tl, nt) == \E c \in LCSet(T, N) : OuterOK(T, N, c, tl, nt)

ImplMatch(T, N, tl, nt) ==
    LET S == LCSet(T, N) IN
    /\ S # {}
    /\ OuterOK(T, N, First(S, Len(T)), tl, nt)

\* values x may take in an ideal match (the code's answer must be one of them)
IdealX(T, N, tl, nt) ==
    UNION {(IF tl = "x" THEN {nt} ELSE Bindings(T, N, c, "x")) :
             c \in {d \in LCSet(T, N) : OuterOK(T, N, d, tl, nt)}}

-----------------------------------------------------------------------------
(* Case space: the state is a (template, tail) pair; every node list is     *)
(* evaluated in every state.                                               *)
NodeLists == UNION {[1..n -> NodeAtoms] : n \in 0..MaxN}
TailNodes(tl) == IF tl = "none" THEN {"-"} ELSE (NodeAtoms \ {"ga", "gb", "gc"})

Init == tpl = <<>> /\ tail \in Tails
AddElem == /\ Len(tpl) < MaxT
           /\ \E e \in Elems : tpl' = Append(tpl, e)
           /\ UNCHANGED tail
Next == AddElem
Spec == Init /\ [][Next]_vars

\* design-level facts TLC establishes on the whole space
Sound == \A N \in NodeLists, nt \in TailNodes(tail) :
            ImplMatch(tpl, N, tail, nt) => IdealMatch(tpl, N, tail, nt)
\* without a tail the greedy choice loses nothing
CompleteWithoutTail == tail = "none" =>
            \A N \in NodeLists : IdealMatch(tpl, N, "none", "-") => ImplMatch(tpl, N, "none", "-")

Gap(T, tl) == {<<N, nt>> \in NodeLists \X TailNodes(tl) :
                  IdealMatch(T, N, tl, nt) /\ ~ImplMatch(T, N, tl, nt)}

Verdicts ==
    LET cases == SetToSeq({<<N, nt>> \in NodeLists \X TailNodes(tail) : TRUE})
    IN [j \in 1..Len(cases) |->
          LET N == cases[j][1]
              nt == cases[j][2]
          IN <<N, nt,
               IF IdealMatch(tpl, N, tail, nt) THEN 1 ELSE 0,
               IF ImplMatch(tpl, N, tail, nt) THEN 1 ELSE 0,
               SetToSeq(IdealX(tpl, N, tail, nt))>>]

Dump == PrintT(<<"@@J", ToJson([tpl |-> tpl, tail |-> tail, v |-> Verdicts])>>)
=============================================================================
