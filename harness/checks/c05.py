"""C05 - formatting is a pure function of its input (history independence).

Cache.tla: TLC explores every call history (with evictions and file system changes) of the cache model and checks
CacheFaithful / HistoryIndependent under the discipline the code claims (rules read or copy shared trees), and
shows the counterexamples for a mutating rule and for a lookup keyed without the file system.  Every history of
the model is replayed into ONE long-lived process of the real code: after each call every tree ever handed out by
core.parse is compared with a fresh parse of its text, and the last result is compared with the result of the
same call in a fresh state.
"""
from __future__ import annotations

import ast
import json
import os
import random
import shutil
import sys
import tempfile
from pathlib import Path
from typing import Dict, List, Tuple

import pipeline
import workers
from common import Report, import_pyrefact, tier, seed
from tlc import MachineryError, run_tlc

PROP = "C05"

TEXT_A = '''import os
import os


class Calc:
    def double(self, v):
        return v * 2

    def run(self, v):
        return self.double(v) + 1


def build(items):
    out = []
    for item in items:
        if item > 1:
            out.append(item * 2)
    ordered = list(reversed(sorted(out)))
    if len(ordered) > 2:
        return ordered
    else:
        return []


print(Calc().run(2), build([3, 1, 2]), os.sep)
'''
TEXT_B = '''def lookup(table, keys):
    found = {}
    for key in table.keys():
        if key in keys:
            found[key] = table[key]
    total = 0
    for value in found.values():
        scale = 3
        total += value * scale
    myValue = total * 1234 + 1234
    if myValue > 10 and myValue > 5:
        flag = True
    else:
        flag = False
    return flag, myValue, sum([v for v in found.values()])


print(lookup({"a": 1, "b": 2}, ["a"]))
'''
TEXT_C = '''from helper_mod import *
import sys, re


def use():
    x = helper_value + 1
    while True:
        x += 1
        if x > 5:
            break
    return x, helper_function(2), re.escape("."), sys.maxsize > 0


print(use())
'''
HELPER_V1 = "helper_value = 1\n\n\ndef helper_function(v):\n    return v + 1\n"
HELPER_V2 = "helper_value = 1\n\n\ndef helper_function(v):\n    return v + 1\n\n\ndef added_later(v):\n    return v\n\n\n__all__ = ['helper_value']\n"
TEXTS = {1: TEXT_A, 2: TEXT_B, 3: TEXT_C}


def alphabet(mods, t: str) -> List[Tuple[str, str]]:
    """(name, kind) of the calls the histories are made of: rules that fire on one of the texts, format_code, pattern calls."""
    out = [("format_code", "entry"), ("format_code_safe", "entry"), ("format_code_len60", "entry"), ("pattern_sub", "entry"),
           ("pattern_findall", "entry"), ("flood", "flood")]
    for m, f in pipeline.all_rules(mods):
        fn = getattr(mods[m], f)
        fires = False
        for text in TEXTS.values():
            try:
                if fn(text) != text:
                    fires = True
            except Exception:
                pass
        if fires:
            out.append((f"{m}.{f}", "rule"))
    return out


def call(mods, name: str, text: str):
    main, pm, core = mods["main"], mods["pattern_matching"], mods["core"]
    if name == "format_code":
        return main.format_code(text)
    if name == "format_code_safe":
        return main.format_code(text, safe=True, keep_imports=True)
    if name == "format_code_len60":
        return main.format_code(text, max_line_length=60)
    if name == "format_code_len72_preserve":
        return main.format_code(text, max_line_length=72, preserve=frozenset({"main", "run", "foo", "f", "x"}))
    if name == "fix_line_lengths_60":
        return mods["fixes"].fix_line_lengths(text, max_line_length=60)
    if name == "pattern_sub":
        return pm.sub("{{x}} * 2", "double({{x}})", text)
    if name == "pattern_findall":
        return repr(pm.findall("{{x}} + 1", text))
    if name == "flood":
        for i in range(130):
            core.parse(f"flood_{i} = {i}\n")
        return "flooded"
    m, f = name.split(".")
    return getattr(mods[m], f)(text)


def clear_caches(mods):
    for owner in (mods["core"], mods["tracing"], mods["processing"], mods["fixes"], mods["parsing"]):
        for n in dir(owner):
            f = getattr(owner, n, None)
            if callable(f) and hasattr(f, "cache_clear"):
                f.cache_clear()


class ParseWatch:
    """Keeps a strong reference to every tree core.parse hands out, with the text it belongs to."""

    def __init__(self, mods):
        self.core = mods["core"]
        self.handed: Dict[int, Tuple[str, ast.AST]] = {}
        self.orig = None

    def install(self):
        self.orig = self.core.parse
        orig, handed = self.orig, self.handed

        def parse(source_code):
            tree = orig(source_code)
            handed[id(tree)] = (source_code, tree)
            return tree
        for attr in ("cache_clear", "cache_info", "__wrapped__"):
            setattr(parse, attr, getattr(orig, attr))
        self.core.parse = parse

    def uninstall(self):
        self.core.parse = self.orig

    def unfaithful(self):
        bad = []
        fresh_dumps = self.__dict__.setdefault("_fresh_dumps", {})
        for src, tree in self.handed.values():
            if src not in fresh_dumps:
                try:
                    fresh_dumps[src] = ast.dump(ast.parse(src), include_attributes=True)
                except SyntaxError:
                    fresh_dumps[src] = None
            fresh = fresh_dumps[src]
            if fresh is not None and ast.dump(tree, include_attributes=True) != fresh:
                bad.append(src)
        return bad


def tdump(obj, depth=0):
    """Structural dump of a compiled template (ast nodes incl. position attributes, wildcards, containers, types)."""
    if depth > 40:
        return "..."
    if isinstance(obj, ast.AST):
        fields = sorted((k, tdump(v, depth + 1)) for k, v in vars(obj).items())
        return (type(obj).__name__, tuple(fields))
    if isinstance(obj, (list, tuple)):
        return (type(obj).__name__, tuple(tdump(x, depth + 1) for x in obj))
    if isinstance(obj, (set, frozenset)):
        return ("set", tuple(sorted(repr(tdump(x, depth + 1)) for x in obj)))
    if isinstance(obj, dict):
        return ("dict", tuple(sorted((repr(k), repr(tdump(v, depth + 1))) for k, v in obj.items())))
    if isinstance(obj, type):
        return ("type", obj.__name__)
    if hasattr(obj, "__dict__") and not callable(obj):
        return (type(obj).__name__, tuple(sorted((k, repr(tdump(v, depth + 1))) for k, v in vars(obj).items())))
    return repr(obj)


class TemplateWatch:
    """Every compiled template handed out by core.compile_template, with the arguments it was built from: a template is
    faithful if it still equals a freshly compiled one (the cache bypassed)."""

    def __init__(self, mods):
        self.core = mods["core"]
        self.handed: Dict[int, tuple] = {}
        self.orig = None

    def install(self):
        self.orig = self.core.compile_template
        orig, handed = self.orig, self.handed

        def compile_template(*a, **k):
            tpl = orig(*a, **k)
            try:
                handed.setdefault(id(tpl), (a, tuple(sorted(k.items(), key=lambda kv: kv[0])), tpl))
            except Exception:
                pass
            return tpl
        for attr in ("cache_clear", "cache_info", "__wrapped__"):
            if hasattr(orig, attr):
                setattr(compile_template, attr, getattr(orig, attr))
        self.core.compile_template = compile_template

    def uninstall(self):
        self.core.compile_template = self.orig

    def unfaithful(self):
        bad = []
        raw = getattr(self.orig, "__wrapped__", None)
        if raw is None:
            return bad
        for a, k, tpl in list(self.handed.values()):
            try:
                fresh = raw(*a, **dict(k))
            except Exception:
                continue
            try:
                if tdump(tpl) != tdump(fresh):
                    bad.append(repr(a[0])[:120] if a else "?")
            except Exception:
                continue
        return bad


def _init():
    mods = import_pyrefact()
    tmp = tempfile.mkdtemp(prefix="verif-c05-")
    os.chdir(tmp)
    Path(tmp, "helper_mod.py").write_text(HELPER_V1)
    return mods, tmp


def _fresh(state, item):
    mods, tmp = state
    name, tid, fsv = item
    Path(tmp, "helper_mod.py").write_text(HELPER_V1 if fsv == 1 else HELPER_V2)
    import importlib
    importlib.invalidate_caches()
    clear_caches(mods)
    try:
        return ("ok", call(mods, name, TEXTS[tid]))
    except Exception as exc:  # noqa: BLE001
        return ("raised", f"{type(exc).__name__}: {exc}")


def _replay(state, item):
    mods, tmp = state
    hist, names = item
    Path(tmp, "helper_mod.py").write_text(HELPER_V1)
    import importlib
    importlib.invalidate_caches()
    clear_caches(mods)
    watch = ParseWatch(mods)
    watch.install()
    fsv = 1
    fs_at_last = 1
    last = None
    bad_after = None
    try:
        for step, h in enumerate(hist, start=1):
            if h[0] == "fs":
                fsv = h[1]
                Path(tmp, "helper_mod.py").write_text(HELPER_V2)
                importlib.invalidate_caches()
                continue
            name, tid = names[h[0] - 1], h[1]
            try:
                last = ("ok", call(mods, name, TEXTS[tid]))
            except Exception as exc:  # noqa: BLE001
                last = ("raised", f"{type(exc).__name__}: {exc}")
            fs_at_last = fsv
            if bad_after is None:
                uf = watch.unfaithful()
                if uf:
                    bad_after = (step, name, uf[0][:200])
    finally:
        watch.uninstall()
    final_call = next(((names[h[0] - 1], h[1]) for h in reversed(hist) if h[0] != "fs"), None)
    return {"last": last, "final_call": final_call, "fs": fs_at_last, "unfaithful": bad_after}


# ---------------------------------------------------------------------------------------------
# Histories of the model instantiated over a LARGE text alphabet: for one text x the history
#   fc_len72(x) fc(x) fc_safe(x) fc(x) fix_line_lengths_60(x)  r1(x) r1(x) r2(x) r2(x) ...  fc(x)
# (every rule r, twice) runs in one process; every call is compared with the same call in a pristine process.
# texts whose boolean expressions share an operand that is no plain name (the symbolic simplifier numbers such operands)
DIRECTED_PAIRS = [("flag = c.z and (c.z or d.w)\nprint(flag)\n", "ok = (a.x and b.y) or (a.x and c.z)\nprint(ok)\n"),
                  ("flag = f(1) or (f(1) and g(2))\nprint(flag)\n", "ok = (h(0) or g(2)) and (h(0) or f(1))\nprint(ok)\n"),
                  ("if t[0] and (t[0] or t[1]):\n    print(1)\n", "if (u[2] and t[1]) or (u[2] and t[0]):\n    print(2)\n")]
ENTRY_CALLS = ["format_code_len72_preserve", "format_code", "format_code_safe", "format_code", "fix_line_lengths_60"]


def corpus_texts(t: str, rng: random.Random) -> List[Tuple[str, str]]:
    """Texts that make every rule fire: the first examples of every example script of the repository."""
    import corpus
    per_file: Dict[str, List[Tuple[str, str]]] = {}
    for origin, text in corpus.repo_snippets():
        per_file.setdefault(origin.split(":")[0], []).append((origin, text))
    out = []
    for f, items in sorted(per_file.items()):
        out += items[: (3 if t == "quick" else 12)]
    return out


def _fresh_text_call(state, item):
    mods, tmp = state
    name, text = item
    try:
        return ("ok", call(mods, name, text))
    except Exception as exc:  # noqa: BLE001
        return ("raised", f"{type(exc).__name__}: {exc}")


def _text_history(state, item):
    mods, tmp = state
    text, calls = item[0], item[1]
    prev_text = item[2] if len(item) > 2 else None
    watch = ParseWatch(mods)
    watch.install()
    twatch = TemplateWatch(mods)
    twatch.install()
    out = []
    bad = None
    try:
        for step, name in enumerate(calls, start=1):
            try:
                if name.startswith("prev:"):
                    call(mods, name[5:], prev_text)         # a call on ANOTHER text: what it leaves behind is the point
                    out.append(("ok", "(another text)"))
                else:
                    out.append(("ok", call(mods, name, text)))
            except Exception as exc:  # noqa: BLE001
                out.append(("raised", f"{type(exc).__name__}: {exc}"))
            if bad is None:
                uf = watch.unfaithful()
                if uf:
                    bad = (step, name, uf[0][:200])
            if bad is None and (step % 6 == 0 or step == len(calls)):
                tf = twatch.unfaithful()
                if tf:
                    bad = (step, name + " (or one of the five calls before it)", "compiled template of " + tf[0])
    finally:
        twatch.uninstall()
        watch.uninstall()
    return {"results": out, "unfaithful": bad}


def text_histories(rep: Report, mods, t: str, rng: random.Random) -> Tuple[int, int]:
    texts = corpus_texts(t, rng)
    rules = [f"{m}.{f}" for m, f in pipeline.all_rules(mods)]
    # which rules fire where (decides which rule calls are worth repeating); computed in pristine forks
    keys = [(r, x) for _, x in texts for r in rules] + [(c, x) for _, x in texts for c in sorted(set(ENTRY_CALLS))]
    fresh_raw = workers.run_tasks(_fresh_text_call, keys, init=_init, procs=16, timeout=120, fork_per_task=True)
    fresh = dict(zip(keys, fresh_raw))
    items, meta = [], []
    for origin, x in texts:
        firing = [r for r in rules if isinstance(fresh.get((r, x)), tuple) and fresh[(r, x)] != ("ok", x)]
        calls = list(ENTRY_CALLS)
        for r in firing:
            calls += [r, r]
        calls.append("format_code")
        # the same again after so many other texts have been parsed that nothing of x is left in the bounded caches
        # (what the unbounded ones still hold was computed from trees that are gone by then)
        calls += ["flood", "format_code"] + [r for r in firing if r.startswith("tracing.")]
        items.append((x, calls))
        meta.append((origin, x, calls))
    # every example of an example script, with the rule that script is about: r(x) r(x) r(x)
    import corpus
    by_name = {r.split(".")[-1]: r for r in rules}
    own = []
    seen_texts = {x for _, x in texts}
    for origin, x in corpus.repo_snippets():
        stem = origin.split(":")[0].split("/")[-1].replace("test_", "").replace(".py", "")
        r = by_name.get(stem)
        if r and x not in seen_texts:
            own.append((origin, x, r))
    own_fresh = dict(zip([(r, x) for _, x, r in own],
                         workers.run_tasks(_fresh_text_call, [(r, x) for _, x, r in own], init=_init, procs=16, timeout=120, fork_per_task=True)))
    fresh.update(own_fresh)
    for origin, x, r in own:
        if isinstance(own_fresh.get((r, x)), tuple) and own_fresh[(r, x)] != ("ok", x):
            items.append((x, [r, r, r]))
            meta.append((origin, x, [r, r, r]))
    # two DIFFERENT texts in one process: the neighbour (previous example of the same script: similar operands, names, shapes)
    # is formatted first, then the text itself
    pairs = [(texts[i - 1], texts[i]) for i in range(1, len(texts)) if texts[i - 1][0].split(":")[0] == texts[i][0].split(":")[0]]
    pairs += [(("directed:shared-operand:a", a), ("directed:shared-operand:b", b)) for a, b in DIRECTED_PAIRS]
    extra_keys = [("format_code", b) for _, (_, b) in pairs if ("format_code", b) not in fresh]
    fresh.update(zip(extra_keys, workers.run_tasks(_fresh_text_call, extra_keys, init=_init, procs=16, timeout=120, fork_per_task=True)))
    for (o1, x1), (o2, x2) in pairs:
        calls = ["prev:format_code", "format_code", "prev:format_code_safe", "format_code"]
        items.append((x2, calls, x1))
        meta.append((f"{o2} after {o1}", x2, calls))
    results = workers.run_tasks(_text_history, items, init=_init, procs=16, timeout=600, fork_per_task=True)
    n_calls = 0
    for (origin, x, calls), r in zip(meta, results):
        if not isinstance(r, dict):
            continue
        if r["unfaithful"]:
            step, name, src = r["unfaithful"]
            what = ("a compiled template cached by core.compile_template no longer equals a fresh compilation" if src.startswith("compiled template of ")
                    else "a tree cached by core.parse no longer matches its text")
            rep.violation(f"{what} after call {step} ({name}) of the history {calls[:step]} on {origin}: {src[:80]}",
                          {"input_id": origin, "source": x, "history": calls[:step], "text_of_tree": src})
            continue
        for step, (name, got) in enumerate(zip(calls, r["results"]), start=1):
            n_calls += 1
            want = fresh.get((name, x))
            if not isinstance(want, tuple) or tuple(got) == tuple(want):
                continue
            rep.violation(f"the result of {name} on {origin} depends on the calls made before it in the same process: {calls[:step - 1]}",
                          {"input_id": origin, "source": x, "history": calls[:step], "result_in_history": list(got), "result_fresh": list(want)})
            break
    return len(items), n_calls


def design_runs(rep: Report):
    """The design condition: both invariants hold for reading / copying rules, and fail for a mutating rule / a stale-prone lookup."""
    def cfg(disc: str, fsv: str, invs: List[str]):
        mc = "\n".join(["---- MODULE CacheMC ----", "EXTENDS Cache", f"MC_Discipline == {disc}", f"MC_Fs == {fsv}", "====", ""])
        c = "\n".join(["CONSTANTS", "  Texts = {1, 2}", "  Rules = {1, 2}", "  Discipline <- MC_Discipline", "  Capacity = 1", "  MaxCalls = 4",
                       "  FsVersions <- MC_Fs", "INIT Init", "NEXT Next", *[f"INVARIANT {i}" for i in invs], "CHECK_DEADLOCK FALSE", ""])
        return mc, c
    mc, c = cfg('[r \\in {1, 2} |-> IF r = 1 THEN "reads" ELSE "copies"]', "{1, 2}", ["CacheFaithful", "HistoryIndependent"])
    res = run_tlc("CacheMC", c, generated_files={"CacheMC.tla": mc}, workers=4, timeout_s=900, keep_stdout=False)
    rep.add_tlc(res, "Cache design: reading / copying rules")
    if res.violated:
        rep.violation(f"Cache.tla: {res.violated} fails although no rule mutates shared trees", {"trace": res.error_trace})
    facts = {}
    for label, disc, inv in (("a mutating rule", '[r \\in {1, 2} |-> IF r = 1 THEN "reads" ELSE "mutates"]', "CacheFaithful"),
                             ("a lookup keyed without the file system", '[r \\in {1, 2} |-> IF r = 1 THEN "reads" ELSE "origin"]', "HistoryIndependent")):
        mc, c = cfg(disc, "{1, 2}", [inv])
        res = run_tlc("CacheMC", c, generated_files={"CacheMC.tla": mc}, workers=4, timeout_s=900, keep_stdout=False)
        rep.add_tlc(res, f"Cache design: {label}")
        facts[label] = f"{inv} violated" if res.violated else "holds"
    rep.coverage["design_condition"] = facts


def main(argv=None) -> int:
    rep = Report(PROP, "model_checking")
    mods = import_pyrefact()
    t = tier()
    rng = random.Random(seed())
    design_runs(rep)
    # the alphabet of real calls
    tmp = tempfile.mkdtemp(prefix="verif-c05-main-")
    cwd = os.getcwd()
    try:
        os.chdir(tmp)
        Path(tmp, "helper_mod.py").write_text(HELPER_V1)
        alpha = alphabet(mods, t)
    finally:
        os.chdir(cwd)
        shutil.rmtree(tmp, ignore_errors=True)
    names = [a for a, _ in alpha]
    rep.coverage["alphabet"] = names
    nr = len(names)
    # histories: every state of the model with MaxCalls calls, rules = alphabet indices, texts = 1..3
    maxcalls = 2 if t == "quick" else 3
    mc = "\n".join(["---- MODULE CacheMC ----", "EXTENDS Cache", f'MC_Discipline == [r \\in 1..{nr} |-> "copies"]', "MC_Fs == {1, 2}", "====", ""])
    cfg = "\n".join(["CONSTANTS", "  Texts = {1, 2, 3}", f"  Rules = {{{', '.join(map(str, range(1, nr + 1)))}}}", "  Discipline <- MC_Discipline",
                     "  Capacity = 2", f"  MaxCalls = {maxcalls}", "  FsVersions <- MC_Fs", "INIT Init", "NEXT Next",
                     "INVARIANT CacheFaithful", "INVARIANT Dump", "CHECK_DEADLOCK FALSE", ""])
    res = run_tlc("CacheMC", cfg, generated_files={"CacheMC.tla": mc}, timeout_s=3000, keep_stdout=False, heap_gb=12)
    rep.add_tlc(res, f"Cache histories (length {maxcalls})")
    hists = [r["hist"] for r in res.records]
    if not hists:
        raise MachineryError("Cache: no histories")
    # plus sampled longer histories
    extra = []
    for _ in range(1500 if t == "quick" else 20000):
        h = []
        fsdone = False
        for _ in range(rng.choice((3, 4))):
            if not fsdone and rng.random() < 0.15:
                h.append(["fs", 2])
                fsdone = True
            else:
                h.append([rng.randrange(1, nr + 1), rng.choice((1, 1, 2, 3))])
        if h[-1][0] != "fs":
            extra.append(h)
    if t == "quick" and len(hists) > 9000:
        hists = rng.sample(hists, 9000)
    hists = hists + extra
    # fresh results
    keys = sorted({(names[h[0] - 1], h[1], fsv) for hist in hists for h in hist if h[0] != "fs" for fsv in (1, 2)})
    fresh_raw = workers.run_tasks(_fresh, keys, init=_init, procs=16, timeout=300, fork_per_task=True)
    fresh = dict(zip(keys, fresh_raw))
    results = workers.run_tasks(_replay, [(h, names) for h in hists], init=_init, procs=16, timeout=600, fork_per_task=True)
    known = {e["id"] for e in rep.known_entries()}
    nontrivial = 0
    for hist, r in zip(hists, results):
        if not isinstance(r, dict):
            continue
        if len({tuple(h) for h in hist}) < len(hist) or any(h[0] == "fs" for h in hist):
            nontrivial += 1
        pretty = [["fs", h[1]] if h[0] == "fs" else [names[h[0] - 1], f"text{h[1]}"] for h in hist]
        if r["unfaithful"]:
            step, name, src = r["unfaithful"]
            rep.violation(f"a tree cached by core.parse no longer matches its text after call {step} ({name}) of history {pretty}",
                          {"history": pretty, "step": step, "call": name, "text_of_tree": src})
            continue
        if r["final_call"] is None:
            continue
        want = fresh.get((r["final_call"][0], r["final_call"][1], r["fs"]))
        if want is None or r["last"] == want or r["last"] == tuple(want):
            continue
        if list(r["last"]) == list(want):
            continue
        stale_fs = any(h[0] == "fs" for h in hist) and r["final_call"][1] == 3 and r["fs"] == 2
        case = {"history": pretty, "final_call": r["final_call"], "result_in_history": r["last"], "result_fresh": want}
        if stale_fs and "KF-C05-1" in known:
            rep.known("KF-C05-1", {"history": pretty})
            continue
        rep.violation(f"the result of {r['final_call'][0]} on text{r['final_call'][1]} depends on the calls made before it: history {pretty}", case)
    n_texts, n_calls = text_histories(rep, mods, t, rng)
    rep.coverage["text_histories"] = {"texts": n_texts, "calls_compared_with_a_pristine_process": n_calls}
    rep.coverage["evaluations"] = len(hists) + n_calls
    rep.coverage["distinct_nontrivial"] = nontrivial + n_texts
    rep.coverage["traces_validated_against_impl"] = len(hists) + n_texts
    rep.coverage["rule"] = ("call histories = the states of Cache.tla with MaxCalls calls over the alphabet of real calls (every rule that fires on one "
                            "of three rich texts, format_code in two option vectors, pattern sub / findall, a cache flood) x 3 texts, with file system "
                            "changes, plus sampled histories of length 3-4; non-trivial = the history repeats a call or changes the file system")
    rep.sample({"history": [["fs", h[1]] if h[0] == "fs" else [names[h[0] - 1], f"text{h[1]}"] for h in hists[len(hists) // 2]]})
    rep.coverage["rule"] += ("; plus, for the first examples of every example script of the repository, the history fc_len72(x) fc(x) fc_safe(x) fc(x) "
                             "fix_line_lengths_60(x) then every firing rule twice, then fc(x), each call compared with the same call in a pristine process")
    rep.assumptions += ["a fresh process = a child forked from a worker that imported pyrefact but never called it (one fork per history / reference call)"]
    return rep.finish()


if __name__ == "__main__":
    sys.exit(main())
