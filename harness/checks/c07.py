"""C07 - safe mode never removes or renames a module's public surface.

Surface.tla enumerates modules (definition kinds x naming styles x used/unused x duplicate x decorated);
each is formatted with safe=True under the recorder and TLC validates clause FinalSurface of
PipelineTrace.tla (surface(input) subset of surface(output)); the first stage that drops a name is
reported.  The same clause is validated on safe-mode runs over repository snippets and stdlib modules.
"""
from __future__ import annotations

import random
import sys

import pipecheck
import proj
import render_surface
from common import Report, import_pyrefact, tier, seed
from tlc import MachineryError, run_tlc

PROP = "C07"


def surface_cases(rep: Report, t: str, label="Surface"):
    kinds = '{"func", "async", "class", "var", "annvar", "augvar", "tuple", "chain", "starred", "listtarget", "underscore", "method", "selfless", "static", "classmeth", "classattr"}'
    if t == "quick":
        styles, maxdefs, flags = '{"snake", "camel", "upper", "private"}', 2, "{<<FALSE, FALSE>>, <<TRUE, TRUE>>}"
        kinds_mc = kinds
    else:
        styles, maxdefs, flags = '{"snake", "camel", "upper", "private", "dunderish", "pascal"}', 2, \
            "{<<FALSE, FALSE>>, <<TRUE, FALSE>>, <<FALSE, TRUE>>}"
        kinds_mc = kinds
    mc = "\n".join(["---- MODULE SurfaceMC ----", "EXTENDS Surface", f"MC_Flags == {flags}", "====", ""])
    cfg = "\n".join(["CONSTANTS", f"  Kinds = {kinds_mc}", f"  Styles = {styles}", f"  MaxDefs = {maxdefs}", "  Flags <- MC_Flags",
                     "INIT Init", "NEXT Next", "INVARIANT Dump", "CHECK_DEADLOCK FALSE", ""])
    res = run_tlc("SurfaceMC", cfg, generated_files={"SurfaceMC.tla": mc}, timeout_s=1800, keep_stdout=False)
    rep.add_tlc(res, label)
    if not res.records:
        raise MachineryError("Surface: no cases")
    return res.records


def main(argv=None) -> int:
    rep = Report(PROP, "model_checking")
    import_pyrefact()
    t = tier()
    rng = random.Random(seed())
    cases = surface_cases(rep, t)
    if t == "quick" and len(cases) > 3500:
        cases = rng.sample(cases, 3500)
    items = []
    for i, c in enumerate(cases):
        text, names, _ = render_surface.render(c)
        got = proj.surface(text)
        if got is None or not set(names) <= got:
            raise MachineryError(f"renderer/projection disagree on the surface of a Surface.tla case: {names} vs {got}\n{text}")
        items.append((f"surface:{i}", text, {"safe": True}))
        if i % 6 == 0:
            # the same module formatted without safe first, in the same process
            items.append((f"after-unsafe:surface:{i}", text, {"safe": True}))
        if i % 9 == 0:
            # definitions behind a module-level statement that nothing gets past (a deprecated shim, a worker loop)
            prefix = ['raise ImportError("this module has moved")\n\n\n', "while True:\n    pass\n\n\n", 'assert False, "deprecated"\n\n\n',
                      'if True:\n    raise SystemExit(2)\n\n\n'][i // 9 % 4]
            items.append((f"surface-behind-block:{i}", prefix + text, {"safe": True}))
    items += [(k, s, {"safe": True}) for k, s, _ in
              pipecheck.standard_inputs(rep, t, rng, shapes_on=True, snippets="all" if t != "quick" else "400",
                                        stdlib=20 if t == "quick" else 200)]
    runs = pipecheck.run_and_validate(rep, items, want=("surface",), label="C07 safe-mode runs",
                                      timeout=60 if t == "quick" else 180)
    atrisk = 0
    for r in runs:
        if r.result is None:
            continue      # crashes / timeouts are C04's business
        before = proj.surface(r.source) or set()
        if r.result != r.source and before:
            atrisk += 1
        if "FinalSurface" not in r.verdict["bad"]:
            continue
        after = proj.bound_surface(r.result) or set()
        lost = sorted(before - after)
        # localise: first recorded stage after which a lost name is gone
        stage, s_in, s_out = "format_code", r.source, r.result
        for ev in r.changed_events():
            sa = proj.bound_surface(ev["after"])
            if sa is not None and not set(lost) <= (sa | (before - set(lost))) or (sa is not None and any(n not in sa for n in lost)):
                stage, s_in, s_out = ev["stage"], ev["before"], ev["after"]
                break
        kf, sh = pipecheck.known_by_signature(rep, stage, s_in, s_out, r.source)
        if not kf:
            for e in rep.known_entries():
                cls = e.get("class", {})
                if isinstance(cls, dict) and cls.get("kind") == "lost-names" and set(lost) <= set(cls.get("names", [])):
                    kf = e["id"]
        case = {"input_id": r.key, "source": r.source, "result": r.result, "lost_names": lost, "stage": stage,
                "stage_input": s_in, "stage_output": s_out, "shape": sh}
        if kf:
            rep.known(kf, {"input_id": r.key, "lost": lost, "stage": stage})
            continue
        rep.violation(f"safe mode lost {lost} (stage {stage}: {sh['old_src'][:80]!r} -> {sh['new_src'][:80]!r}); input {r.key}", case)
    rep.coverage["evaluations"] = len(runs)
    rep.coverage["distinct_nontrivial"] = atrisk
    rep.coverage["traces_validated_against_impl"] = len(runs)
    rep.coverage["rule"] = ("Surface.tla modules (<= 2 definitions over 12 binding kinds x naming styles x used/unused, with duplicate / "
                            "decorator flags) plus Shapes cases, repository snippets and stdlib modules, all formatted with safe=True; "
                            "non-trivial = the run changed the text of a module that has a surface")
    if cases:
        text, names, _ = render_surface.render(cases[len(cases) // 2])
        rep.sample({"surface_case": cases[len(cases) // 2], "module": text, "surface": names})
    rep.assumptions += ["surface = names bound by def / class / assignment statements at top level and in bodies of top-level classes"]
    return rep.finish()


if __name__ == "__main__":
    sys.exit(main())
