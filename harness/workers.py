"""A small process pool whose tasks can be killed individually when they exceed a time limit."""
from __future__ import annotations

import multiprocessing as mp
import os
import time
import traceback
from multiprocessing.connection import wait
from typing import Any, Callable, Iterable, List, Sequence, Tuple

TIMEOUT = "__timeout__"
CRASH = "__worker_crashed__"


def _in_fresh_fork(func, state, item, timeout):
    """func(state, item) in a child forked from this (pristine) worker: nothing a task does survives it."""
    import pickle
    import signal
    r, w = os.pipe()
    pid = os.fork()
    if pid == 0:
        try:
            os.close(r)
            signal.alarm(max(1, int(timeout)))      # the worker may be killed; the child must not outlive its budget
            try:
                res = func(state, item)
            except BaseException as exc:  # noqa: BLE001
                res = ("__task_raised__", f"{type(exc).__name__}: {exc}")
            try:
                data = pickle.dumps(res)
            except Exception:
                data = pickle.dumps(("__task_raised__", "unpicklable result"))
            with os.fdopen(w, "wb") as out:
                out.write(data)
        finally:
            os._exit(0)
    os.close(w)
    with os.fdopen(r, "rb") as inp:
        data = inp.read()
    os.waitpid(pid, 0)
    if not data:
        return ("__task_raised__", "fresh fork died (time limit or crash)")
    return pickle.loads(data)


def _worker(conn, func, init, fork_per_task=False, timeout=60.0):
    try:
        state = init() if init else None
    except BaseException:  # noqa: BLE001
        conn.send(("__init_failed__", traceback.format_exc()))
        return
    while True:
        try:
            msg = conn.recv()
        except EOFError:
            return
        if msg is None:
            return
        idx, item = msg
        try:
            res = _in_fresh_fork(func, state, item, timeout) if fork_per_task else func(state, item)
        except BaseException as exc:  # noqa: BLE001 - the task function is expected to catch what it wants
            if isinstance(exc, KeyboardInterrupt):
                return
            res = ("__task_raised__", f"{type(exc).__name__}: {exc}")
        try:
            conn.send((idx, res))
        except Exception:  # result not picklable
            conn.send((idx, ("__task_raised__", "unpicklable result")))


def run_tasks(func: Callable[[Any, Any], Any], items: Sequence[Any], *, init: Callable[[], Any] = None,
              procs: int = 16, timeout: float = 60.0, fork_per_task: bool = False) -> List[Any]:
    """func(state, item) for every item in fresh forked workers; a task over `timeout` seconds yields TIMEOUT.

    fork_per_task: the workers only run init(); every task runs in a child forked from such a pristine worker,
    so no task sees anything (caches, module-level memos, patched attributes) a previous task left behind."""
    ctx = mp.get_context("fork")
    n = max(1, min(procs, len(items)))
    results: List[Any] = [None] * len(items)
    pending = list(range(len(items)))[::-1]
    workers = {}

    def spawn():
        parent, child = ctx.Pipe()
        p = ctx.Process(target=_worker, args=(child, func, init, fork_per_task, timeout), daemon=True)
        p.start()
        child.close()
        workers[parent] = {"proc": p, "task": None, "start": 0.0}
        return parent

    def feed(conn):
        if pending:
            idx = pending.pop()
            workers[conn]["task"] = idx
            workers[conn]["start"] = time.time()
            conn.send((idx, items[idx]))
        else:
            workers[conn]["task"] = None
            try:
                conn.send(None)
            except Exception:
                pass

    for _ in range(n):
        feed(spawn())
    done = 0
    while done < len(items):
        busy = [c for c, w in workers.items() if w["task"] is not None]
        if not busy:
            break
        ready = wait(busy, timeout=1.0)
        now = time.time()
        for conn in ready:
            w = workers[conn]
            try:
                idx, res = conn.recv()
            except (EOFError, OSError):
                idx = w["task"]
                results[idx] = CRASH
                done += 1
                w["proc"].kill()
                del workers[conn]
                feed(spawn())
                continue
            if idx == "__init_failed__":
                raise RuntimeError(f"worker initialisation failed:\n{res}")
            results[idx] = res
            done += 1
            feed(conn)
        for conn in list(busy):
            w = workers.get(conn)
            if w is None or w["task"] is None or conn in ready:
                continue
            if now - w["start"] > timeout:
                results[w["task"]] = TIMEOUT
                done += 1
                w["proc"].kill()
                w["proc"].join(1)
                del workers[conn]
                feed(spawn())
    for conn, w in workers.items():
        try:
            conn.send(None)
        except Exception:
            pass
        w["proc"].join(0.2)
        if w["proc"].is_alive():
            w["proc"].kill()
    return results
