------------------------------ MODULE ProgGen ------------------------------
(***************************************************************************)
(* Generator of closed, deterministic, terminating programs (C01 / C02).     *)
(* A program is a prologue binding a pool of typed variables, a sequence of  *)
(* blocks drawn from a catalogue of parametric statement templates           *)
(* (harness/proggen.py gives each template its text), and an epilogue that   *)
(* prints every variable of the pool.  Blocks read and write the shared      *)
(* pool, so the blocks of a program interact and the rules see combinations  *)
(* that no single hand-written example contains.  Types are tracked so that  *)
(* every generated program is well typed (runs to completion):               *)
(*   each template declares which pool variables it reads (with their type)  *)
(*   and the type it leaves in the variable it writes.                       *)
(***************************************************************************)
EXTENDS Integers, Sequences, FiniteSets, TLC, Json

CONSTANTS
    Templates,   \* set of records [name, reads, writes]: reads / writes are sets of <<var, type>>
    Params,      \* parameter values a template instance may carry
    MaxBlocks,
    InitTypes    \* function (as a set of <<var, type>>) : the prologue

VARIABLES blocks, types
vars == <<blocks, types>>

TypeOf(v, ts) == (CHOOSE p \in ts : p[1] = v)[2]
Writes(ts, ws) == {p \in ts : \A w \in ws : w[1] # p[1]} \cup ws

Init == blocks = <<>> /\ types = InitTypes

\* a block may be appended when the pool has the types it reads
Applicable(t) == \A r \in t.reads : r \in types

Add == /\ Len(blocks) < MaxBlocks
       /\ \E t \in Templates, p \in Params :
             /\ Applicable(t)
             /\ blocks' = Append(blocks, [t |-> t.name, p |-> p])
             /\ types' = Writes(types, t.writes)
Next == Add
Spec == Init /\ [][Next]_vars

\* every program is well typed by construction
WellTyped == \A v \in {p[1] : p \in types} : Cardinality({p \in types : p[1] = v}) = 1

Dump == Len(blocks) >= 1 => PrintT(<<"@@J", ToJson([blocks |-> blocks])>>)
=============================================================================
