"""Every rule applied in isolation to every input (shared by C02 and C03)."""
from __future__ import annotations

from typing import Any, Dict, List, Sequence, Tuple

import pipeline
import workers
from common import import_pyrefact


def _init():
    mods = import_pyrefact()
    rules = []
    for m, f in pipeline.all_rules(mods):
        rules.append((f"{m}.{f}", getattr(mods[m], f)))
    return mods, rules


def _one(state, item):
    mods, rules = state
    key, text, preserve = item
    out = []
    for name, fn in rules:
        _fresh_caches(mods)      # history independence is C05's subject; here every rule starts from fresh trees
        try:
            try:
                res = fn(text, preserve=preserve) if preserve is not None and _takes_preserve(fn) else fn(text)
            except TypeError as exc:
                if "root_is_static" in str(exc):
                    res = fn(text, root_is_static=True)           # abstractions.overused_constant: the text is a whole module
                elif "preserve" in str(exc) or "positional" in str(exc):
                    res = fn(text, preserve=frozenset())
                else:
                    raise
        except BaseException as exc:  # noqa: BLE001
            if isinstance(exc, KeyboardInterrupt):
                raise
            out.append((name, None, f"{type(exc).__name__}: {exc}"))
            continue
        if res != text:
            out.append((name, res, None))
    return out


def _fresh_caches(mods) -> None:
    for owner, names in ((mods["core"], ("parse", "_group_nodes_in_scope", "_get_line_start_charnos")),
                         (mods["tracing"], ("trace_origin",))):
        for n in names:
            f = getattr(owner, n, None)
            if f is not None and hasattr(f, "cache_clear"):
                f.cache_clear()


def _takes_preserve(fn) -> bool:
    f = getattr(fn, "_fix_func", fn)
    f = getattr(f, "__wrapped__", f)
    try:
        return "preserve" in f.__code__.co_varnames[: f.__code__.co_argcount + f.__code__.co_kwonlyargcount]
    except AttributeError:
        return False


def rule_names() -> List[str]:
    mods = import_pyrefact()
    return [f"{m}.{f}" for m, f in pipeline.all_rules(mods)]


def run_isolated(items: Sequence[Tuple[Any, str]], timeout: float = 120.0, preserve=None):
    """[(key, text, [(rule, output or None, error or None) for rules that changed the text or raised])]."""
    tasks = [(k, t, preserve) for k, t in items]
    raw = workers.run_tasks(_one, tasks, init=_init, procs=16, timeout=timeout)
    out = []
    for (k, t, _), r in zip(tasks, raw):
        if r == workers.TIMEOUT:
            out.append((k, t, [("*", None, f"Timeout: no result within {timeout:.0f}s")]))
        elif r == workers.CRASH or (isinstance(r, tuple) and r and r[0] == "__task_raised__"):
            out.append((k, t, [("*", None, f"WorkerDied: {r}")]))
        else:
            out.append((k, t, r))
    return out
