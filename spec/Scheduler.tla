------------------------------ MODULE Scheduler ------------------------------
(***************************************************************************)
(* The rewrite scheduler of pyrefact (processing._schedule_rewrites,       *)
(* processing._apply_rewrites and the fix / chain loops), one action per   *)
(* loop body of the implementation.                                        *)
(*                                                                         *)
(* Text model.  The text is a sequence of NUnits units; position p         *)
(* (0..NUnits) is the boundary after unit p, so a range <<lo, hi>> covers   *)
(* units lo+1..hi and <<p, p>> is an insertion point.  Positions are order  *)
(* isomorphic to character offsets, which is all the scheduler looks at.    *)
(* A physical line is a range of positions; a line may carry an ignore      *)
(* comment.                                                                *)
(*                                                                         *)
(* A yield is what a rule generator hands to the scheduler:                *)
(*   [g    : rule group (index of the rule in the chain, 1-based),         *)
(*    lo,hi: target range,                                                 *)
(*    new  : replacement text, identified by its RANK among the texts      *)
(*           (0 = empty text = deletion, Brk = a text that makes the pass   *)
(*           unparsable); the rank order is the order of the texts,        *)
(*    eq   : equality class of the (old, new) rewrite object (Python ==),  *)
(*    txn  : explicit transaction number, or Auto]                         *)
(***************************************************************************)
EXTENDS Integers, Sequences, FiniteSets, TLC, SequencesExt

CONSTANTS
    NUnits,        \* number of text units
    Lines,         \* sequence of <<start, end>> positions of the physical lines
    RangeSet,      \* ranges a generated scenario may use
    Payloads,      \* replacement ranks a generated scenario may use
    Brk,           \* the rank of the unparsable replacement
    ExplicitTxns,  \* explicit transaction numbers a generated scenario may use
    IgnoreSets,    \* sets of line indices that may carry an ignore comment
    MaxYields,
    NGroups,
    MaxIter,       \* max_iter of fix (5) / chain (10)
    Dedent,        \* the rank of the "same text, re-indented" replacement (0 if unused)
    WsUnits,       \* units that consist of whitespace only (indentation, line ends)
    Forbidden      \* <<lo, hi, new>> combinations the generator leaves out (they trigger the layout repairs
                   \* of _do_rewrite - `pass` insertion, skipping of whitespace-only changes - which are not
                   \* part of the scheduling property)

Auto == -1                     \* "no transaction given"
AutoBase == -100000000         \* default_transaction["count"] starts here

VARIABLES
    yields,      \* the scenario: sequence of yields, group-major, in yield order
    ignored,     \* set of ranges (lines) that carry an ignore comment
    pc,          \* "build" | "collect" | "dedupe" | "consider" | "sort" | "apply" | "validate" | "done"
    k,           \* current rule group
    ng,          \* number of rule groups of this pass (len(funcs))
    present,     \* transaction keys currently in transaction_rewrites
    queue,       \* transactions of group k still to be considered, in sorted order
    scheduled,   \* accepted rewrites: set of [t, lo, hi, new]
    dropped,     \* set of <<transaction key, reason>>
    order,       \* scheduled rewrites after the final sort (application order)
    ai,          \* index into order of the next rewrite to apply
    work,        \* text during application (sequence of tokens)
    result,      \* text returned by the pass
    rolled       \* TRUE iff the pass was rolled back by the validity check

vars == <<yields, ignored, pc, k, ng, present, queue, scheduled, dropped, order, ai, work, result, rolled>>

-----------------------------------------------------------------------------
(* Geometry: core.Range.overlaps is strict on both sides.                  *)
Overlaps(a, b) == a[1] < b[2] /\ b[1] < a[2]
Rng(r) == <<r.lo, r.hi>>

Orig == [u \in 1..NUnits |-> u]            \* token u > 0 is original unit u
Tok(new) == IF new = 0 THEN <<>> ELSE << -new >>   \* token -n is the replacement with rank n
\* the text a rewrite puts in place of its range.  The Dedent replacement re-emits the non-blank
\* units of the range itself: the same code with its indentation removed (a layout-only rewrite,
\* which _do_rewrite must still apply when it is part of a transaction).
TokR(r) == IF r.new = Dedent /\ Dedent # 0
             THEN SelectSeq([i \in 1..(r.hi - r.lo) |-> r.lo + i], LAMBDA u : u \notin WsUnits)
             ELSE Tok(r.new)

TouchesIgnored(r) == \E l \in ignored : Overlaps(Rng(r), l)

-----------------------------------------------------------------------------
(* Transactions.  fill_transaction increments the default counter for      *)
(* every yielded tuple, whether or not it carries a transaction.           *)
TxnNum(i) == IF yields[i].txn = Auto THEN AutoBase + i ELSE yields[i].txn
Key(i)    == <<yields[i].g, TxnNum(i)>>
KeyLess(a, b) == a[1] < b[1] \/ (a[1] = b[1] /\ a[2] < b[2])
KeysOfGroup(g) == {Key(i) : i \in {j \in 1..Len(yields) : yields[j].g = g}}
AllKeys == {Key(i) : i \in 1..Len(yields)}

Rw(i) == [lo |-> yields[i].lo, hi |-> yields[i].hi, new |-> yields[i].new, eq |-> yields[i].eq]
Indices(key) == SelectSeq([i \in 1..Len(yields) |-> i], LAMBDA i : Key(i) = key)
RwSeq(key) == [j \in 1..Len(Indices(key)) |-> Rw(Indices(key)[j])]
EqSeq(key) == [j \in 1..Len(Indices(key)) |-> Rw(Indices(key)[j]).eq]
RwSet(key) == {RwSeq(key)[j] : j \in 1..Len(RwSeq(key))}     \* the set built before sorting

SelfOverlap(key) == \E a, b \in RwSet(key) : a # b /\ Overlaps(Rng(a), Rng(b))
KeyIgnored(key)  == \E a \in RwSet(key) : TouchesIgnored(a)

-----------------------------------------------------------------------------
(* Scenario construction (generator mode).                                 *)
YieldSpace ==
    [g : 1..NGroups, lo : 0..NUnits, hi : 0..NUnits, new : Payloads, eq : Int,
     txn : ExplicitTxns \cup {Auto}]

MkYield(g, r, n, t) ==
    [g |-> g, lo |-> r[1], hi |-> r[2], new |-> n,
     eq |-> (r[1] * (NUnits + 1) + r[2]) * 64 + n, txn |-> t]

Init ==
    /\ yields = <<>>
    /\ ignored \in {{Lines[i] : i \in s} : s \in IgnoreSets}
    /\ pc = "build"
    /\ k = 1
    /\ ng = NGroups
    /\ present = {}
    /\ queue = <<>>
    /\ scheduled = {}
    /\ dropped = {}
    /\ order = <<>>
    /\ ai = 1
    /\ work = Orig
    /\ result = Orig
    /\ rolled = FALSE

AddYield ==
    /\ pc = "build"
    /\ Len(yields) < MaxYields
    /\ \E g \in 1..NGroups, r \in RangeSet, n \in Payloads, t \in ExplicitTxns \cup {Auto} :
          /\ (Len(yields) > 0 => g >= yields[Len(yields)].g)
          /\ <<r[1], r[2], n>> \notin Forbidden
          /\ yields' = Append(yields, MkYield(g, r, n, t))
    /\ UNCHANGED <<ignored, pc, k, ng, present, queue, scheduled, dropped, order, ai, work, result, rolled>>

Start ==
    /\ pc = "build"
    /\ pc' = "collect"
    /\ UNCHANGED <<yields, ignored, k, ng, present, queue, scheduled, dropped, order, ai, work, result, rolled>>

-----------------------------------------------------------------------------
(* One rule group: `for k, (func, args, kwargs) in enumerate(funcs)`.       *)

\* the generator of rule k is exhausted; its transactions are in the dictionary
Collect ==
    /\ pc = "collect"
    /\ present' = present \cup KeysOfGroup(k)
    /\ pc' = "dedupe"
    /\ UNCHANGED <<yields, ignored, k, ng, queue, scheduled, dropped, order, ai, work, result, rolled>>

\* duplicate elimination over sorted(transaction_rewrites): a transaction whose
\* rewrite tuple equals that of a transaction earlier in sorted order is deleted
IsDuplicate(t, S) == \E u \in S : KeyLess(u, t) /\ EqSeq(u) = EqSeq(t)

Dedupe ==
    /\ pc = "dedupe"
    /\ LET dups == {t \in present : IsDuplicate(t, present)}
           keep == present \ dups
       IN /\ present' = keep
          /\ dropped' = dropped \cup {<<t, "duplicate">> : t \in dups}
          /\ queue' = SetToSortSeq({t \in keep : t[1] = k}, KeyLess)
    /\ pc' = "consider"
    /\ UNCHANGED <<yields, ignored, k, ng, scheduled, order, ai, work, result, rolled>>

ConflictsScheduled(t) ==
    \E a \in RwSet(t), s \in scheduled : Overlaps(Rng(a), Rng(s))

\* `for t in sorted(transaction_rewrites): if t.group_number != k: continue ...`
Consider ==
    /\ pc = "consider"
    /\ queue # <<>>
    /\ LET t == Head(queue) IN
         /\ queue' = Tail(queue)
         /\ IF KeyIgnored(t)
              THEN /\ dropped' = dropped \cup {<<t, "ignored">>}
                   /\ UNCHANGED scheduled
            ELSE IF SelfOverlap(t)
              THEN /\ dropped' = dropped \cup {<<t, "self">>}
                   /\ UNCHANGED scheduled
            ELSE IF ConflictsScheduled(t)
              THEN /\ dropped' = dropped \cup {<<t, "conflict">>}
                   /\ UNCHANGED scheduled
            ELSE /\ scheduled' = scheduled \cup
                        {[t |-> t, lo |-> a.lo, hi |-> a.hi, new |-> a.new] : a \in RwSet(t)}
                 /\ UNCHANGED dropped
    /\ UNCHANGED <<yields, ignored, pc, k, ng, present, order, ai, work, result, rolled>>

NextGroup ==
    /\ pc = "consider"
    /\ queue = <<>>
    /\ IF k < ng THEN k' = k + 1 /\ pc' = "collect"
                      ELSE k' = k /\ pc' = "sort"
    /\ UNCHANGED <<yields, ignored, ng, present, queue, scheduled, dropped, order, ai, work, result, rolled>>

-----------------------------------------------------------------------------
(* scheduled_rewrites.sort(key=(range, new text, transaction), reverse)    *)
SchedLess(a, b) ==   \* a sorts before b in ASCENDING key order
    \/ a.lo < b.lo
    \/ a.lo = b.lo /\ a.hi < b.hi
    \/ a.lo = b.lo /\ a.hi = b.hi /\ a.new < b.new
    \/ a.lo = b.lo /\ a.hi = b.hi /\ a.new = b.new /\ KeyLess(a.t, b.t)

FinalSort ==
    /\ pc = "sort"
    /\ order' = Reverse(SetToSortSeq(scheduled, SchedLess))
    /\ ai' = 1
    /\ work' = Orig
    /\ pc' = "apply"
    /\ UNCHANGED <<yields, ignored, k, ng, present, queue, scheduled, dropped, result, rolled>>

(* _apply_rewrites: one _do_rewrite per scheduled rewrite, last position   *)
(* first, so that the offsets of the rewrites still to come stay valid.     *)
ApplyNext ==
    /\ pc = "apply"
    /\ ai <= Len(order)
    /\ LET r == order[ai] IN
         work' = SubSeq(work, 1, r.lo) \o TokR(r) \o SubSeq(work, r.hi + 1, Len(work))
    /\ ai' = ai + 1
    /\ UNCHANGED <<yields, ignored, pc, k, ng, present, queue, scheduled, dropped, order, result, rolled>>

ApplyDone ==
    /\ pc = "apply"
    /\ ai > Len(order)
    /\ pc' = "validate"
    /\ UNCHANGED <<yields, ignored, k, ng, present, queue, scheduled, dropped, order, ai, work, result, rolled>>

Parses(text) == \A i \in 1..Len(text) : text[i] # -Brk

\* `if not core.is_valid_python(new_source): return source`
Validate ==
    /\ pc = "validate"
    /\ IF Parses(work) THEN result' = work /\ rolled' = FALSE
                       ELSE result' = Orig /\ rolled' = TRUE
    /\ pc' = "done"
    /\ UNCHANGED <<yields, ignored, k, ng, present, queue, scheduled, dropped, order, ai, work>>

Next ==
    \/ AddYield \/ Start \/ Collect \/ Dedupe \/ Consider \/ NextGroup
    \/ FinalSort \/ ApplyNext \/ ApplyDone \/ Validate

Spec == Init /\ [][Next]_vars

-----------------------------------------------------------------------------
(* The fix / chain loop around a pass.  history = {original} is never       *)
(* extended, so the loop stops early exactly when a pass returns the        *)
(* original text; a synthetic rule that yields only on the original text    *)
(* is therefore called once if the pass changed nothing and MaxIter times   *)
(* otherwise.                                                              *)
ExpectedCalls == IF result = Orig THEN 1 ELSE MaxIter

-----------------------------------------------------------------------------
(* Declarative reading of the property (C10).                              *)

Accepted == {s.t : s \in scheduled}
DroppedKeys == {d[1] : d \in dropped}

\* all or nothing
Atomic ==
    \A t \in AllKeys :
        \/ \A a \in RwSet(t) : \E s \in scheduled : s.t = t /\ s.lo = a.lo /\ s.hi = a.hi /\ s.new = a.new
        \/ \A s \in scheduled : s.t # t

\* no two applied rewrites touch overlapping text
NoOverlapApplied ==
    \A a, b \in scheduled : a # b => ~Overlaps(Rng(a), Rng(b))

\* every transaction is decided exactly once when the scheduler is done
Decided ==
    pc \in {"sort", "apply", "validate", "done"} =>
        /\ Accepted \cup DroppedKeys = AllKeys
        /\ Accepted \cap DroppedKeys = {}

\* a drop needs one of the four reasons of the statement
Justified(t) ==
    \/ SelfOverlap(t)
    \/ KeyIgnored(t)
    \/ \E u \in AllKeys : KeyLess(u, t) /\ EqSeq(u) = EqSeq(t)
    \/ \E u \in Accepted : KeyLess(u, t) /\
           \E a \in RwSet(t), b \in RwSet(u) : Overlaps(Rng(a), Rng(b))
DropJustified == \A t \in DroppedKeys : Justified(t)

\* precedence is never inverted: nothing is accepted that overlaps an accepted
\* transaction (covered by NoOverlapApplied) and nothing accepted is a duplicate
\* of, or ignored
AcceptClean == \A t \in Accepted : ~SelfOverlap(t) /\ ~KeyIgnored(t)

\* declarative splice: what "apply exactly the accepted rewrites" means
InsLess(a, b) == a.new < b.new \/ (a.new = b.new /\ KeyLess(a.t, b.t))
RECURSIVE Emit(_, _)
Emit(p, S) ==
    LET ins == SetToSortSeq({r \in S : r.lo = p /\ r.hi = p}, InsLess)
        insToks == FlattenSeq([j \in 1..Len(ins) |-> TokR(ins[j])])
        rep == {r \in S : r.lo = p /\ r.hi > p}
    IN IF rep # {}
         THEN LET r == CHOOSE r \in rep : TRUE
              IN insToks \o TokR(r) \o Emit(r.hi, S \ ({r} \cup {q \in S : q.lo = p /\ q.hi = p}))
       ELSE IF p >= NUnits THEN insToks
       ELSE insToks \o <<p + 1>> \o Emit(p + 1, S)
Splice(S) == Emit(0, S)

\* ---- the declarative clauses for an ARBITRARY set A of whole transactions (used to judge observed outcomes) ----
RwOf(A) == UNION {{[t |-> t, lo |-> a.lo, hi |-> a.hi, new |-> a.new] : a \in RwSet(t)} : t \in A}

NoOverlapIn(A) ==
    /\ \A t \in A : ~SelfOverlap(t)
    /\ \A a, b \in RwOf(A) : (a.t # b.t) => ~Overlaps(Rng(a), Rng(b))

\* literal reading of the statement: a drop is justified by ANY transaction with precedence
JustifiedWrt(t, A) ==
    \/ SelfOverlap(t)
    \/ KeyIgnored(t)
    \/ \E u \in AllKeys : KeyLess(u, t) /\ EqSeq(u) = EqSeq(t)
    \/ \E u \in AllKeys : KeyLess(u, t) /\
           \E a \in RwSet(t), b \in RwSet(u) : Overlaps(Rng(a), Rng(b))

\* every outcome the statement admits: the splice of an admissible set of whole transactions
Admissible(A) == NoOverlapIn(A) /\ (\A t \in AllKeys \ A : JustifiedWrt(t, A)) /\ (\A t \in A : ~KeyIgnored(t))
AdmissibleSplices == {Splice(RwOf(A)) : A \in {B \in SUBSET AllKeys : Admissible(B)}}

\* while applying in reverse position order the prefix not yet reached is untouched
OffsetsStable ==
    (pc = "apply" /\ ai <= Len(order)) =>
        SubSeq(work, 1, order[ai].hi) = SubSeq(Orig, 1, order[ai].hi)

ResultIsSplice ==
    pc = "done" =>
        IF Parses(Splice(scheduled)) THEN result = Splice(scheduled) /\ ~rolled
                                     ELSE result = Orig /\ rolled

\* units of an ignored line are carried over verbatim and in place
IgnoredUntouched ==
    pc = "done" =>
        \A l \in ignored :
            \E i \in 0..Len(result) :
                SubSeq(result, i + 1, i + (l[2] - l[1])) = SubSeq(Orig, l[1] + 1, l[2])

TypeOK ==
    /\ pc \in {"build", "collect", "dedupe", "consider", "sort", "apply", "validate", "done"}
    /\ k \in 1..ng
    /\ Len(yields) <= MaxYields
=============================================================================
