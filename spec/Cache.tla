------------------------------- MODULE Cache -------------------------------
(***************************************************************************)
(* Process-wide caches of pyrefact and history independence (C05).          *)
(*                                                                         *)
(*   core.parse            source text -> syntax tree, LRU of Capacity        *)
(*   tracing.trace_origin  (name, source text) -> origin, although the       *)
(*                         answer also depends on OTHER files on disk         *)
(* A cached tree is shared: every later call on the same text gets the same  *)
(* object.  A rule handles the tree under one of three disciplines:          *)
(*   "reads"   only reads the tree                                          *)
(*   "copies"  copies the nodes it wants to change                          *)
(*   "mutates" changes nodes of the shared tree in place                     *)
(* and a lookup keyed without the file system state is "stale-prone".         *)
(*                                                                         *)
(* State: which texts are cached (LRU order), which edits the cached tree of  *)
(* each text has suffered, the file system version, and for the cached        *)
(* origin answers the file system version they were computed under.           *)
(* The result of a call is modelled by what the call SEES:                   *)
(*   <<rule, text, edits of the tree it worked on, fs version it used>>       *)
(* so  HistoryIndependent  says: what the last call sees is what a call in a   *)
(* fresh process would see.                                                  *)
(*                                                                         *)
(* TLC explores every history up to MaxCalls over the alphabet Calls, with    *)
(* evictions and file system changes interleaved.  With Discipline mapping    *)
(* every rule to "reads"/"copies" and no stale-prone lookups both invariants   *)
(* hold; any "mutates" rule or stale-prone lookup gives a counterexample:     *)
(* that is the design condition the code has to meet, and the histories of     *)
(* the model are replayed into one long-lived process of the real code.        *)
(***************************************************************************)
EXTENDS Integers, Sequences, FiniteSets, TLC, SequencesExt, Json

CONSTANTS
    Texts,        \* source texts (abstract ids)
    Rules,        \* rule ids
    Discipline,   \* function Rules -> {"reads", "copies", "mutates", "origin"}
    Capacity,     \* LRU capacity of the parse cache
    MaxCalls,
    FsVersions    \* e.g. 1..2 ; 1 = initial

VARIABLES
    lru,        \* sequence of cached texts, most recently used last
    edits,      \* function text -> sequence of rules that mutated its cached tree (only meaningful while cached)
    fs,         \* current file system version
    origin,     \* function text -> fs version the cached origin answer was computed under (0 = not cached)
    hist,       \* the calls made so far
    seen        \* what the last call saw
vars == <<lru, edits, fs, origin, hist, seen>>

Cached(t) == \E i \in 1..Len(lru) : lru[i] = t
Touch(t) == SelectSeq(lru, LAMBDA x : x # t) \o <<t>>
Trim(s) == IF Len(s) > Capacity THEN SubSeq(s, Len(s) - Capacity + 1, Len(s)) ELSE s

Init ==
    /\ lru = <<>>
    /\ edits = [t \in Texts |-> <<>>]
    /\ fs = 1
    /\ origin = [t \in Texts |-> 0]
    /\ hist = <<>>
    /\ seen = <<>>

\* a top-level call of rule r on text t
Call(r, t) ==
    /\ Len(hist) < MaxCalls
    /\ LET hit == Cached(t)
           tree == IF hit THEN edits[t] ELSE <<>>              \* a miss parses afresh
           d == Discipline[r]
           newlru == Trim(Touch(t))
           dropped == {x \in Texts : Cached(x) /\ ~(\E i \in 1..Len(newlru) : newlru[i] = x)}
           usedfs == IF d = "origin" THEN (IF origin[t] # 0 THEN origin[t] ELSE fs) ELSE fs
       IN /\ seen' = <<r, t, tree, IF d = "origin" THEN usedfs ELSE 0>>
          /\ lru' = newlru
          /\ edits' = [x \in Texts |->
                         IF x \in dropped THEN <<>>
                         ELSE IF x = t THEN (IF d = "mutates" THEN Append(tree, r) ELSE tree)
                         ELSE edits[x]]
          /\ origin' = IF d = "origin" THEN [origin EXCEPT ![t] = usedfs] ELSE origin
    /\ hist' = Append(hist, <<r, t>>)
    /\ UNCHANGED fs

\* another file of the package tree is rewritten between two calls
FsChange ==
    /\ fs + 1 \in FsVersions
    /\ fs' = fs + 1
    /\ hist' = Append(hist, <<"fs", fs + 1>>)
    /\ Len(hist) < MaxCalls
    /\ UNCHANGED <<lru, edits, origin, seen>>

Next == (\E r \in Rules, t \in Texts : Call(r, t)) \/ FsChange
Spec == Init /\ [][Next]_vars

\* every cached tree equals a fresh parse of its text
CacheFaithful == \A t \in Texts : Cached(t) => edits[t] = <<>>

\* the last call saw what a call in a fresh process sees: an unedited tree and the current file system
HistoryIndependent == seen # <<>> => (seen[3] = <<>> /\ seen[4] \in {0, fs})

Dump == (hist # <<>> /\ Len(hist) = MaxCalls) => PrintT(<<"@@J", ToJson([hist |-> hist])>>)
=============================================================================
