"""Localisation of a broken invariant inside a recorded pipeline trace, and rewrite signatures.

* first_breaking_stage: the first stage event after which a projection (obs, ast, surface, ...) differs
  from the projection of the input of the run.
* shape: a coarse structural signature of what a stage did to the tree (old node type -> new node
  type, or statements removed / added), used to identify *which* rewrite a known finding covers.
"""
from __future__ import annotations

import ast
import difflib
import re
from typing import Any, Callable, Dict, List, Optional, Sequence, Tuple


def _dump(n) -> str:
    return ast.dump(n, include_attributes=False) if isinstance(n, ast.AST) else repr(n)


def _src(n) -> str:
    try:
        return ast.unparse(n)[:160] if isinstance(n, ast.AST) else repr(n)[:160]
    except Exception:
        return "?"


def _diff(a, b, parent="Module", field="body") -> Optional[dict]:
    if isinstance(a, ast.AST) and isinstance(b, ast.AST):
        if type(a) is not type(b):
            return {"old": type(a).__name__, "new": type(b).__name__, "parent": parent, "field": field,
                    "old_src": _src(a), "new_src": _src(b), "_old": a, "_new": b}
        for f in a._fields:
            va, vb = getattr(a, f, None), getattr(b, f, None)
            if isinstance(va, list) and isinstance(vb, list):
                if len(va) == len(vb):
                    for x, y in zip(va, vb):
                        d = _diff(x, y, type(a).__name__, f)
                        if d:
                            return d
                else:
                    da, db = [_dump(x) for x in va], [_dump(x) for x in vb]
                    sm = difflib.SequenceMatcher(a=da, b=db, autojunk=False)
                    removed, added = [], []
                    for tag, i1, i2, j1, j2 in sm.get_opcodes():
                        if tag in ("delete", "replace"):
                            removed += va[i1:i2]
                        if tag in ("insert", "replace"):
                            added += vb[j1:j2]
                    return {"old": "[" + ",".join(type(x).__name__ for x in removed) + "]",
                            "new": "[" + ",".join(type(x).__name__ for x in added) + "]",
                            "parent": type(a).__name__, "field": f, "_old": removed, "_new": added, "_pa": a, "_pb": b,
                            "old_src": " | ".join(_src(x) for x in removed)[:240],
                            "new_src": " | ".join(_src(x) for x in added)[:240]}
            else:
                d = _diff(va, vb, type(a).__name__, f)
                if d:
                    return d
        return None
    if a != b or type(a) is not type(b):
        return {"old": type(a).__name__, "new": type(b).__name__, "parent": parent, "field": field,
                "old_src": _src(a), "new_src": _src(b), "_old": a, "_new": b}
    return None


def shape(before: str, after: str) -> dict:
    """Signature of the first structural difference between two texts."""
    import textwrap

    def parse(t):
        try:
            return ast.parse(t)
        except (SyntaxError, ValueError):
            return ast.parse(textwrap.dedent(t))      # indented fragments
    try:
        ta, tb = parse(before), parse(after)
    except (SyntaxError, ValueError):
        return {"old": "?", "new": "?", "parent": "?", "field": "?", "old_src": "", "new_src": "", "features": []}
    d = _diff(ta, tb)
    if not d:
        return {"old": "=", "new": "=", "parent": "Module", "field": "body", "old_src": "", "new_src": "", "features": []}
    pa, pb = d.pop("_pa", None), d.pop("_pb", None)
    d["features"] = _features(d.pop("_old", None), d.pop("_new", None), ta, tb)
    # a dict display lost duplicate keys: does every key keep the value of its LAST occurrence?
    if isinstance(pa, ast.Dict) and isinstance(pb, ast.Dict):
        def last_values(node):
            out = {}
            for k, v in zip(node.keys, node.values):
                if isinstance(k, ast.Constant):
                    out[repr(k.value)] = ast.dump(v)
            return out
        if last_values(pa) == last_values(pb):
            d["features"].append("dict-dedupe-keeps-last-value")
        else:
            d["features"].append("dict-dedupe-changes-a-value")
    return d


def _names_loaded(tree) -> set:
    return {n.id for n in ast.walk(tree) if isinstance(n, ast.Name) and isinstance(n.ctx, ast.Load)}


def _features(old, new, ta=None, tb=None) -> List[str]:
    """Facts about the rewritten node(s) that known-finding classes may require."""
    out = []
    if isinstance(old, ast.BoolOp):
        if any(isinstance(v, ast.Constant) for b in ast.walk(old) if isinstance(b, ast.BoolOp) for v in b.values):
            out.append("boolop-with-constant-operand")
        if any(isinstance(x, ast.Call) for v in old.values for x in ast.walk(v)):
            out.append("boolop-with-call")
    if isinstance(new, ast.Constant):
        out.append(f"new-constant-{type(new.value).__name__}")
    # sum(...) over a range / comprehension with symbolic bounds replaced by a closed form
    if isinstance(old, ast.Call) and isinstance(old.func, ast.Name) and old.func.id == "sum" and not isinstance(new, ast.Call):
        targets = {t.id for c in ast.walk(old) if isinstance(c, ast.comprehension) for t in ast.walk(c.target) if isinstance(t, ast.Name)}
        symbolic = {n.id for n in ast.walk(old) if isinstance(n, ast.Name)} - {"sum", "range"} - targets
        out.append("sum-closed-form-symbolic" if symbolic else "sum-closed-form-constant")
        for r in ast.walk(old):
            if isinstance(r, ast.Call) and isinstance(r.func, ast.Name) and r.func.id == "range":
                try:
                    vals = [ast.literal_eval(a) for a in r.args]
                except (ValueError, SyntaxError):
                    continue
                lo, hi = (0, vals[0]) if len(vals) == 1 else (vals[0], vals[1])
                if lo < 0 or hi < 0 or lo >= hi:
                    out.append("sum-over-empty-or-negative-range")
                    break
    # identifier rename that leaves other occurrences of the old identifier behind
    if isinstance(old, str) and isinstance(new, str) and old.isidentifier() and new.isidentifier() and tb is not None:
        left = {n.id for n in ast.walk(tb) if isinstance(n, ast.Name)} | \
               {n.name for n in ast.walk(tb) if isinstance(n, (ast.FunctionDef, ast.ClassDef, ast.AsyncFunctionDef))} | \
               {n.attr for n in ast.walk(tb) if isinstance(n, ast.Attribute)}
        pairs = {(old, new)}
        if ta is not None:
            wa, wb = list(ast.walk(ta)), list(ast.walk(tb))
            if len(wa) == len(wb) and all(type(x) is type(y) for x, y in zip(wa, wb)):
                for x, y in zip(wa, wb):
                    for f in ("id", "name", "arg", "attr"):
                        vx, vy = getattr(x, f, None), getattr(y, f, None)
                        if isinstance(vx, str) and isinstance(vy, str) and vx != vy:
                            pairs.add((vx, vy))
        if any(o in left for o, _ in pairs):
            out.append("rename-leaves-old-identifier")
        else:
            out.append("rename-complete")
    # an assignment turned into a bare expression (or removed) although its target is still read
    if isinstance(old, ast.Assign) and not isinstance(new, ast.Assign) and tb is not None:
        names = {t.id for t in old.targets if isinstance(t, ast.Name)}
        if names & _names_loaded(tb):
            out.append("removed-assignment-target-still-read")
    # an unused class is deleted although its body runs calls when the class statement is executed
    if isinstance(old, list) and any(isinstance(n, ast.ClassDef) and any(
            isinstance(c, ast.Call) for st in n.body if not isinstance(st, (ast.FunctionDef, ast.AsyncFunctionDef, ast.ClassDef))
            for c in ast.walk(st)) for n in old):
        out.append("removed-class-runs-calls-in-body")
    # statements moved out of a class while the class still refers to them through self / cls
    if isinstance(old, list) and isinstance(new, list):
        added_defs = {n.name.lstrip("_") for n in new if isinstance(n, (ast.FunctionDef, ast.AsyncFunctionDef))}
        for cls in [n for n in new if isinstance(n, ast.ClassDef)]:
            for a in ast.walk(cls):
                if isinstance(a, ast.Attribute) and isinstance(a.value, ast.Name) and a.value.id in ("self", "cls", cls.name) \
                        and a.attr.lstrip("_") in added_defs:
                    if "moved-method-still-referenced-through-class" not in out:
                        out.append("moved-method-still-referenced-through-class")
    return out


def first_breaking_stage(events: Sequence[dict], projections: Dict[str, Any], base) -> Optional[dict]:
    """events: recorded stage events; projections: text -> projection; base: projection of the run's input."""
    for ev in events:
        if not ev.get("changed"):
            continue
        if projections.get(ev["after"], base) != base:
            return ev
    return None


def matches_signature(entry: dict, stage: str, sh: dict, case_text: str = "") -> bool:
    """Does a known-finding entry of class 'trace-signature' cover this failure?"""
    cls = entry.get("class", {})
    if isinstance(cls, list):
        return any(matches_signature(dict(entry, **{"class": c}), stage, sh, case_text) for c in cls)
    if cls.get("kind") != "trace-signature":
        return False
    if entry.get("stage_regex"):
        if not re.fullmatch(entry["stage_regex"], stage):
            return False
    elif cls.get("stage") and cls["stage"] != stage:
        return False
    for key in ("old", "new", "parent", "field"):
        if key in cls and not re.fullmatch(cls[key], sh.get(key, "")):
            return False
    if "old_src" in cls and not re.search(cls["old_src"], sh.get("old_src", ""), re.S):
        return False
    if "new_src" in cls and not re.search(cls["new_src"], sh.get("new_src", ""), re.S):
        return False
    if "input" in cls and not re.search(cls["input"], case_text, re.S):
        return False
    if not set(cls.get("features", [])) <= set(sh.get("features", [])):
        return False
    return True
