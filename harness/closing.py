"""Closing environments for open example programs (renderer of Closing.tla vectors)."""
from __future__ import annotations

import ast
import builtins
import functools
import itertools
import random
from typing import Dict, List, Optional, Sequence, Tuple

from tlc import run_tlc, MachineryError

KIND_VALUE = {
    "int": "3",
    "neg": "-2",
    "list": "[3, 1, 2]",
    "str": "'ab'",
    "dict": "{'a': 1, 'b': 2}",
    "set": "{1, 2}",
    "none": "None",
    "empty": "[]",
    "nested": "[[1, 2], [3, 4]]",
    "bool": "True",
}
SAFE_MODULES = {"os", "re", "sys", "math", "random", "json", "itertools", "collections", "functools", "heapq", "string",
                "operator", "time", "datetime", "typing", "pathlib", "copy", "bisect", "statistics"}
HELPERS = '''def _show(value):
    import types
    if isinstance(value, (types.GeneratorType, map, filter, zip, range, reversed)) or value.__class__.__qualname__.endswith("iterator"):
        import itertools
        value = list(itertools.islice(value, 25))
    if isinstance(value, (set, frozenset)):
        try:
            value = ("set", sorted(value))
        except TypeError:
            value = ("set", len(value))
    text = repr(value)
    if " at 0x" in text:
        text = value.__class__.__qualname__
    print(text)


'''


@functools.lru_cache(maxsize=4)
def kind_vectors(max_slots: int, kinds: Tuple[str, ...]) -> List[List[str]]:
    cfg = "\n".join(["CONSTANTS", "  Kinds = {" + ", ".join(f'"{k}"' for k in kinds) + "}", f"  MaxSlots = {max_slots}",
                     "INIT Init", "NEXT Next", "INVARIANT Dump", "CHECK_DEADLOCK FALSE", ""])
    res = run_tlc("Closing", cfg, workers=2, timeout_s=600, keep_stdout=False)
    if not res.records:
        raise MachineryError("Closing: no vectors")
    kind_vectors.stats = res
    return [r["vec"] for r in res.records]


def free_names(tree: ast.Module) -> List[str]:
    """Names that are read somewhere but bound nowhere in the text (and are not builtins)."""
    bound, loaded = set(dir(builtins)), []
    for node in ast.walk(tree):
        if isinstance(node, ast.Name):
            if isinstance(node.ctx, ast.Load):
                loaded.append(node.id)
            else:
                bound.add(node.id)
        elif isinstance(node, (ast.FunctionDef, ast.AsyncFunctionDef, ast.ClassDef)):
            bound.add(node.name)
        elif isinstance(node, ast.arg):
            bound.add(node.arg)
        elif isinstance(node, (ast.Import, ast.ImportFrom)):
            for a in node.names:
                bound.add((a.asname or a.name).split(".")[0])
        elif isinstance(node, ast.ExceptHandler) and node.name:
            bound.add(node.name)
        elif isinstance(node, (ast.Global, ast.Nonlocal)):
            pass
        elif isinstance(node, ast.MatchAs) and node.name:
            bound.add(node.name)
        elif isinstance(node, ast.MatchStar) and node.name:
            bound.add(node.name)
    out = []
    for n in loaded:
        if n not in bound and n not in out:
            out.append(n)
    return out


def called_names(tree: ast.Module) -> set:
    return {n.func.id for n in ast.walk(tree) if isinstance(n, ast.Call) and isinstance(n.func, ast.Name)}


def attribute_bases(tree: ast.Module) -> set:
    return {n.value.id for n in ast.walk(tree) if isinstance(n, ast.Attribute) and isinstance(n.value, ast.Name)}


def callable_defs(tree: ast.Module) -> List[Tuple[str, int]]:
    """(name, number of required positional parameters) of top-level plain functions."""
    out = []
    for node in tree.body:
        if isinstance(node, ast.FunctionDef):
            a = node.args
            if a.kwonlyargs and any(d is None for d in a.kw_defaults):
                continue
            required = len(a.posonlyargs) + len(a.args) - len(a.defaults)
            if required <= 3 and not any(isinstance(d, ast.Name) and d.id in ("staticmethod", "classmethod", "property") for d in node.decorator_list):
                out.append((node.name, required))
    return out


def closed_variants(text: str, rng: random.Random, max_variants: int = 6) -> List[Tuple[str, str]]:
    """[(tag, closed program)] candidates; the caller keeps those that run to completion deterministically."""
    try:
        tree = ast.parse(text)
    except SyntaxError:
        return []
    if any(isinstance(n, ast.ImportFrom) and any(a.name == "*" for a in n.names) for n in ast.walk(tree)):
        return []          # a star import binds names this analysis cannot see
    free = free_names(tree)
    called = called_names(tree)
    bases = attribute_bases(tree)
    # free names used as modules / objects (np.array, os.path, self.x) cannot be closed by a plain value
    data_names = [n for n in free if n not in called and n not in bases]
    func_names = [n for n in free if n in called and n not in bases]
    hard = [n for n in free if n in bases]
    if len(data_names) > 3 or len(func_names) > 4:
        return []
    defs = callable_defs(tree)[:2]
    vectors = kind_vectors(3, ("int", "list", "str", "dict"))
    by_len: Dict[int, List[List[str]]] = {}
    for v in vectors:
        by_len.setdefault(len(v), []).append(v)
    variants = []
    data_vecs = by_len.get(len(data_names), [[]])
    picks = data_vecs if len(data_vecs) <= max_variants else rng.sample(data_vecs, max_variants)
    unknown = [n for n in hard if n not in SAFE_MODULES]
    if unknown:
        return []
    for dv in picks:
        pre = [HELPERS]
        for n in func_names:
            pre.append(f"def {n}(*args, **kwargs):\n    print('{n}', args, sorted(kwargs.items()))\n    return args[0] if args else 1\n\n")
        for n, k in zip(data_names, dv):
            pre.append(f"{n} = {KIND_VALUE[k]}\n")
        tag = ",".join(f"{n}={k}" for n, k in zip(data_names, dv)) or "closed"
        base = "".join(f"import {n}\n" for n in hard) + "".join(pre) + "\n" + text.rstrip("\n") + "\n"
        variants.append((tag, base))
        for fname, req in defs:
            arg_vecs = by_len.get(req, [[]])
            for av in (arg_vecs if len(arg_vecs) <= 16 else rng.sample(arg_vecs, 16)):
                args = ", ".join(KIND_VALUE[k] for k in av)
                variants.append((tag + f";{fname}({','.join(av)})", base + f"\n_show({fname}({args}))\n"))
    return variants
