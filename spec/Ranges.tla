------------------------------- MODULE Ranges -------------------------------
(***************************************************************************)
(* Range comprehensions and sums over ranges (C17, second half).            *)
(*   [x for x in range(a, b, s) if f1 (and f2)]    with constant a, b, s      *)
(*   sum(range(a, b)), sum([x * c for x in range(a, b)])                     *)
(*   sum(x * c for x in range(a, b) if f1)                                   *)
(*   sum(range(n + d)) with a symbolic n: expected value for every n in Box  *)
(* The expected list / value is computed here from the definition of range;  *)
(* the harness lets the rules rewrite the rendered expression and compares   *)
(* what CPython evaluates afterwards.                                       *)
(***************************************************************************)
EXTENDS Integers, Sequences, FiniteSets, TLC, SequencesExt, Json

CONSTANTS Starts, Stops, Steps, FilterConsts, FilterOps, Box, Mults,
          OrForms      \* comparison operators used inside the three-part and/or filters (kept small)

\* the elements of range(a, b, s) for s > 0, in order
RECURSIVE RangeSeq(_, _, _)
RangeSeq(a, b, s) == IF a >= b THEN <<>> ELSE <<a>> \o RangeSeq(a + s, b, s)

CmpVal(op, x, c) ==
    CASE op = "<" -> x < c [] op = "<=" -> x <= c [] op = ">" -> x > c
      [] op = ">=" -> x >= c [] op = "==" -> x = c [] op = "!=" -> x # c

Filt(s, fs) == SelectSeq(s, LAMBDA x : \A i \in 1..Len(fs) : CmpVal(fs[i][1], x, fs[i][2]))
\* filters that are not conjunctions: "or" = f1 or f2;  "andor" = f1 and (f2 or f3);  "orand" = f1 or (f2 and f3)
Holds(form, fs, x) ==
    LET h(i) == CmpVal(fs[i][1], x, fs[i][2]) IN
    CASE form = "and" -> \A i \in 1..Len(fs) : h(i)
      [] form = "or" -> \E i \in 1..Len(fs) : h(i)
      [] form = "andor" -> h(1) /\ (h(2) \/ h(3))
      [] form = "orand" -> h(1) \/ (h(2) /\ h(3))
FiltForm(s, form, fs) == SelectSeq(s, LAMBDA x : Holds(form, fs, x))
RECURSIVE SumSeq(_)
SumSeq(s) == IF s = <<>> THEN 0 ELSE Head(s) + SumSeq(Tail(s))

Filters1 == {<< <<op, c>> >> : op \in FilterOps, c \in FilterConsts}
Filters2 == {<< <<o1, c1>>, <<o2, c2>> >> : o1 \in FilterOps, c1 \in FilterConsts, o2 \in FilterOps, c2 \in FilterConsts}

Filters3 == {<< <<o1, c1>>, <<o2, c2>>, <<o3, c3>> >> : o1 \in OrForms, c1 \in FilterConsts, o2 \in OrForms, c2 \in FilterConsts,
                                                       o3 \in OrForms, c3 \in FilterConsts}
Cases ==
    {[kind |-> "comp", form |-> "and", a |-> a, b |-> b, s |-> s, fs |-> fs, exp |-> Filt(RangeSeq(a, b, s), fs)] :
        a \in Starts, b \in Stops, s \in Steps, fs \in Filters1 \cup Filters2}
    \cup {[kind |-> "comp", form |-> "or", a |-> a, b |-> b, s |-> 1, fs |-> fs, exp |-> FiltForm(RangeSeq(a, b, 1), "or", fs)] :
        a \in Starts, b \in Stops, fs \in Filters2}
    \cup {[kind |-> "comp", form |-> fm, a |-> a, b |-> b, s |-> 1, fs |-> fs, exp |-> FiltForm(RangeSeq(a, b, 1), fm, fs)] :
        fm \in {"andor", "orand"}, a \in Starts, b \in Stops, fs \in Filters3}
    \cup {[kind |-> "sumrange", a |-> a, b |-> b, s |-> 1, fs |-> <<>>, exp |-> <<SumSeq(RangeSeq(a, b, 1))>>] :
        a \in Starts, b \in Stops}
    \cup {[kind |-> "sumcomp", a |-> a, b |-> b, s |-> m, fs |-> <<>>,
           exp |-> <<SumSeq([i \in 1..Len(RangeSeq(a, b, 1)) |-> RangeSeq(a, b, 1)[i] * m])>>] :
        a \in Starts, b \in Stops, m \in Mults}
    \* sums over a comprehension WITH filters: the closed forms only hold for the unfiltered range
    \cup {[kind |-> "sumfilt", a |-> a, b |-> b, s |-> m, fs |-> fs,
           exp |-> LET F == Filt(RangeSeq(a, b, 1), fs) IN <<SumSeq([i \in 1..Len(F) |-> F[i] * m])>>] :
        a \in Starts, b \in Stops, m \in Mults, fs \in Filters1}
    \cup {[kind |-> fk, a |-> 0, b |-> 0, s |-> 1, fs |-> <<>>, lit |-> q,
           exp |-> <<IF fk = "sumlit" THEN SumSeq(q) ELSE Len(q)>>] :
        fk \in {"sumlit", "lenlit"}, q \in UNION {[1..n -> Mults \cup {0}] : n \in 0..3}}
    \cup {[kind |-> "lencomp", a |-> a, b |-> b, s |-> m, fs |-> <<>>, exp |-> <<Len(RangeSeq(a, b, 1))>>] :
        a \in Starts, b \in Stops, m \in Mults}
    \cup {[kind |-> "sumsym", a |-> d, b |-> 0, s |-> 1, fs |-> <<>>,
           exp |-> [i \in 1..Len(SetToSortSeq(Box, <)) |-> SumSeq(RangeSeq(0, SetToSortSeq(Box, <)[i] + d, 1))]] :
        d \in Starts}

VARIABLE c
vars == <<c>>
Init == c \in Cases
Next == UNCHANGED c
Spec == Init /\ [][Next]_vars
Dump == PrintT(<<"@@J", ToJson(c)>>)
=============================================================================
