------------------------------ MODULE Imports ------------------------------
(***************************************************************************)
(* Import resolution over a package tree (C18).                             *)
(*                                                                         *)
(* The tree:  base  defines  alpha, beta, Path, _hid  (optionally __all__ =  *)
(*            ["alpha"]);                                                     *)
(*            mid   takes names from base in one of several forms and        *)
(*                  defines gamma itself;                                     *)
(*            top   (optional) takes names from mid the same way and defines  *)
(*                  delta;                                                    *)
(*            the client takes names from the outermost library module and    *)
(*            references a subset of them.                                    *)
(* When Pkg, base is pkg/impl.py and mid is pkg/__init__.py (importing       *)
(* either absolutely, `from pkg.impl import ..`, or relatively, `from .impl   *)
(* import ..`); top and the client live outside the package.  In the "sub"    *)
(* layouts mid is an ordinary module pkg/lib.py next to pkg/impl.py.          *)
(*                                                                         *)
(* A namespace maps a name to its ORIGIN: [m |-> defining module, n |-> name  *)
(* there], or [m |-> module, n |-> "<module>"] for a module object.          *)
(* Python's rules, as far as this tree needs them:                           *)
(*   from M import n [as a]   binds a (or n) to NS(M)[n]  - any attribute     *)
(*   from M import *          binds Star(M): __all__ if defined, else every   *)
(*                            name of NS(M) that does not start with "_"      *)
(*                            (imported names and modules included)           *)
(*   import M [as a]          binds a (or M) to the module object             *)
(*   a later binding of the same name wins                                   *)
(*                                                                         *)
(* Resolve(case) = origin of every name the client references.  The property *)
(* says formatting the client must not change it.  TLC enumerates the cases  *)
(* and writes Resolve out; the harness builds the tree on disk, checks        *)
(* Resolve against CPython (the objects' own __module__/__qualname__), and    *)
(* compares object identities before / after format_code.                     *)
(***************************************************************************)
EXTENDS Integers, Sequences, FiniteSets, TLC, SequencesExt, Json

CONSTANTS
    BaseAlls,     \* subset of {"none", "alpha"}: base defines no __all__ / __all__ = ["alpha"]
    MidForms,     \* how mid takes names from base
    TopForms,     \* how top takes names from mid; "absent" = no top module
    ClientForms,  \* how the client takes names from the outermost library module
    Variants,     \* extra shape of the client's imports: "plain","dup","infunc","unused","stacked","late","twostars"
    Pkgs,         \* subset of {"flat", "pkgabs", "pkgrel", "subabs", "subrel", "flatshadow", "pkgshadow"}
                  \* (the shadow layouts: mid is a PACKAGE and a dead module file of the same name lies next to it;
                  \*  the import system takes the package, so resolution is that of "flat" / "pkgabs")
    MaxUses       \* the client references 1..MaxUses names

Mod(m) == [m |-> m, n |-> "<module>"]
Def(m, n) == [m |-> m, n |-> n]
Public(n) == n # "_hid"                      \* the only name of the tree that starts with an underscore

\* a namespace is a set of <<name, origin>> pairs with at most one pair per name
Names(ns) == {p[1] : p \in ns}
Get(ns, n) == (CHOOSE p \in ns : p[1] = n)[2]
Bind(ns, more) == {p \in ns : p[1] \notin Names(more)} \cup more          \* later bindings win

\* "Path" is a name the tool has a guess for (pathlib.Path) when it finds it undefined: here it is base's own function
BaseNS == {<<"alpha", Def("base", "alpha")>>, <<"beta", Def("base", "beta")>>, <<"_hid", Def("base", "_hid")>>,
           <<"Path", Def("base", "Path")>>}
Star(ns, all) == IF all = "none" THEN {p \in ns : Public(p[1])} ELSE {p \in ns : p[1] = all}

\* what `form` binds in the importing module, given the namespace of the imported module `src` (named srcname)
\* the names a "from" import asks for are the function names the source really has
Wanted(src) == Names(src) \cap {"alpha", "beta", "gamma", "al", "bl", "first", "Path"}
Taken(form, src, srcname, all, own) ==
    CASE form = "from"   -> {<<n, Get(src, n)>> : n \in Wanted(src)}
      [] form = "alias"  -> {<<(IF n = "alpha" THEN "al" ELSE IF n = "al" THEN "bl" ELSE n), Get(src, n)>> : n \in Wanted(src)}
      [] form = "star"   -> Star(src, all)
      [] form = "module" -> {<<srcname, Mod(srcname)>>}
      \* `from src import alpha as first, beta as alpha, ...`: the name alpha now means the source's beta
      [] form = "swap"   -> IF {"alpha", "beta"} \subseteq Wanted(src)
                            THEN {<<"first", Get(src, "alpha")>>, <<"alpha", Get(src, "beta")>>}
                                 \cup {<<n, Get(src, n)>> : n \in Wanted(src) \ {"alpha", "beta", "first"}}
                            ELSE {<<n, Get(src, n)>> : n \in Wanted(src)}
      [] form = "redef"  -> Bind({<<n, Get(src, n)>> : n \in Wanted(src)},
                                 IF "alpha" \in Wanted(src) THEN {<<"alpha", Def(own, "alpha")>>} ELSE {})
      [] OTHER -> {}

\* a second library the client may star-import BEFORE the outer module: its beta is shadowed whenever outer exports one
ExtraNS == {<<"beta", Def("extra", "beta")>>, <<"zeta", Def("extra", "zeta")>>}
\* mid form "fromstar": `from base import alpha, beta, Path` FOLLOWED by `from extra import *`: the later statement wins
\* for every name both provide (beta), and adds what only it has (zeta)
MidTaken(c) == IF c.mid = "fromstar"
                 THEN Bind(Taken("from", BaseNS, "base", c.ball, "mid"), Star(ExtraNS, "none"))
                 ELSE Taken(c.mid, BaseNS, "base", c.ball, "mid")
MidNS(c) == Bind(MidTaken(c), {<<"gamma", Def("mid", "gamma")>>})
TopNS(c) == Bind(Taken(c.top, MidNS(c), "mid", "none", "top"), {<<"delta", Def("top", "delta")>>})
OuterNS(c) == IF c.top = "absent" THEN MidNS(c) ELSE TopNS(c)
OuterName(c) == IF c.top = "absent" THEN "mid" ELSE "top"

\* the names a client can reference, by client form: plain names, or attributes of the module object
\* (for the module forms every attribute of the outer namespace is reachable; nested module attributes are
\*  followed one level: src.base.alpha)
Reachable(c) ==
    LET ns == OuterNS(c)
        fn == {p \in ns : p[2].n # "<module>"}
    IN CASE c.client \in {"from", "alias"} -> {<<(IF c.client = "alias" THEN "c_" \o p[1] ELSE p[1]), p[2]>> : p \in {q \in fn : Public(q[1])}}
         [] c.client = "star" ->
                LET mine == {p \in Star(ns, "none") : p[2].n # "<module>"}
                IN IF c.variant = "twostars" THEN Bind(ExtraNS, mine)                  \* from extra import * ; from outer import *
                   ELSE IF c.variant = "basestar" THEN Bind({p \in Star(BaseNS, c.ball) : TRUE}, mine)   \* from base import * ; from outer import *
                   ELSE mine
         [] c.client \in {"module", "modalias"} -> {<<p[1], p[2]>> : p \in {q \in fn : Public(q[1])}}
         [] OTHER -> {}

Cases == [ball : BaseAlls, mid : MidForms, top : TopForms, client : ClientForms, variant : Variants, pkg : Pkgs,
          uses : {u \in SUBSET {"alpha", "beta", "gamma", "delta", "al", "bl", "first", "zeta", "c_first", "c_alpha", "c_beta", "c_gamma", "c_delta", "c_al", "c_bl"} :
                      u # {} /\ Cardinality(u) <= MaxUses}]
Sensible(c) == /\ c.uses \subseteq Names(Reachable(c))
               /\ (c.pkg \notin {"flat", "flatshadow"} => c.mid # "module")         \* `import pkg.impl` inside the package __init__ is a different story
               /\ (c.variant = "twostars" => c.client = "star" /\ "beta" \in c.uses)
               /\ (c.variant = "basestar" => c.client = "star" /\ c.pkg \in {"flat", "flatshadow"} /\ "alpha" \in c.uses)
               /\ (c.variant = "unused" => c.client \in {"from", "alias"} /\ Names(Reachable(c)) \ c.uses # {})

Resolve(c) == {p \in Reachable(c) : p[1] \in c.uses}

VARIABLE c
\* (the same set as {x \in Cases : Sensible(x)}, enumerated from the reachable names instead of filtered out of all subsets)
Shapes == [ball : BaseAlls, mid : MidForms, top : TopForms, client : ClientForms, variant : Variants, pkg : Pkgs]
WithUses(sh, u) == [ball |-> sh.ball, mid |-> sh.mid, top |-> sh.top, client |-> sh.client, variant |-> sh.variant, pkg |-> sh.pkg, uses |-> u]
Init == \E sh \in Shapes : \E u \in {v \in SUBSET Names(Reachable(sh)) : v # {} /\ Cardinality(v) <= MaxUses} :
            /\ c = WithUses(sh, u)
            /\ Sensible(c)
Next == UNCHANGED c
Spec == Init /\ [][Next]_c

\* sanity: re-exports never change an origin (what the property relies on)
OriginsAreDefinitions == \A p \in Resolve(c) : p[2].m \in {"base", "mid", "top", "extra"} /\ p[2].n # "<module>"

Dump == PrintT(<<"@@J", ToJson([case |-> [ball |-> c.ball, mid |-> c.mid, top |-> c.top, client |-> c.client, variant |-> c.variant,
                                          pkg |-> c.pkg, uses |-> SetToSeq(c.uses)],
                                 resolve |-> SetToSeq({<<p[1], p[2].m, p[2].n>> : p \in Resolve(c)}),
                                 reachable |-> SetToSeq(Names(Reachable(c))),
                                 midnames |-> SetToSeq(Names(MidNS(c))), outernames |-> SetToSeq(Names(OuterNS(c))),
                                 outer |-> OuterName(c)])>>)

-----------------------------------------------------------------------------
(* Second generator (INIT InitStd): the client's own import statements over the standard library.          *)
(* A statement binds ONE name; a later binding of the same name wins.  The catalogue pairs statements       *)
(* that bind the same name to different objects, dotted module imports whose sub-module must stay           *)
(* imported, and aliases.  [id, name bound, object it is bound to]                                          *)
StdCatalogue == {
    [id |-> "import_os_path",      bind |-> "os",          obj |-> "mod:os"],
    [id |-> "import_os_path_sep",  bind |-> "os",          obj |-> "mod:os"],                \* import os.path, but only os.sep is used
    [id |-> "import_conc_futures", bind |-> "concurrent",  obj |-> "mod:concurrent"],        \* concurrent.futures must stay imported
    [id |-> "import_xml_minidom",  bind |-> "xml",         obj |-> "mod:xml"],               \* xml.dom.minidom likewise
    [id |-> "import_xml_etree",    bind |-> "xml",         obj |-> "mod:xml"],               \* same name, same object, another sub-module
    [id |-> "from_os_path",        bind |-> "path",        obj |-> "mod:os.path"],
    [id |-> "from_sys_path",       bind |-> "path",        obj |-> "sys.path"],
    [id |-> "import_json_as_j",    bind |-> "j",           obj |-> "mod:json"],
    [id |-> "import_json",         bind |-> "json",        obj |-> "mod:json"],
    [id |-> "from_json_dumps",     bind |-> "dump",        obj |-> "json.dumps"],
    [id |-> "from_pickle_dumps",   bind |-> "dump",        obj |-> "pickle.dumps"],
    [id |-> "from_ospath_join",    bind |-> "join",        obj |-> "os.path.join"],
    [id |-> "from_shlex_join",     bind |-> "join",        obj |-> "shlex.join"],
    [id |-> "import_pickle_as_json", bind |-> "json",      obj |-> "mod:pickle"],
    \* a module three levels down binds the ROOT package: used through the root only / through the middle package only
    [id |-> "import_email_mime_root", bind |-> "email",    obj |-> "mod:email"],             \* import email.mime.text, email.message_from_string used
    [id |-> "import_email_mime_mid",  bind |-> "email",    obj |-> "mod:email"],             \* import email.mime.text, email.mime.__name__ used
    [id |-> "import_xml_dom_root",    bind |-> "xml",      obj |-> "mod:xml"] }              \* import xml.dom.minidom, xml.__name__ used
CONSTANTS MaxStd, StdPlaces      \* StdPlaces: where the statements stand: "top", "infunc" (inside the using function), "mixed",
                                 \* or one of the Conditional places below

StdSeqs == UNION {{q \in [1..n -> StdCatalogue] : \A i, j \in 1..n : i # j => q[i].id # q[j].id} : n \in 1..MaxStd}
\* the object a name is bound to after the statements ran in order
LastBinding(q, name) == LET S == {i \in 1..Len(q) : q[i].bind = name} IN q[CHOOSE i \in S : \A j \in S : j <= i].obj
\* Conditional places hold two statements of which ONE runs: "branch_if" / "branch_else" = the two branches of an if
\* statement whose test is true / false at run time, "try_ok" = try body and `except ImportError` handler.
Conditional == {"branch_if", "branch_else", "try_ok"}
StdCases == {x \in [stmts : StdSeqs, place : StdPlaces] : x.place \in Conditional => Len(x.stmts) = 2}
\* the statements that run, in order
Executed(x) == CASE x.place \in {"branch_if", "try_ok"} -> <<x.stmts[1]>>
                 [] x.place = "branch_else" -> <<x.stmts[2]>>
                 [] OTHER -> x.stmts
InitStd == c \in StdCases
DumpStd == LET ex == Executed(c) IN
           PrintT(<<"@@J", ToJson([stmts |-> [i \in 1..Len(c.stmts) |-> c.stmts[i].id], place |-> c.place,
                                    resolve |-> [i \in 1..Len(ex) |-> <<ex[i].id, LastBinding(ex, ex[i].bind)>>]])>>)
=============================================================================
