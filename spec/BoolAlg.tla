------------------------------ MODULE BoolAlg ------------------------------
(***************************************************************************)
(* Conditions over integer variables and their rewrites (C17).             *)
(*                                                                         *)
(* Terms    : [v |-> "x"] a variable, [c |-> n] an integer constant         *)
(* Formulas : [k |-> "cmp", l, op, r]  with op in {"<","<=",">",">=","==","!="}*)
(*            [k |-> "not", a]                                             *)
(*            [k |-> "and", args], [k |-> "or", args]                       *)
(*            [k |-> "chain", t1, o1, t2, o2, t3]   t1 o1 t2 o2 t3           *)
(* Eval(f, val) is the truth value of f under the valuation val             *)
(* (a function from variable names to integers).  Two conditions are         *)
(* equivalent iff they agree on every valuation of the box Box^Vars; the box *)
(* strictly contains every constant, and for formulas whose atoms compare a  *)
(* variable with a constant the truth value is constant between consecutive  *)
(* constants, so the box is complete for them (small-model argument); for    *)
(* variable-variable atoms it is a bound.                                   *)
(*                                                                         *)
(* Generator: every formula of the bounded grammar is one state; TLC writes  *)
(* the formula with its truth table (valuations in the fixed order Vals).    *)
(* The harness renders the formula, lets each rewriting rule of pyrefact     *)
(* transform it inside a small program, evaluates the result under CPython   *)
(* for every valuation and compares with the table.                         *)
(*                                                                         *)
(* Range comprehensions [x for x in range(a, b, s) if f] and sums over       *)
(* ranges are generated with their expected value, too.                     *)
(***************************************************************************)
EXTENDS Integers, Sequences, FiniteSets, TLC, SequencesExt, Json

CONSTANTS
    VarSeq,      \* the variables in a fixed order, e.g. <<"x", "y">>
    Consts,      \* constants appearing in atoms, e.g. {0, 1, 2}
    Box,         \* values of the valuations, e.g. -2..4
    Ops,
    Shapes       \* which formula shapes to enumerate: subset of {"atom","not","and2","or2","nand2","nor2","and3","or3","mixed"}

Vars == {VarSeq[i] : i \in 1..Len(VarSeq)}
V(x) == [v |-> x]
C(n) == [c |-> n]
Cmp(l, op, r) == [k |-> "cmp", l |-> l, op |-> op, r |-> r]
Not(a) == [k |-> "not", a |-> a]
And(s) == [k |-> "and", args |-> s]
Or(s) == [k |-> "or", args |-> s]

TermVal(t, val) == IF "v" \in DOMAIN t THEN val[t.v] ELSE t.c

CmpVal(op, a, b) ==
    CASE op = "<" -> a < b [] op = "<=" -> a <= b [] op = ">" -> a > b
      [] op = ">=" -> a >= b [] op = "==" -> a = b [] op = "!=" -> a # b

RECURSIVE Eval(_, _)
Eval(f, val) ==
    CASE f.k = "cmp" -> CmpVal(f.op, TermVal(f.l, val), TermVal(f.r, val))
      [] f.k = "not" -> ~Eval(f.a, val)
      [] f.k = "and" -> \A i \in 1..Len(f.args) : Eval(f.args[i], val)
      [] f.k = "or"  -> \E i \in 1..Len(f.args) : Eval(f.args[i], val)
      [] f.k = "chain" -> CmpVal(f.o1, TermVal(f.t1, val), TermVal(f.t2, val)) /\ CmpVal(f.o2, TermVal(f.t2, val), TermVal(f.t3, val))

\* valuations in a fixed order: lexicographic in the sorted variable sequence
BoxSeq == SetToSortSeq(Box, <)
RECURSIVE ValSeq(_)
ValSeq(vs) ==
    IF vs = <<>> THEN << <<>> >>
    ELSE LET rest == ValSeq(Tail(vs))
         IN FlattenSeq([i \in 1..Len(BoxSeq) |-> [j \in 1..Len(rest) |-> <<BoxSeq[i]>> \o rest[j]]])
Vals == ValSeq(VarSeq)          \* each element: sequence of values aligned with VarSeq
AsFun(s) == [x \in Vars |-> s[CHOOSE i \in 1..Len(VarSeq) : VarSeq[i] = x]]

Table(f) == [i \in 1..Len(Vals) |-> IF Eval(f, AsFun(Vals[i])) THEN 1 ELSE 0]
Equivalent(f, g) == Table(f) = Table(g)

-----------------------------------------------------------------------------
(* reference facts about negation, checked by TLC on the whole space        *)
Rev(op) == CASE op = "<" -> ">=" [] op = "<=" -> ">" [] op = ">" -> "<=" [] op = ">=" -> "<"
             [] op = "==" -> "!=" [] op = "!=" -> "=="
RECURSIVE Negate(_)
Negate(f) ==     \* negation pushed inward (De Morgan, reversed comparisons): what _negate_condition builds
    CASE f.k = "cmp" -> Cmp(f.l, Rev(f.op), f.r)
      [] f.k = "not" -> f.a
      [] f.k = "and" -> Or([i \in 1..Len(f.args) |-> Negate(f.args[i])])
      [] f.k = "or"  -> And([i \in 1..Len(f.args) |-> Negate(f.args[i])])
      [] f.k = "chain" -> Or(<<Cmp(f.t1, Rev(f.o1), f.t2), Cmp(f.t2, Rev(f.o2), f.t3)>>)     \* NOT the chain of reversed operators

-----------------------------------------------------------------------------
Terms == {V(x) : x \in Vars} \cup {C(n) : n \in Consts}
Atoms == {Cmp(l, op, r) : l \in Terms, op \in Ops, r \in Terms} \ {Cmp(l, op, r) : l \in {C(n) : n \in Consts}, op \in Ops, r \in {C(n) : n \in Consts}}
Lits == Atoms \cup {Not(a) : a \in Atoms}
Chain(t1, o1, t2, o2, t3) == [k |-> "chain", t1 |-> t1, o1 |-> o1, t2 |-> t2, o2 |-> o2, t3 |-> t3]
OrdOps == Ops \cap {"<", "<=", ">", ">="}
Chains == {Chain(C(a), o1, V(x), o2, C(b)) : a \in Consts, b \in Consts, x \in Vars, o1 \in OrdOps, o2 \in OrdOps}
          \cup {Chain(V(x), o1, V(y), o2, C(b)) : x \in Vars, y \in Vars, b \in Consts, o1 \in OrdOps, o2 \in OrdOps}

\* comparisons of two constants as operands: an operand whose value is known may only go when it cannot decide the result
ConstAtoms(d) == {Cmp(C(a), op, C(b)) : a \in Consts, op \in Ops, b \in Consts}
VarConstAtoms(d) == {Cmp(V(x), op, C(n)) : x \in Vars, op \in Ops, n \in Consts}
\* (a parameter only so that TLC does not build the sets at start-up when the shape is not asked for)
ConstOperand(d) ==
    {Or(<<a, k, b>>) : a \in VarConstAtoms(d), k \in ConstAtoms(d), b \in VarConstAtoms(d)}
    \cup {And(<<a, k, b>>) : a \in VarConstAtoms(d), k \in ConstAtoms(d), b \in VarConstAtoms(d)}
    \cup {Or(<<k, a>>) : a \in VarConstAtoms(d), k \in ConstAtoms(d)} \cup {And(<<k, a>>) : a \in VarConstAtoms(d), k \in ConstAtoms(d)}
    \cup {Or(<<a, k>>) : a \in VarConstAtoms(d), k \in ConstAtoms(d)} \cup {And(<<a, k>>) : a \in VarConstAtoms(d), k \in ConstAtoms(d)}

Space ==
    (IF "atom" \in Shapes THEN Atoms ELSE {})
    \cup (IF "not" \in Shapes THEN {Not(a) : a \in Atoms} ELSE {})
    \cup (IF "and2" \in Shapes THEN {And(<<a, b>>) : a \in Atoms, b \in Atoms} ELSE {})
    \cup (IF "or2" \in Shapes THEN {Or(<<a, b>>) : a \in Atoms, b \in Atoms} ELSE {})
    \cup (IF "nand2" \in Shapes THEN {Not(And(<<a, b>>)) : a \in Atoms, b \in Atoms} ELSE {})
    \cup (IF "nor2" \in Shapes THEN {Not(Or(<<a, b>>)) : a \in Atoms, b \in Atoms} ELSE {})
    \cup (IF "chain" \in Shapes THEN Chains \cup {Not(c) : c \in Chains} ELSE {})
    \cup (IF "chain2" \in Shapes THEN {And(<<c, a>>) : c \in Chains, a \in Atoms} \cup {Or(<<a, c>>) : c \in Chains, a \in Atoms} ELSE {})
    \cup (IF "lit2" \in Shapes THEN {And(<<a, b>>) : a \in Lits, b \in Lits} \cup {Or(<<a, b>>) : a \in Lits, b \in Lits} ELSE {})
    \cup (IF "constop" \in Shapes THEN ConstOperand(0) ELSE {})
    \cup (IF "and3" \in Shapes THEN {And(<<a, b, c>>) : a \in Atoms, b \in Atoms, c \in Atoms} ELSE {})
    \cup (IF "or3" \in Shapes THEN {Or(<<a, b, c>>) : a \in Atoms, b \in Atoms, c \in Atoms} ELSE {})
    \cup (IF "mixed" \in Shapes THEN {And(<<a, Or(<<b, c>>)>>) : a \in Atoms, b \in Atoms, c \in Atoms}
                                       \cup {Or(<<a, And(<<b, c>>)>>) : a \in Atoms, b \in Atoms, c \in Atoms} ELSE {})

\* The space is enumerated in two steps - first the leftmost atom / chain of the formula, then the formula - so that
\* TLC's workers share the work: initial states (and the invariants on them) are handled by a single thread.
RECURSIVE Left(_)
Left(g) == CASE g.k \in {"and", "or"} -> Left(g.args[1]) [] g.k = "not" -> Left(g.a) [] OTHER -> g
NoFormula == [k |-> "none"]

VARIABLES seed, f
vars == <<seed, f>>
Init == seed \in {Left(x) : x \in Space} /\ f = NoFormula
Next == \/ f = NoFormula /\ f' \in {x \in Space : Left(x) = seed} /\ UNCHANGED seed
        \/ f # NoFormula /\ UNCHANGED vars
Spec == Init /\ [][Next]_vars

NegationCorrect == f = NoFormula \/ \A i \in 1..Len(Vals) : Eval(Negate(f), AsFun(Vals[i])) = ~Eval(f, AsFun(Vals[i]))

Dump == f = NoFormula \/ PrintT(<<"@@J", ToJson([f |-> f, t |-> Table(f)])>>)
=============================================================================
