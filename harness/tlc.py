"""Thin driver around TLC (tla2tools 1.8) used by every check.

* every run happens in a scratch directory created with mkdtemp outside /repo and
  /verif and removed afterwards (spec modules are copied in);
* statistics, per-action coverage and `PrintT(<<"@@J", ToJson(..)>>)` records are parsed;
* exit status of TLC is interpreted, never swallowed: a TLC error that is not an
  invariant/property violation is a *machinery failure* (MachineryError -> exit 2).
"""
from __future__ import annotations

import json
import os
import re
import shutil
import subprocess
import tempfile
import time
from dataclasses import dataclass, field
from pathlib import Path
from typing import Dict, Iterable, List, Optional, Sequence

VERIF = Path(__file__).resolve().parent.parent
SPEC_DIR = VERIF / "spec"
TLA_JAR = "/opt/veriftools/tla/tla2tools.jar"
TLA_DEPS = "/opt/veriftools/tla/CommunityModules-deps.jar"


class MachineryError(RuntimeError):
    """The verification machinery itself failed (exit code 2, never a VIOLATION)."""


@dataclass
class TLCResult:
    ok: bool                      # TLC finished without reporting any error
    violated: Optional[str]       # name of violated invariant / property, if any
    generated: int = 0
    distinct: int = 0
    depth: int = 0
    wall_s: float = 0.0
    records: List[dict] = field(default_factory=list)   # decoded @@J records
    coverage: Dict[str, int] = field(default_factory=dict)  # action -> distinct states (from -coverage)
    stdout: str = ""
    cmd: str = ""
    error_trace: str = ""


_J_RE = re.compile(r'<<"@@J", "((?:[^"\\]|\\.)*)">>')
_STATS_RE = re.compile(r"(\d+) states generated, (\d+) distinct states found")
_DEPTH_RE = re.compile(r"The depth of the complete state graph search is (\d+)")
_SIMSTAT_RE = re.compile(r"(\d+) states checked")
_COV_RE = re.compile(r"^<(\w+) line \d+, col \d+ to line \d+, col \d+ of module (\w+)>: (\d+):(\d+)", re.M)
_VIOL_RE = re.compile(r"Error: Invariant (\S+) is violated|Error: Action property (\S+) is violated|"
                      r"Error: Temporal properties were violated|Error: Deadlock reached")


def decode_records(stdout: str) -> List[dict]:
    out = []
    for m in _J_RE.finditer(stdout):
        inner = m.group(1)
        try:
            s = json.loads('"' + inner + '"')
            out.append(json.loads(s))
        except Exception as exc:  # pragma: no cover - diagnostics only
            raise MachineryError(f"cannot decode TLC record {inner[:200]!r}: {exc}")
    return out


def scratch_dir(prefix: str = "verif-tlc-") -> str:
    base = os.environ.get("VERIF_SCRATCH") or tempfile.gettempdir()
    return tempfile.mkdtemp(prefix=prefix, dir=base)


def run_tlc(
    module: str,
    cfg_text: str,
    *,
    extra_modules: Sequence[str] = (),
    generated_files: Optional[Dict[str, str]] = None,
    workers: int | str = "auto",
    timeout_s: int = 1800,
    simulate: Optional[str] = None,     # e.g. "num=1000" -> -simulate num=1000
    depth: Optional[int] = None,
    seed: Optional[int] = None,
    coverage: bool = False,
    env_extra: Optional[Dict[str, str]] = None,
    deque: bool = False,
    heap_gb: int = 8,
    keep_stdout: bool = True,
    allow_violation: bool = True,
    postprocess=None,
) -> TLCResult:
    """Run TLC on spec/<module>.tla with the given configuration text."""
    work = scratch_dir()
    try:
        # copy every spec module (they are small) so EXTENDS/INSTANCE resolve
        for p in SPEC_DIR.glob("*.tla"):
            shutil.copy(p, work)
        for name, text in (generated_files or {}).items():
            Path(work, name).write_text(text)
        Path(work, module + ".cfg").write_text(cfg_text)
        nworkers = str(workers if workers != "auto" else min(16, os.cpu_count() or 4))
        java_opts = [f"-Xmx{heap_gb}g", "-XX:+UseParallelGC"]
        if deque:
            java_opts.append("-Dtlc2.tool.queue.IStateQueue=StateDeque")
        cmd = ["java", *java_opts, "-cp", f"{TLA_JAR}:{TLA_DEPS}", "tlc2.TLC",
               "-workers", nworkers, "-metadir", os.path.join(work, "meta"),
               "-noGenerateSpecTE", "-config", module + ".cfg"]
        if coverage:
            cmd += ["-coverage", "1"]
        if simulate is not None:
            cmd += ["-simulate", simulate]
        if depth is not None:
            cmd += ["-depth", str(depth)]
        if seed is not None:
            cmd += ["-seed", str(seed)]
        cmd.append(module + ".tla")
        env = dict(os.environ)
        env.pop("JAVA_TOOL_OPTIONS", None)
        if env_extra:
            env.update(env_extra)
        t0 = time.time()
        try:
            proc = subprocess.run(cmd, cwd=work, env=env, capture_output=True, text=True,
                                  timeout=timeout_s)
        except subprocess.TimeoutExpired as exc:
            if simulate is not None:
                # simulation is open ended: a timeout is the normal way to stop it
                out = exc.stdout.decode() if isinstance(exc.stdout, bytes) else (exc.stdout or "")
                proc = subprocess.CompletedProcess(cmd, 0, out, "")
            else:
                raise MachineryError(f"TLC timed out after {timeout_s}s on {module}")
        wall = time.time() - t0
        out = proc.stdout
        res = TLCResult(ok=False, violated=None, wall_s=wall, cmd=" ".join(cmd[5:]))
        m = None
        for m in _STATS_RE.finditer(out):
            pass
        if m:
            res.generated, res.distinct = int(m.group(1)), int(m.group(2))
        else:
            m2 = None
            for m2 in _SIMSTAT_RE.finditer(out):
                pass
            if m2:
                res.generated = res.distinct = int(m2.group(1))
        m = _DEPTH_RE.search(out)
        if m:
            res.depth = int(m.group(1))
        if coverage:
            for cm in _COV_RE.finditer(out):
                name, mod, tot, dist = cm.group(1), cm.group(2), int(cm.group(3)), int(cm.group(4))
                res.coverage[name] = max(res.coverage.get(name, 0), tot)
        res.records = decode_records(out)
        if postprocess is not None:
            postprocess(work, res)
        viol = _VIOL_RE.search(out)
        if viol:
            res.violated = viol.group(1) or viol.group(2) or viol.group(0)
            idx = out.find("Error:")
            res.error_trace = out[idx: idx + 6000]
            if not allow_violation:
                raise MachineryError(f"TLC reported {res.violated} on {module}:\n{res.error_trace}")
        elif "Error:" in out or proc.returncode not in (0,):
            idx = out.find("Error:")
            raise MachineryError(
                f"TLC failed on {module} (rc={proc.returncode}):\n{out[idx if idx >= 0 else -3000:][:6000]}\n{proc.stderr[-2000:]}")
        else:
            res.ok = True
        res.stdout = out if keep_stdout else ""
        return res
    finally:
        shutil.rmtree(work, ignore_errors=True)


def sany_check(modules: Iterable[str]) -> None:
    """Parse modules with SANY (used by setup_cmd)."""
    work = scratch_dir("verif-sany-")
    try:
        for p in SPEC_DIR.glob("*.tla"):
            shutil.copy(p, work)
        for mod in modules:
            proc = subprocess.run(["java", "-cp", f"{TLA_JAR}:{TLA_DEPS}", "tla2sany.SANY", mod + ".tla"],
                                  cwd=work, capture_output=True, text=True, timeout=300)
            if proc.returncode != 0 or "error" in proc.stdout.lower().replace("errors: 0", ""):
                if "Semantic errors" in proc.stdout or "Parse Error" in proc.stdout or proc.returncode != 0:
                    raise MachineryError(f"SANY rejected {mod}:\n{proc.stdout[-3000:]}")
    finally:
        shutil.rmtree(work, ignore_errors=True)


def tla_str(s: str) -> str:
    return '"' + s.replace("\\", "\\\\").replace('"', '\\"') + '"'


def tla_value(v) -> str:
    """Render a Python value as a TLA+ expression (ints, bools, strs, lists->tuples, sets, dicts->records)."""
    if isinstance(v, bool):
        return "TRUE" if v else "FALSE"
    if isinstance(v, int):
        return str(v)
    if isinstance(v, str):
        return tla_str(v)
    if isinstance(v, (list, tuple)):
        return "<<" + ", ".join(tla_value(x) for x in v) + ">>"
    if isinstance(v, (set, frozenset)):
        return "{" + ", ".join(sorted(tla_value(x) for x in v)) + "}"
    if isinstance(v, dict):
        if not v:
            return "<<>>"
        return "[" + ", ".join(f"{k} |-> {tla_value(x)}" for k, x in v.items()) + "]"
    raise TypeError(f"cannot render {type(v)} as TLA+ value")
