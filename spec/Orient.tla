------------------------------- MODULE Orient -------------------------------
(***************************************************************************)
(* The orientation heuristic of swap_if_else (fixes._orelse_preferred_as_   *)
(* body): given the two branches of an if/else, should they be swapped (and  *)
(* the condition negated)?  If the heuristic preferred the swap in BOTH      *)
(* orientations of some if/else, repeated formatting would flip it for ever  *)
(* (C09).  A branch is abstracted to the features the code looks at:         *)
(*   pass : every statement is `pass`                                        *)
(*   blk  : some statement is blocking (return / raise / continue / break)    *)
(*   br   : 1 + number of if statements inside                               *)
(*   rcb  : the FIRST statement is a return / continue / break               *)
(*   long : more than 3 statements                                           *)
(***************************************************************************)
EXTENDS Integers, TLC, Json

CONSTANT MaxBranches

Branch == [pass : BOOLEAN, blk : BOOLEAN, br : 1..MaxBranches, rcb : BOOLEAN, long : BOOLEAN]

\* what can be a branch at all
Consistent(b) ==
    /\ (b.pass => ~b.blk /\ b.br = 1 /\ ~b.rcb)
    /\ (b.rcb => b.blk)

\* after delete_unreachable_code nothing follows a blocking first statement
Settled(b) == b.rcb => (~b.long /\ b.br = 1)

VARIABLES body, orelse
vars == <<body, orelse>>

Init == body \in Branch /\ orelse \in Branch /\ Consistent(body) /\ Consistent(orelse)
Next == UNCHANGED vars
Spec == Init /\ [][Next]_vars

\* _orelse_preferred_as_body, clause by clause
Pref(b, o) ==
    IF b.pass THEN TRUE
    ELSE IF o.pass THEN FALSE
    ELSE IF b.blk /\ ~o.blk THEN FALSE
    ELSE IF o.blk /\ ~b.blk THEN TRUE
    ELSE IF o.blk /\ b.blk /\ b.br >= 2 * o.br THEN TRUE
    ELSE o.rcb /\ b.long

\* the guards of _swap_explicit_if_else before the heuristic is consulted
Guarded(b, o) == b.blk /\ ~o.blk          \* "redundant else": left to another rule
\* what the swap produces: the branches change places; a pass-only body disappears (no else is left)
Swaps(b, o) == ~Guarded(b, o) /\ Pref(b, o)
SwapsBack(b, o) == ~b.pass /\ Swaps(o, b)  \* after swapping (b, o) the statement is (o, b), with an else iff b is not pass

\* C09 on settled code: the heuristic never prefers both orientations
Antisymmetric == (Settled(body) /\ Settled(orelse)) => ~(Swaps(body, orelse) /\ SwapsBack(body, orelse))

\* NOT a theorem on unsettled code (two long branches that both START with a return): TLC's counterexample
\* shows why dead-code removal must run before the orientation rule
AntisymmetricUnsettled == ~(Swaps(body, orelse) /\ SwapsBack(body, orelse))

Dump == PrintT(<<"@@J", ToJson([body |-> body, orelse |-> orelse, pref |-> Pref(body, orelse),
                                settled |-> (Settled(body) /\ Settled(orelse))])>>)
=============================================================================
