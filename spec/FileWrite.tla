------------------------------ MODULE FileWrite ------------------------------
(***************************************************************************)
(* main.format_file: read, format, and the write guard                     *)
(*     if source != initial_content and                                    *)
(*        (is_valid(source) or not is_valid(initial_content)): write       *)
(* Contents are abstract: a file content is [valid, id]; the formatter is   *)
(* an arbitrary function of the content (including one that breaks the      *)
(* syntax, which a healthy pipeline never does - the guard must hold        *)
(* anyway).  C03: a valid file is never replaced by an invalid one; a file  *)
(* whose formatted text equals its content is not rewritten.                *)
(***************************************************************************)
EXTENDS Integers, TLC, Json

Contents == [valid : BOOLEAN, id : 1..2]

VARIABLES pc, disk, formatted, written, ret
vars == <<pc, disk, formatted, written, ret>>

Init == /\ pc = "read" /\ disk \in Contents /\ formatted \in Contents
        /\ written = FALSE /\ ret = FALSE

\* read + format_code (any result)
Format == /\ pc = "read" /\ pc' = "guard"
          /\ UNCHANGED <<disk, formatted, written, ret>>

Guard == /\ pc = "guard"
         /\ IF formatted # disk /\ (formatted.valid \/ ~disk.valid)
              THEN disk' = formatted /\ written' = TRUE /\ ret' = TRUE
              ELSE UNCHANGED <<disk, written, ret>>
         /\ pc' = "done"
         /\ UNCHANGED formatted

Next == Format \/ Guard
Spec == Init /\ [][Next]_vars

NeverBreakValid == [][disk.valid => disk'.valid]_vars
NoWriteIfEqual == [][(pc = "guard" /\ formatted = disk) => (written' = FALSE /\ disk' = disk)]_vars
ReturnTellsWritten == pc = "done" => (ret = written)

Dump == pc = "done" => PrintT(<<"@@J", ToJson([formatted |-> formatted, disk |-> disk, written |-> written, ret |-> ret])>>)
=============================================================================
