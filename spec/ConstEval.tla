------------------------------ MODULE ConstEval ------------------------------
(***************************************************************************)
(* Compile-time constant evaluation (core.literal_value) against Python's   *)
(* own semantics (C15).                                                     *)
(*                                                                         *)
(* Values                                                                  *)
(*   [iv |-> n] int, [bv |-> b] bool, [nv |-> 0] None, [sv |-> s] str (a     *)
(*   sequence of character codes), [tv |-> s] tuple, [lv |-> s] list,        *)
(*   [rn |-> n, rd |-> d] float, kept as an exact normalised rational.       *)
(* Expressions                                                             *)
(*   [k |-> "lit", v], [k |-> "un", op, a], [k |-> "bin", op, a, b],         *)
(*   [k |-> "cmp", ops, args], [k |-> "bool", op, args], [k |-> "ife", c,a,b]*)
(*   [k |-> "call", f, args], [k |-> "meth", recv, m, args]                  *)
(* Outcomes                                                                *)
(*   [r |-> "val", v]    evaluation yields v                                *)
(*   [r |-> "raise", e]  evaluation raises ("ValueError" or "other")         *)
(*   [r |-> "effect"]    evaluation has an observable effect (print, exit,   *)
(*                       a call of an unknown function)                      *)
(*   [r |-> "oom"]       outside this model (CPython is the oracle then)      *)
(*   [r |-> "excluded"]  identity test between non-singleton literals: the    *)
(*                       statement leaves it out                             *)
(*   [r |-> "unknown"]   (Impl only) literal_value answers ValueError         *)
(*                                                                         *)
(* Eval(e, "py")   = Python.   Eval(e, "impl") = literal_value as written     *)
(* (after repair 1011faa): the same operators; any exception while           *)
(* evaluating is reported as "unknown"; only side-effect-free builtins are    *)
(* evaluated (everything else makes the whole expression "unknown"); a few    *)
(* forms (conditional expressions, ~x, -<non literal>) are "unknown".         *)
(***************************************************************************)
EXTENDS Integers, Sequences, FiniteSets, TLC, SequencesExt, Json

I(n) == [iv |-> n]
B(b) == [bv |-> b]
None == [nv |-> 0]
S(s) == [sv |-> s]
T(s) == [tv |-> s]
L(s) == [lv |-> s]

IsInt(v) == DOMAIN v = {"iv"}
IsBool(v) == DOMAIN v = {"bv"}
IsNone(v) == DOMAIN v = {"nv"}
IsStr(v) == DOMAIN v = {"sv"}
IsTup(v) == DOMAIN v = {"tv"}
IsList(v) == DOMAIN v = {"lv"}
IsRat(v) == DOMAIN v = {"rn", "rd"}
IsIntLike(v) == IsInt(v) \/ IsBool(v)
IsNum(v) == IsIntLike(v) \/ IsRat(v)
IsSeq(v) == IsStr(v) \/ IsTup(v) \/ IsList(v)
IntOf(v) == IF IsInt(v) THEN v.iv ELSE IF v.bv THEN 1 ELSE 0
Items(v) == IF IsStr(v) THEN v.sv ELSE IF IsTup(v) THEN v.tv ELSE v.lv
SameSeqType(a, b) == (IsStr(a) /\ IsStr(b)) \/ (IsTup(a) /\ IsTup(b)) \/ (IsList(a) /\ IsList(b))
MkSeq(like, s) == IF IsStr(like) THEN S(s) ELSE IF IsTup(like) THEN T(s) ELSE L(s)

Abs(n) == IF n < 0 THEN -n ELSE n
RECURSIVE GCD(_, _)
GCD(a, b) == IF b = 0 THEN a ELSE GCD(b, a % b)
Rat(n, d) ==   \* d # 0
    LET s == IF d < 0 THEN -1 ELSE 1
        g == GCD(Abs(n), Abs(d))
    IN [rn |-> (s * n) \div g, rd |-> (s * d) \div g]
NumN(v) == IF IsRat(v) THEN v.rn ELSE IntOf(v)
NumD(v) == IF IsRat(v) THEN v.rd ELSE 1

Val(v) == [r |-> "val", v |-> v]
Raise(e) == [r |-> "raise", e |-> e]
Effect == [r |-> "effect"]
OOM == [r |-> "oom"]
Excluded == [r |-> "excluded"]   \* identity of non-singleton literals: outside the claim
Unknown == [r |-> "unknown"]
IsVal(o) == o.r = "val"

Truthy(v) ==
    IF IsInt(v) THEN v.iv # 0
    ELSE IF IsBool(v) THEN v.bv
    ELSE IF IsNone(v) THEN FALSE
    ELSE IF IsRat(v) THEN v.rn # 0
    ELSE Items(v) # <<>>

\* Python floor division and modulo on integers (b # 0)
FloorDiv(a, b) == IF b > 0 THEN a \div b ELSE (-a) \div (-b)
PyMod(a, b) == a - b * FloorDiv(a, b)
RECURSIVE IPow(_, _)
IPow(a, n) == IF n = 0 THEN 1 ELSE a * IPow(a, n - 1)

RECURSIVE Repeat(_, _)
Repeat(s, n) == IF n <= 0 THEN <<>> ELSE s \o Repeat(s, n - 1)

-----------------------------------------------------------------------------
(* equality and ordering of values                                         *)
RECURSIVE PyEq(_, _)
PyEq(a, b) ==
    IF IsNum(a) /\ IsNum(b) THEN NumN(a) * NumD(b) = NumN(b) * NumD(a)
    ELSE IF SameSeqType(a, b)
        THEN /\ Len(Items(a)) = Len(Items(b))
             /\ \A i \in 1..Len(Items(a)) :
                   IF IsStr(a) THEN Items(a)[i] = Items(b)[i] ELSE PyEq(Items(a)[i], Items(b)[i])
    ELSE IF IsNone(a) /\ IsNone(b) THEN TRUE
    ELSE FALSE

\* "lt" on two values: "T", "F" or "E" (TypeError); elements of tuples/lists are numbers here
RECURSIVE SeqLt(_, _, _)
SeqLt(x, y, isstr) ==
    IF x = <<>> THEN (IF y = <<>> THEN "F" ELSE "T")
    ELSE IF y = <<>> THEN "F"
    ELSE LET hx == Head(x)
             hy == Head(y)
         IN IF isstr
              THEN IF hx < hy THEN "T" ELSE IF hx > hy THEN "F" ELSE SeqLt(Tail(x), Tail(y), isstr)
            ELSE IF ~(IsNum(hx) /\ IsNum(hy)) THEN
                    (IF PyEq(hx, hy) THEN SeqLt(Tail(x), Tail(y), isstr) ELSE "O")
            ELSE IF NumN(hx) * NumD(hy) < NumN(hy) * NumD(hx) THEN "T"
            ELSE IF NumN(hx) * NumD(hy) > NumN(hy) * NumD(hx) THEN "F"
            ELSE SeqLt(Tail(x), Tail(y), isstr)

Lt(a, b) ==
    IF IsNum(a) /\ IsNum(b) THEN (IF NumN(a) * NumD(b) < NumN(b) * NumD(a) THEN "T" ELSE "F")
    ELSE IF SameSeqType(a, b) THEN SeqLt(Items(a), Items(b), IsStr(a))
    ELSE "E"

IsSingleton(v) == IsNone(v) \/ IsBool(v)

\* one comparison a op b: an outcome
Cmp(op, a, b) ==
    CASE op = "==" -> Val(B(PyEq(a, b)))
      [] op = "!=" -> Val(B(~PyEq(a, b)))
      [] op = "<"  -> LET r == Lt(a, b) IN IF r = "E" THEN Raise("other") ELSE IF r = "O" THEN OOM ELSE Val(B(r = "T"))
      [] op = ">"  -> LET r == Lt(b, a) IN IF r = "E" THEN Raise("other") ELSE IF r = "O" THEN OOM ELSE Val(B(r = "T"))
      [] op = "<=" -> LET r == Lt(b, a) IN IF r = "E" THEN Raise("other") ELSE IF r = "O" THEN OOM ELSE Val(B(r = "F"))
      [] op = ">=" -> LET r == Lt(a, b) IN IF r = "E" THEN Raise("other") ELSE IF r = "O" THEN OOM ELSE Val(B(r = "F"))
      [] op = "is" -> IF IsSingleton(a) \/ IsSingleton(b) THEN Val(B(a = b)) ELSE Excluded
      [] op = "is not" -> IF IsSingleton(a) \/ IsSingleton(b) THEN Val(B(a # b)) ELSE Excluded
      [] op = "in" ->
            IF IsStr(b) THEN (IF IsStr(a) THEN
                                 Val(B(\E i \in 0..(Len(b.sv) - Len(a.sv)) : SubSeq(b.sv, i + 1, i + Len(a.sv)) = a.sv))
                              ELSE Raise("other"))
            ELSE IF IsTup(b) \/ IsList(b) THEN Val(B(\E i \in 1..Len(Items(b)) : PyEq(Items(b)[i], a)))
            ELSE Raise("other")
      [] op = "not in" ->
            IF IsStr(b) THEN (IF IsStr(a) THEN
                                 Val(B(~\E i \in 0..(Len(b.sv) - Len(a.sv)) : SubSeq(b.sv, i + 1, i + Len(a.sv)) = a.sv))
                              ELSE Raise("other"))
            ELSE IF IsTup(b) \/ IsList(b) THEN Val(B(~\E i \in 1..Len(Items(b)) : PyEq(Items(b)[i], a)))
            ELSE Raise("other")

-----------------------------------------------------------------------------
(* arithmetic                                                              *)
RatVal(n, d) == Val(Rat(n, d))

BinOp(op, a, b) ==
    CASE op = "+" ->
            IF IsIntLike(a) /\ IsIntLike(b) THEN Val(I(IntOf(a) + IntOf(b)))
            ELSE IF IsNum(a) /\ IsNum(b) THEN RatVal(NumN(a) * NumD(b) + NumN(b) * NumD(a), NumD(a) * NumD(b))
            ELSE IF SameSeqType(a, b) THEN Val(MkSeq(a, Items(a) \o Items(b)))
            ELSE Raise("other")
      [] op = "-" ->
            IF IsIntLike(a) /\ IsIntLike(b) THEN Val(I(IntOf(a) - IntOf(b)))
            ELSE IF IsNum(a) /\ IsNum(b) THEN RatVal(NumN(a) * NumD(b) - NumN(b) * NumD(a), NumD(a) * NumD(b))
            ELSE Raise("other")
      [] op = "*" ->
            IF IsIntLike(a) /\ IsIntLike(b) THEN Val(I(IntOf(a) * IntOf(b)))
            ELSE IF IsNum(a) /\ IsNum(b) THEN RatVal(NumN(a) * NumN(b), NumD(a) * NumD(b))
            ELSE IF IsSeq(a) /\ IsIntLike(b) THEN Val(MkSeq(a, Repeat(Items(a), IntOf(b))))
            ELSE IF IsIntLike(a) /\ IsSeq(b) THEN Val(MkSeq(b, Repeat(Items(b), IntOf(a))))
            ELSE Raise("other")
      [] op = "/" ->
            IF IsNum(a) /\ IsNum(b)
              THEN IF NumN(b) = 0 THEN Raise("other") ELSE RatVal(NumN(a) * NumD(b), NumD(a) * NumN(b))
              ELSE Raise("other")
      [] op = "//" ->
            IF IsIntLike(a) /\ IsIntLike(b)
              THEN IF IntOf(b) = 0 THEN Raise("other") ELSE Val(I(FloorDiv(IntOf(a), IntOf(b))))
            ELSE IF IsNum(a) /\ IsNum(b) THEN (IF NumN(b) = 0 THEN Raise("other") ELSE OOM)
            ELSE Raise("other")
      [] op = "%" ->
            IF IsIntLike(a) /\ IsIntLike(b)
              THEN IF IntOf(b) = 0 THEN Raise("other") ELSE Val(I(PyMod(IntOf(a), IntOf(b))))
            ELSE IF IsNum(a) /\ IsNum(b) THEN (IF NumN(b) = 0 THEN Raise("other") ELSE OOM)
            ELSE IF IsStr(a) THEN OOM          \* printf-style formatting
            ELSE Raise("other")
      [] op = "**" ->
            IF IsIntLike(a) /\ IsIntLike(b)
              THEN IF IntOf(b) >= 0 THEN (IF IntOf(b) > 8 \/ Abs(IntOf(a)) > 8 THEN OOM ELSE Val(I(IPow(IntOf(a), IntOf(b)))))
                   ELSE IF IntOf(a) = 0 THEN Raise("other")
                   ELSE IF IntOf(b) < -8 \/ Abs(IntOf(a)) > 8 THEN OOM
                   ELSE RatVal(1, IPow(IntOf(a), -IntOf(b)))
            ELSE IF IsNum(a) /\ IsNum(b) THEN OOM
            ELSE Raise("other")

UnOp(op, a) ==
    CASE op = "not" -> Val(B(~Truthy(a)))
      [] op = "neg" -> IF IsIntLike(a) THEN Val(I(-IntOf(a)))
                       ELSE IF IsRat(a) THEN RatVal(-a.rn, a.rd) ELSE Raise("other")
      [] op = "pos" -> IF IsIntLike(a) THEN Val(I(IntOf(a)))
                       ELSE IF IsRat(a) THEN Val(a) ELSE Raise("other")
      [] op = "inv" -> IF IsIntLike(a) THEN Val(I(-IntOf(a) - 1)) ELSE Raise("other")

-----------------------------------------------------------------------------
(* builtin calls and methods on constant receivers                         *)
AllNum(s) == \A i \in 1..Len(s) : IsNum(s[i])
RECURSIVE SumInts(_)
SumInts(s) == IF s = <<>> THEN 0 ELSE IntOf(Head(s)) + SumInts(Tail(s))
AllIntLike(s) == \A i \in 1..Len(s) : IsIntLike(s[i])

Builtin(f, args) ==
    CASE f = "len" ->
            IF Len(args) # 1 THEN Raise("other")
            ELSE IF IsSeq(args[1]) THEN Val(I(Len(Items(args[1])))) ELSE Raise("other")
      [] f = "abs" ->
            IF Len(args) # 1 THEN Raise("other")
            ELSE IF IsIntLike(args[1]) THEN Val(I(Abs(IntOf(args[1]))))
            ELSE IF IsRat(args[1]) THEN RatVal(Abs(args[1].rn), args[1].rd)
            ELSE Raise("other")
      [] f = "bool" ->
            IF Len(args) = 0 THEN Val(B(FALSE))
            ELSE IF Len(args) = 1 THEN Val(B(Truthy(args[1]))) ELSE Raise("other")
      [] f = "int" ->
            IF Len(args) = 0 THEN Val(I(0))
            ELSE IF Len(args) # 1 THEN OOM
            ELSE IF IsIntLike(args[1]) THEN Val(I(IntOf(args[1])))
            ELSE IF IsRat(args[1]) THEN OOM
            ELSE IF IsStr(args[1]) THEN
                   (IF args[1].sv # <<>> /\ \A i \in 1..Len(args[1].sv) : args[1].sv[i] \in 48..57
                      THEN OOM ELSE IF \E i \in 1..Len(args[1].sv) : args[1].sv[i] \in {32, 43, 45, 95} \cup 48..57
                      THEN OOM ELSE Raise("ValueError"))
            ELSE Raise("other")
      [] f = "sum" ->
            IF Len(args) # 1 THEN OOM
            ELSE IF IsSeq(args[1]) /\ Items(args[1]) = <<>> THEN Val(I(0))
            ELSE IF (IsTup(args[1]) \/ IsList(args[1]))
               THEN (IF AllIntLike(Items(args[1])) THEN Val(I(SumInts(Items(args[1]))))
                     ELSE IF AllNum(Items(args[1])) THEN OOM ELSE Raise("other"))
            ELSE Raise("other")
      [] f = "min" ->
            IF Len(args) = 2 /\ IsNum(args[1]) /\ IsNum(args[2])
               THEN Val(IF Lt(args[2], args[1]) = "T" THEN args[2] ELSE args[1])
            ELSE IF Len(args) = 2 /\ Lt(args[1], args[2]) = "E" THEN Raise("other")
            ELSE OOM
      [] f = "max" ->
            IF Len(args) = 2 /\ IsNum(args[1]) /\ IsNum(args[2])
               THEN Val(IF Lt(args[1], args[2]) = "T" THEN args[2] ELSE args[1])
            ELSE IF Len(args) = 2 /\ Lt(args[1], args[2]) = "E" THEN Raise("other")
            ELSE OOM
      [] OTHER -> OOM

Method(recv, m, args) ==
    CASE m = "upper" -> IF IsStr(recv) /\ args = <<>>
                          THEN Val(S([i \in 1..Len(recv.sv) |->
                                        IF recv.sv[i] \in 97..122 THEN recv.sv[i] - 32 ELSE recv.sv[i]]))
                          ELSE Raise("other")
      [] m = "join" -> IF IsStr(recv) /\ Len(args) = 1 /\ (IsTup(args[1]) \/ IsList(args[1]))
                          THEN IF \A i \in 1..Len(Items(args[1])) : IsStr(Items(args[1])[i])
                                 THEN Val(S(FlattenSeq([i \in 1..(2 * Len(Items(args[1])) - 1) |->
                                        IF i % 2 = 1 THEN Items(args[1])[(i + 1) \div 2].sv ELSE recv.sv])))
                                 ELSE Raise("other")
                          ELSE IF IsStr(recv) /\ Len(args) = 1 /\ IsStr(args[1]) THEN OOM
                          ELSE Raise("other")
      [] OTHER -> Raise("other")     \* unknown attribute: AttributeError

EffectCalls == {"print", "exit", "input", "f"}   \* "f" = a user function

-----------------------------------------------------------------------------
(* the evaluator, parameterised by mode                                    *)
ContainsUserCall(e) ==
    LET RECURSIVE C(_)
        C(x) == CASE x.k = "lit" -> FALSE
                  [] x.k = "un" -> C(x.a)
                  [] x.k = "bin" -> C(x.a) \/ C(x.b)
                  [] x.k = "cmp" -> \E i \in 1..Len(x.args) : C(x.args[i])
                  [] x.k = "bool" -> \E i \in 1..Len(x.args) : C(x.args[i])
                  [] x.k = "ife" -> C(x.c) \/ C(x.a) \/ C(x.b)
                  [] x.k = "call" -> x.f \in EffectCalls \/ \E i \in 1..Len(x.args) : C(x.args[i])
                  [] x.k = "meth" -> \E i \in 1..Len(x.args) : C(x.args[i])
    IN C(e)

\* ast.literal_eval accepts only literal displays; +/- only directly on a number literal
IsPlainNumberLit(e) == e.k = "lit" /\ (IsInt(e.v) /\ e.v.iv >= 0)

RECURSIVE Eval(_, _)
RECURSIVE EvalArgs(_, _)
\* evaluate a sequence of expressions left to right: a sequence of values, or the first non-value outcome
EvalArgs(es, mode) ==
    IF es = <<>> THEN [r |-> "vals", vs |-> <<>>]
    ELSE LET h == Eval(Head(es), mode) IN
         IF ~IsVal(h) THEN h
         ELSE LET t == EvalArgs(Tail(es), mode) IN
              IF t.r # "vals" THEN t ELSE [r |-> "vals", vs |-> <<h.v>> \o t.vs]

RECURSIVE EvalChain(_, _, _, _)
\* a op1 b op2 c ...: left value lv already known
EvalChain(lv, ops, rest, mode) ==
    IF ops = <<>> THEN Val(B(TRUE))
    ELSE LET rv == Eval(Head(rest), mode) IN
         IF ~IsVal(rv) THEN rv
         ELSE LET c == Cmp(Head(ops), lv, rv.v) IN
              IF ~IsVal(c) THEN c
              ELSE IF ~c.v.bv THEN c
              ELSE IF Len(ops) = 1 THEN c
              ELSE EvalChain(rv.v, Tail(ops), Tail(rest), mode)

RECURSIVE EvalBool(_, _, _)
EvalBool(op, es, mode) ==
    LET h == Eval(Head(es), mode) IN
    IF ~IsVal(h) THEN h
    ELSE IF Len(es) = 1 THEN h
    ELSE IF op = "and" THEN (IF Truthy(h.v) THEN EvalBool(op, Tail(es), mode) ELSE h)
    ELSE (IF Truthy(h.v) THEN h ELSE EvalBool(op, Tail(es), mode))

Escapes(o, mode) ==   \* how the implementation sees a raising sub-evaluation: always "unknown"
    IF mode = "impl" /\ o.r = "raise" THEN Unknown ELSE o

Eval(e, mode) ==
    CASE e.k = "lit" -> Val(e.v)
      [] e.k = "un" ->
            IF mode = "impl" /\ e.op # "not"
              THEN \* falls through to ast.literal_eval
                   IF e.op \in {"neg", "pos"} /\ IsPlainNumberLit(e.a)
                     THEN UnOp(e.op, e.a.v) ELSE Unknown
            ELSE LET a == Eval(e.a, mode) IN
                 IF ~IsVal(a) THEN a ELSE Escapes(UnOp(e.op, a.v), mode)
      [] e.k = "bin" ->
            LET a == Eval(e.a, mode) IN
            IF ~IsVal(a) THEN a
            ELSE LET b == Eval(e.b, mode) IN
                 IF ~IsVal(b) THEN b ELSE Escapes(BinOp(e.op, a.v, b.v), mode)
      [] e.k = "cmp" ->
            LET a == Eval(e.args[1], mode) IN
            IF ~IsVal(a) THEN a ELSE Escapes(EvalChain(a.v, e.ops, Tail(e.args), mode), mode)
      [] e.k = "bool" -> EvalBool(e.op, e.args, mode)
      [] e.k = "ife" ->
            IF mode = "impl" THEN Unknown
            ELSE LET c == Eval(e.c, mode) IN
                 IF ~IsVal(c) THEN c ELSE IF Truthy(c.v) THEN Eval(e.a, mode) ELSE Eval(e.b, mode)
      [] e.k = "call" ->
            IF e.f = "f" /\ mode = "impl" THEN Unknown
            ELSE LET as == EvalArgs(e.args, mode) IN
                 IF as.r # "vals" THEN as
                 ELSE IF e.f \in EffectCalls THEN Effect
                 ELSE Escapes(Builtin(e.f, as.vs), mode)
      [] e.k = "meth" ->
            LET as == EvalArgs(e.args, mode) IN
            IF as.r # "vals" THEN as ELSE Escapes(Method(e.recv, e.m, as.vs), mode)

PyEval(e) == Eval(e, "py")

\* has_side_effect(node, SAFE_CALLABLES): a call of a name that is not a pure builtin anywhere, or a call whose
\* subtree contains a method call of another attribute (only the call's own attribute is whitelisted)
MethAttrs(e) ==
    LET RECURSIVE M(_)
        M(x) == CASE x.k = "lit" -> {}
                  [] x.k = "un" -> M(x.a)
                  [] x.k = "bin" -> M(x.a) \cup M(x.b)
                  [] x.k \in {"cmp", "bool", "call"} -> UNION {M(x.args[i]) : i \in 1..Len(x.args)}
                  [] x.k = "ife" -> M(x.c) \cup M(x.a) \cup M(x.b)
                  [] x.k = "meth" -> {x.m} \cup UNION {M(x.args[i]) : i \in 1..Len(x.args)}
    IN M(e)
ForeignMeth(e) ==
    LET RECURSIVE F(_)
        F(x) == CASE x.k = "lit" -> FALSE
                  [] x.k = "un" -> F(x.a)
                  [] x.k = "bin" -> F(x.a) \/ F(x.b)
                  [] x.k \in {"cmp", "bool"} -> \E i \in 1..Len(x.args) : F(x.args[i])
                  [] x.k = "ife" -> F(x.c) \/ F(x.a) \/ F(x.b)
                  [] x.k = "call" -> MethAttrs(x) # {} \/ \E i \in 1..Len(x.args) : F(x.args[i])
                  [] x.k = "meth" -> (MethAttrs(x) \ {x.m}) # {} \/ \E i \in 1..Len(x.args) : F(x.args[i])
    IN F(e)
ImplSideEffect(e) == ContainsUserCall(e) \/ ForeignMeth(e)
ImplEval(e) == IF ImplSideEffect(e) THEN Unknown ELSE Eval(e, "impl")

\* the property on one expression
Agrees(e) ==
    LET p == PyEval(e)
        m == ImplEval(e)
    IN \/ p.r = "oom" \/ m.r = "oom"
       \/ (p.r = "val" /\ m.r \in {"val", "unknown"} /\ (m.r = "val" => m.v = p.v))
       \/ (p.r \in {"raise", "effect"} /\ m.r = "unknown")
=============================================================================
