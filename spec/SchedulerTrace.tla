--------------------------- MODULE SchedulerTrace ---------------------------
(* Trace validation (code -> spec): every call of _schedule_rewrites and     *)
(* _apply_rewrites recorded while REAL rules run is checked against the      *)
(* actions of Scheduler.tla.  A "schedule" event carries the yields (in      *)
(* yield order, with the character ranges the scheduler computed), the       *)
(* ranges of the lines with an ignore comment, and the scheduled list the    *)
(* code returned; TLC re-executes Collect / Dedupe / Consider / NextGroup /  *)
(* FinalSort on the recorded input and compares.  An "apply" event carries   *)
(* validity before / after.  The trace spec is total: the verdict names the  *)
(* first clause that fails, one record per event.                            *)
EXTENDS Scheduler, Json, IOUtils

Events == JsonDeserialize(IOEnv.TRACE_FILE)

VARIABLE ti
tvars == <<vars, ti>>

SeqToSet(s) == {s[j] : j \in 1..Len(s)}

LoadState(i) ==
    LET e == Events[i] IN
    /\ yields' = (IF e.kind = "schedule" THEN e.yields ELSE <<>>)
    /\ ignored' = (IF e.kind = "schedule" THEN SeqToSet(e.ignored) ELSE {})
    /\ ng' = (IF e.kind = "schedule" THEN e.ngroups ELSE 1)
    /\ pc' = (IF e.kind = "schedule" THEN "collect" ELSE "applied")
    /\ k' = 1 /\ present' = {} /\ queue' = <<>> /\ scheduled' = {} /\ dropped' = {}
    /\ order' = <<>> /\ ai' = 1 /\ work' = <<>> /\ result' = <<>> /\ rolled' = FALSE

TraceInit ==
    /\ ti = 1
    /\ LET e == Events[1] IN
       /\ yields = (IF e.kind = "schedule" THEN e.yields ELSE <<>>)
       /\ ignored = (IF e.kind = "schedule" THEN SeqToSet(e.ignored) ELSE {})
       /\ ng = (IF e.kind = "schedule" THEN e.ngroups ELSE 1)
       /\ pc = (IF e.kind = "schedule" THEN "collect" ELSE "applied")
    /\ k = 1 /\ present = {} /\ queue = <<>> /\ scheduled = {} /\ dropped = {}
    /\ order = <<>> /\ ai = 1 /\ work = <<>> /\ result = <<>> /\ rolled = FALSE

\* ---- declarative judgement of a recorded schedule that differs from the model ----
\* a recorded entry is <<lo, hi, new rank, group, transaction number>>
RecKeys(rec) == {<<rec[j][4], rec[j][5]>> : j \in 1..Len(rec)}
RecHas(rec, t, a) == \E j \in 1..Len(rec) :
    rec[j][1] = a.lo /\ rec[j][2] = a.hi /\ rec[j][3] = a.new /\ rec[j][4] = t[1] /\ rec[j][5] = t[2]
RecAtomic(rec) ==
    /\ \A t \in RecKeys(rec) : t \in AllKeys /\ \A a \in RwSet(t) : RecHas(rec, t, a)
    /\ \A j \in 1..Len(rec) :
          <<rec[j][4], rec[j][5]>> \in AllKeys /\
          \E a \in RwSet(<<rec[j][4], rec[j][5]>>) :
             a.lo = rec[j][1] /\ a.hi = rec[j][2] /\ a.new = rec[j][3]
RecNoOverlap(rec) ==
    \A i, j \in 1..Len(rec) : (i # j /\ rec[i] # rec[j])
        => ~Overlaps(<<rec[i][1], rec[i][2]>>, <<rec[j][1], rec[j][2]>>)
RecJustified(rec) ==
    \A t \in AllKeys \ RecKeys(rec) :
        \/ SelfOverlap(t) \/ KeyIgnored(t)
        \/ \E u \in AllKeys : KeyLess(u, t) /\ EqSeq(u) = EqSeq(t)
        \/ \E u \in AllKeys : KeyLess(u, t) /\ \E a \in RwSet(t), b \in RwSet(u) : Overlaps(Rng(a), Rng(b))
RecReverseOrdered(rec) ==
    \A j \in 1..(Len(rec) - 1) :
        \/ rec[j + 1][1] < rec[j][1]
        \/ rec[j + 1][1] = rec[j][1] /\ rec[j + 1][2] <= rec[j][2]
RecIgnoredClean(rec) == \A t \in RecKeys(rec) : t \in AllKeys => ~KeyIgnored(t)

ModelOrder == [j \in 1..Len(order) |-> <<order[j].lo, order[j].hi, order[j].new, order[j].t[1], order[j].t[2]>>]

ScheduleVerdict(e) ==
    IF ModelOrder = e.scheduled THEN "ok"
    ELSE IF ~RecAtomic(e.scheduled) THEN "Atomic"
    ELSE IF ~RecNoOverlap(e.scheduled) THEN "NoOverlapApplied"
    ELSE IF ~RecJustified(e.scheduled) THEN "DropJustified"
    ELSE IF ~RecReverseOrdered(e.scheduled) THEN "OffsetsStable"
    ELSE IF ~RecIgnoredClean(e.scheduled) THEN "IgnoredTouched"
    ELSE "differs-but-admitted"

ApplyVerdict(e) ==
    IF e.valid_out \/ e.unchanged THEN "ok" ELSE "Rollback"

EmitVerdict(i, v) == PrintT(<<"@@J", ToJson([i |-> i, verdict |-> v])>>)

\* the scheduler's own steps, re-used unchanged
Step == Collect \/ Dedupe \/ Consider \/ NextGroup \/ FinalSort

Advance ==
    /\ ti <= Len(Events)
    /\ \/ pc = "apply" /\ EmitVerdict(ti, ScheduleVerdict(Events[ti]))
       \/ pc = "applied" /\ EmitVerdict(ti, ApplyVerdict(Events[ti]))
    /\ ti' = ti + 1
    /\ IF ti + 1 <= Len(Events) THEN LoadState(ti + 1)
       ELSE /\ pc' = "end"
            /\ UNCHANGED <<yields, ignored, k, ng, present, queue, scheduled, dropped, order, ai, work, result, rolled>>

TraceNext ==
    \/ (pc \in {"collect", "dedupe", "consider", "sort"} /\ Step /\ UNCHANGED ti)
    \/ Advance
=============================================================================
