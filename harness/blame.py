"""Localisation of a broken invariant inside a recorded pipeline trace, and rewrite signatures.

* first_breaking_stage: the first stage event after which a projection (obs, ast, surface, ...) differs
  from the projection of the input of the run.
* shape: a coarse structural signature of what a stage did to the tree (old node type -> new node
  type, or statements removed / added), used to identify *which* rewrite a known finding covers.
"""
from __future__ import annotations

import ast
import difflib
import re
from typing import Any, Callable, Dict, List, Optional, Sequence, Tuple


def _dump(n) -> str:
    return ast.dump(n, include_attributes=False) if isinstance(n, ast.AST) else repr(n)


def _src(n) -> str:
    try:
        return ast.unparse(n)[:160] if isinstance(n, ast.AST) else repr(n)[:160]
    except Exception:
        return "?"


def _diff(a, b, parent="Module", field="body") -> Optional[dict]:
    if isinstance(a, ast.AST) and isinstance(b, ast.AST):
        if type(a) is not type(b):
            return {"old": type(a).__name__, "new": type(b).__name__, "parent": parent, "field": field,
                    "old_src": _src(a), "new_src": _src(b), "_old": a, "_new": b}
        for f in a._fields:
            va, vb = getattr(a, f, None), getattr(b, f, None)
            if isinstance(va, list) and isinstance(vb, list):
                if len(va) == len(vb):
                    for x, y in zip(va, vb):
                        d = _diff(x, y, type(a).__name__, f)
                        if d:
                            return d
                else:
                    da, db = [_dump(x) for x in va], [_dump(x) for x in vb]
                    sm = difflib.SequenceMatcher(a=da, b=db, autojunk=False)
                    removed, added = [], []
                    for tag, i1, i2, j1, j2 in sm.get_opcodes():
                        if tag in ("delete", "replace"):
                            removed += va[i1:i2]
                        if tag in ("insert", "replace"):
                            added += vb[j1:j2]
                    return {"old": "[" + ",".join(type(x).__name__ for x in removed) + "]",
                            "new": "[" + ",".join(type(x).__name__ for x in added) + "]",
                            "parent": type(a).__name__, "field": f,
                            "old_src": " | ".join(_src(x) for x in removed)[:240],
                            "new_src": " | ".join(_src(x) for x in added)[:240]}
            else:
                d = _diff(va, vb, type(a).__name__, f)
                if d:
                    return d
        return None
    if a != b or type(a) is not type(b):
        return {"old": type(a).__name__, "new": type(b).__name__, "parent": parent, "field": field,
                "old_src": _src(a), "new_src": _src(b)}
    return None


def shape(before: str, after: str) -> dict:
    """Signature of the first structural difference between two texts."""
    import textwrap

    def parse(t):
        try:
            return ast.parse(t)
        except (SyntaxError, ValueError):
            return ast.parse(textwrap.dedent(t))      # indented fragments
    try:
        ta, tb = parse(before), parse(after)
    except (SyntaxError, ValueError):
        return {"old": "?", "new": "?", "parent": "?", "field": "?", "old_src": "", "new_src": "", "features": []}
    d = _diff(ta, tb)
    if not d:
        return {"old": "=", "new": "=", "parent": "Module", "field": "body", "old_src": "", "new_src": "", "features": []}
    d["features"] = _features(d.pop("_old", None), d.pop("_new", None))
    return d


def _features(old, new) -> List[str]:
    """Facts about the rewritten node that known-finding classes may require."""
    out = []
    if isinstance(old, ast.BoolOp):
        if any(isinstance(v, ast.Constant) for b in ast.walk(old) if isinstance(b, ast.BoolOp) for v in b.values):
            out.append("boolop-with-constant-operand")
        if any(isinstance(x, ast.Call) for v in old.values for x in ast.walk(v)):
            out.append("boolop-with-call")
    if isinstance(new, ast.Constant):
        out.append(f"new-constant-{type(new.value).__name__}")
    return out


def first_breaking_stage(events: Sequence[dict], projections: Dict[str, Any], base) -> Optional[dict]:
    """events: recorded stage events; projections: text -> projection; base: projection of the run's input."""
    for ev in events:
        if not ev.get("changed"):
            continue
        if projections.get(ev["after"], base) != base:
            return ev
    return None


def matches_signature(entry: dict, stage: str, sh: dict, case_text: str = "") -> bool:
    """Does a known-finding entry of class 'trace-signature' cover this failure?"""
    cls = entry.get("class", {})
    if cls.get("kind") != "trace-signature":
        return False
    if entry.get("stage_regex"):
        if not re.fullmatch(entry["stage_regex"], stage):
            return False
    elif cls.get("stage") and cls["stage"] != stage:
        return False
    for key in ("old", "new", "parent", "field"):
        if key in cls and not re.fullmatch(cls[key], sh.get(key, "")):
            return False
    if "old_src" in cls and not re.search(cls["old_src"], sh.get("old_src", ""), re.S):
        return False
    if "new_src" in cls and not re.search(cls["new_src"], sh.get("new_src", ""), re.S):
        return False
    if "input" in cls and not re.search(cls["input"], case_text, re.S):
        return False
    if not set(cls.get("features", [])) <= set(sh.get("features", [])):
        return False
    return True
