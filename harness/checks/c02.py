"""C02 - every individual rewrite rule preserves program behaviour.

Every rule of the catalogue (read from main.py on every run) is applied in isolation to every program of the
C01 space (ProgGen.tla programs, repository snippets under Closing.tla environments).  Each firing is a
single-step trace  Enter; Rule(r); Return  validated by TLC against PipelineTrace.tla (clauses KeepValid and
FinalObs).  A rule whose result needs an import that a later stage of the pipeline adds is observed after
add_missing_imports.
"""
from __future__ import annotations

import random
import sys
from typing import Dict, List

import blame
import c01
import execbox
import isolated
import pipecheck
import proj
import ptrace
from common import Report, import_pyrefact, tier, seed
from tlc import MachineryError

PROP = "C02"


def main(argv=None) -> int:
    rep = Report(PROP, "exploration")
    mods = import_pyrefact()
    t = tier()
    rng = random.Random(seed())
    runner = execbox.Runner(n=16, timeout=5)
    consts = ptrace.code_constants(mods)
    fired: Dict[str, int] = {}
    try:
        progs = c01.program_space(rep, t, rng, runner, n_gen=800 if t == "quick" else 9000, n_snip=None)
        iso = isolated.run_isolated(progs, timeout=120)
        firings = []
        crashes = 0
        for key, text, results in iso:
            for rule, out, err in results:
                if err is not None:
                    crashes += 1       # C04
                    continue
                fired[rule] = fired.get(rule, 0) + 1
                firings.append((key, text, rule, out))
        runner.observe_many([f[3] for f in firings])
        # a rule may legitimately rely on the import stage that follows it in the pipeline
        retry = []
        for key, text, rule, out in firings:
            base, after = runner.observe(text), runner.observe(out)
            if base != after and after[0] == "exc:NameError":
                retry.append((key, text, rule, out))
        fixed_up = {}
        for key, text, rule, out in retry:
            try:
                fixed_up[(key, rule)] = mods["fixes"].add_missing_imports(out)
            except Exception:
                pass
        runner.observe_many(list(fixed_up.values()))
        # one single-step trace per firing, validated by TLC
        traces, meta = [], {}
        for i, (key, text, rule, out) in enumerate(firings, start=1):
            final = out
            if (key, rule) in fixed_up and runner.observe(fixed_up[(key, rule)]) == runner.observe(text):
                final = fixed_up[(key, rule)]
            events = [{"stage": rule, "changed": True, "before": text, "after": out}]
            tr = ptrace.build_trace(i, text, {}, final, None, [], consts, want=("obs",), obs=runner.observe)
            # build_trace without events treats the run as an early return; describe the single step explicitly
            dg = {text: 1, out: 2, final: 3 if final != out else 2}
            tr["ev"] = [{"k": "sub", "s": rule, "b": 1, "a": 2, "valid": proj.valid(out), "ast": 2, "layout": False, "n": 0}]
            if final != out:
                tr["ev"].append({"k": "sub", "s": "fixes.add_missing_imports", "b": 2, "a": 3, "valid": proj.valid(final),
                                 "ast": 3, "layout": False, "n": 0})
            tr["input"]["d"], tr["input"]["ast"] = 1, 1
            tr["ret"]["d"] = dg[final]
            tr["ret"]["early"] = "invalid"      # no control events in a single-step trace
            tr["ret"]["wsequal"] = True
            traces.append(tr)
            meta[i] = (key, text, rule, out, final)
        verdicts = ptrace.validate(rep, traces, consts, "C02 single-step traces", batch=4000)
        for i, v in verdicts.items():
            key, text, rule, out, final = meta[i]
            bad = {c for c in v["bad"] if c in ("KeepValid", "FinalObs", "FinalValid")}
            if not bad:
                continue
            kf, sh = pipecheck.known_by_signature(rep, rule, text, out, text)
            base, after = runner.observe(text), runner.observe(final)
            case = {"input_id": key, "program": text, "rule": rule, "output": out, "obs_before": base, "obs_after": after,
                    "shape": sh, "clauses": sorted(bad)}
            if kf:
                rep.known(kf, {"input_id": key, "rule": rule, "rewrite": f"{sh['old_src'][:80]} -> {sh['new_src'][:80]}"})
                continue
            rep.violation(f"rule {rule} changed behaviour ({'/'.join(sorted(bad))}): {sh['old_src'][:90]!r} -> {sh['new_src'][:90]!r}; "
                          f"obs {base[0]}/{base[1][:40]!r} -> {after[0]}/{after[1][:40]!r}; input {key}", case)
    finally:
        runner.close()
    rules = isolated.rule_names()
    rep.coverage["evaluations"] = len(progs) * len(rules)
    rep.coverage["distinct_nontrivial"] = len(firings)
    rep.coverage["traces_validated_against_impl"] = len(firings)
    rep.coverage["rule_firings"] = dict(sorted(fired.items()))
    rep.coverage["rules_not_exercised"] = sorted(set(rules) - set(fired))
    rep.coverage["rule_crashes_left_to_C04"] = crashes
    rep.coverage["rule"] = (f"{len(rules)} rules (catalogue read from main.py) x every program of the C01 space; non-trivial = the rule "
                            "changed the text (one single-step trace each). Rules listed under rules_not_exercised never fired: no claim for them")
    for key, text, rule, out in firings[:: max(1, len(firings) // 3)][:3]:
        rep.sample({"input_id": key, "rule": rule, "program": text[-300:], "output": out[-300:]})
    rep.assumptions += ["as C01; a result that only lacks an import added by the pipeline's import stage is observed after that stage"]
    return rep.finish()


if __name__ == "__main__":
    sys.exit(main())
