"""C19 - renaming is consistent and capture-free.

Rename.tla: scenarios (scope tree + ordered identifier occurrences with roles) whose slots TLC fills with every
combination of identifiers from an adversarial pool; Python's scoping rules (LEGB, global / nonlocal, class scopes,
comprehensions) give the PARTITION of the occurrences by binding.  The scenario table below is the single source for
both the TLA+ constant and the program text.
  (C) the partition of the spec must equal the partition computed from the rendered program by a general resolver
      over the ast, which in turn is checked against CPython's symtable (exit 2 on disagreement);
  (A) the renaming rules are applied; identifier tokens before / after are aligned one to one and the partition of
      the result (same resolver) must be the same partition: a merge is a capture, a split a missed reference.
      New identifiers must be identifiers and no keywords; execution (status, stdout) is a second, independent oracle,
      also used for format_code, whose output is not token-aligned.
"""
from __future__ import annotations

import ast
import io
import json
import keyword
import multiprocessing as mp
import random
import re
import symtable
import sys
import tokenize
from typing import Dict, List, Optional, Tuple

import blame
import execbox
from common import Report, import_pyrefact, tier, seed
from tlc import MachineryError, run_tlc

PROP = "C19"
POOL = ["myVar", "my_var", "MY_VAR", "MyVar", "_my_var", "len", "Len", "x", "var_1", "_"]
BUILTINS = ["len"]

# scenario: text with {X} {Y} slots; scopes [(id, parent, kind)]; occ in TEXTUAL order [(slot, scope, role)]
SCENARIOS = [
    dict(name="two_module_vars", distinct=False,
         text="{X} = 1\n{Y} = 2\nprint({X} + {Y})\n",
         scopes=[("M", "none", "module")],
         occ=[("X", "M", "store"), ("Y", "M", "store"), ("X", "M", "load"), ("Y", "M", "load")]),
    dict(name="module_and_local", distinct=False,
         text="{X} = 1\n\n\ndef fn():\n    {Y} = 2\n    return {X} + {Y}\n\n\nprint(fn(), {X})\n",
         scopes=[("M", "none", "module"), ("F", "M", "function")],
         occ=[("X", "M", "store"), ("Y", "F", "store"), ("X", "F", "load"), ("Y", "F", "load"), ("X", "M", "load")]),
    dict(name="param_kw", distinct=False,
         text="def fn({X}, {Y}=2):\n    return {X} * 10 + {Y}\n\n\nprint(fn({X}=1), fn(1, {Y}=3))\n",
         scopes=[("M", "none", "module"), ("F", "M", "function")],
         occ=[("X", "F", "param"), ("Y", "F", "param"), ("X", "F", "load"), ("Y", "F", "load"), ("X", "F", "kw"), ("Y", "F", "kw")]),
    dict(name="for_target", distinct=False,
         text="def fn():\n    acc = 0\n    for {X} in range(3):\n        {Y} = {X} * 2\n        acc += {Y}\n    return acc\n\n\nprint(fn())\n",
         scopes=[("M", "none", "module"), ("F", "M", "function")],
         occ=[("X", "F", "store"), ("Y", "F", "store"), ("X", "F", "load"), ("Y", "F", "load")]),
    dict(name="global_decl", distinct=False,
         text="{X} = 1\n\n\ndef fn():\n    global {X}\n    {X} = 5\n    {Y} = {X} + 1\n    return {Y}\n\n\nprint(fn(), {X})\n",
         scopes=[("M", "none", "module"), ("F", "M", "function")],
         occ=[("X", "M", "store"), ("X", "F", "global"), ("X", "F", "store"), ("Y", "F", "store"), ("X", "F", "load"), ("Y", "F", "load"),
              ("X", "M", "load")]),
    dict(name="nonlocal_decl", distinct=False,
         text="def fn():\n    {X} = 1\n\n    def inner():\n        nonlocal {X}\n        {X} += 1\n        {Y} = {X}\n        return {Y}\n\n"
              "    return inner() + {X}\n\n\nprint(fn())\n",
         scopes=[("M", "none", "module"), ("F", "M", "function"), ("G", "F", "function")],
         occ=[("X", "F", "store"), ("X", "G", "nonlocal"), ("X", "G", "store"), ("Y", "G", "store"), ("X", "G", "load"), ("Y", "G", "load"),
              ("X", "F", "load")]),
    dict(name="closure", distinct=False,
         text="{X} = 1\n\n\ndef fn():\n    {Y} = 2\n\n    def inner():\n        return {X} + {Y}\n\n    return inner()\n\n\nprint(fn(), {X})\n",
         scopes=[("M", "none", "module"), ("F", "M", "function"), ("G", "F", "function")],
         occ=[("X", "M", "store"), ("Y", "F", "store"), ("X", "G", "load"), ("Y", "G", "load"), ("X", "M", "load")]),
    dict(name="class_attr", distinct=False,
         text="class Kls:\n    {X} = 1\n    {Y} = 2\n\n    def meth(self):\n        return self.{X} + self.{Y} + Kls.{X}\n\n\nprint(Kls().meth())\n",
         scopes=[("M", "none", "module"), ("K", "M", "class"), ("F", "K", "function")],
         occ=[("X", "K", "store"), ("Y", "K", "store"), ("X", "K", "attr"), ("Y", "K", "attr"), ("X", "K", "attr")]),
    dict(name="comprehension", distinct=False,
         text="{X} = 3\nres = [{Y} * 2 for {Y} in range({X})]\nprint(res, {X})\n",
         scopes=[("M", "none", "module"), ("C", "M", "comp")],
         occ=[("X", "M", "store"), ("Y", "C", "load"), ("Y", "C", "store"), ("X", "M", "load"), ("X", "M", "load")]),
    dict(name="import_as", distinct=False,
         text="import os as {X}\n{Y} = {X}.sep\nprint({Y} == '/')\n",
         scopes=[("M", "none", "module")],
         occ=[("X", "M", "store"), ("Y", "M", "store"), ("X", "M", "load"), ("Y", "M", "load")]),
    dict(name="def_names", distinct=True,
         text="def {X}():\n    return 1\n\n\ndef {Y}():\n    return {X}() + 1\n\n\nprint({Y}(), {X}())\n",
         scopes=[("M", "none", "module"), ("F", "M", "function"), ("G", "M", "function")],
         occ=[("X", "M", "store"), ("Y", "M", "store"), ("X", "G", "load"), ("Y", "M", "load"), ("X", "M", "load")]),
    dict(name="class_names", distinct=True,
         text="class {X}:\n    tag = 1\n\n\nclass {Y}({X}):\n    pass\n\n\nprint({Y}.tag, {X}.tag)\n",
         scopes=[("M", "none", "module"), ("K", "M", "class"), ("L", "M", "class")],
         occ=[("X", "M", "store"), ("Y", "M", "store"), ("X", "M", "load"), ("Y", "M", "load"), ("X", "M", "load")]),
    dict(name="unused_local", distinct=False,
         text="def fn():\n    {X} = 1\n    {Y} = 2\n    return {Y}\n\n\nprint(fn())\n",
         scopes=[("M", "none", "module"), ("F", "M", "function")],
         occ=[("X", "F", "store"), ("Y", "F", "store"), ("Y", "F", "load")]),
    dict(name="augmented", distinct=False,
         text="{X} = 1\n{X} += 2\n{Y} = {X}\nprint({Y})\n",
         scopes=[("M", "none", "module")],
         occ=[("X", "M", "store"), ("X", "M", "store"), ("Y", "M", "store"), ("X", "M", "load"), ("Y", "M", "load")]),
    dict(name="tuple_targets", distinct=False,
         text="{X}, {Y} = 1, 2\nprint({X} + {Y})\n",
         scopes=[("M", "none", "module")],
         occ=[("X", "M", "store"), ("Y", "M", "store"), ("X", "M", "load"), ("Y", "M", "load")]),
    dict(name="with_as", distinct=False,
         text="import io\n\n\ndef fn():\n    with io.StringIO('a') as {X}:\n        {Y} = {X}.read()\n    return {Y}\n\n\nprint(fn())\n",
         scopes=[("M", "none", "module"), ("F", "M", "function")],
         occ=[("X", "F", "store"), ("Y", "F", "store"), ("X", "F", "load"), ("Y", "F", "load")]),
    dict(name="local_shadows_module", distinct=False,
         text="{X} = 1\n{Y} = 2\n\n\ndef fn():\n    {X} = 10\n    return {X} + {Y}\n\n\nprint(fn(), {X}, {Y})\n",
         scopes=[("M", "none", "module"), ("F", "M", "function")],
         occ=[("X", "M", "store"), ("Y", "M", "store"), ("X", "F", "store"), ("X", "F", "load"), ("Y", "F", "load"), ("X", "M", "load"), ("Y", "M", "load")]),
    dict(name="init_attr", distinct=False,
         text="class Kls:\n    def __init__(self, {X}):\n        self.{Y} = {X}\n\n    def get(self):\n        return self.{Y}\n\n\nprint(Kls({X}=4).get())\n",
         scopes=[("M", "none", "module"), ("K", "M", "class"), ("F", "K", "function"), ("G", "K", "function")],
         occ=[("X", "F", "param"), ("Y", "K", "attr"), ("X", "F", "load"), ("Y", "K", "attr"), ("X", "F", "kw")]),
    dict(name="param_shadows_module", distinct=False,
         text="{X} = 1\n\n\ndef fn({Y}):\n    return {Y} + 1\n\n\nprint(fn(5), {X})\n",
         scopes=[("M", "none", "module"), ("F", "M", "function")],
         occ=[("X", "M", "store"), ("Y", "F", "param"), ("Y", "F", "load"), ("X", "M", "load")]),
    dict(name="uses_builtin", distinct=False,
         text="def fn(items):\n    {X} = sum(items)\n    {Y} = {X} + 1\n    return {Y} + len(items)\n\n\nprint(fn([1, 2]))\n",
         scopes=[("M", "none", "module"), ("F", "M", "function")],
         occ=[("X", "F", "store"), ("Y", "F", "store"), ("X", "F", "load"), ("Y", "F", "load")]),
    dict(name="augmented_local", distinct=False,
         text="def fn():\n    {X} = 1\n    {X} += 2\n    {Y} = {X}\n    {Y} *= 2\n    return {Y}\n\n\nprint(fn())\n",
         scopes=[("M", "none", "module"), ("F", "M", "function")],
         occ=[("X", "F", "store"), ("X", "F", "store"), ("Y", "F", "store"), ("X", "F", "load"), ("Y", "F", "store"), ("Y", "F", "load")]),
    dict(name="augmented_in_loop", distinct=False,
         text="def fn(items):\n    {X} = 0\n    for it in items:\n        {X} += it\n        if it:\n            {Y} = {X}\n    return {X} + {Y}\n\n\nprint(fn([1, 2]))\n",
         scopes=[("M", "none", "module"), ("F", "M", "function")],
         occ=[("X", "F", "store"), ("X", "F", "store"), ("Y", "F", "store"), ("X", "F", "load"), ("X", "F", "load"), ("Y", "F", "load")]),
    dict(name="local_and_param", distinct=False,
         text="def fn({Y}):\n    {X} = 5\n    return {X} + {Y}\n\n\nprint(fn(10))\n",
         scopes=[("M", "none", "module"), ("F", "M", "function")],
         occ=[("Y", "F", "param"), ("X", "F", "store"), ("X", "F", "load"), ("Y", "F", "load")]),
    dict(name="inner_param_reads_outer", distinct=False,
         text="def fn():\n    {X} = 5\n\n    def inner({Y}):\n        return {X} * 100 + {Y}\n\n    return inner(10)\n\n\nprint(fn())\n",
         scopes=[("M", "none", "module"), ("F", "M", "function"), ("G", "F", "function")],
         occ=[("X", "F", "store"), ("Y", "G", "param"), ("X", "G", "load"), ("Y", "G", "load")]),
    dict(name="inner_kwonly_param", distinct=False,
         text="def fn():\n    {X} = 7\n\n    def inner(*, {Y}=2):\n        return {Y} * 2\n\n    return inner() + {X}\n\n\nprint(fn())\n",
         scopes=[("M", "none", "module"), ("F", "M", "function"), ("G", "F", "function")],
         occ=[("X", "F", "store"), ("Y", "G", "param"), ("Y", "G", "load"), ("X", "F", "load")]),
    dict(name="inner_posonly_param", distinct=False,
         text="def fn():\n    {X} = 7\n\n    def inner({Y}, /):\n        return {Y} * 2\n\n    return inner(2) + {X}\n\n\nprint(fn())\n",
         scopes=[("M", "none", "module"), ("F", "M", "function"), ("G", "F", "function")],
         occ=[("X", "F", "store"), ("Y", "G", "param"), ("Y", "G", "load"), ("X", "F", "load")]),
    dict(name="inner_vararg_param", distinct=False,
         text="def fn():\n    {X} = 7\n\n    def inner(*{Y}):\n        return len({Y}) * 2\n\n    return inner(1, 2) + {X}\n\n\nprint(fn())\n",
         scopes=[("M", "none", "module"), ("F", "M", "function"), ("G", "F", "function")],
         occ=[("X", "F", "store"), ("Y", "G", "param"), ("Y", "G", "load"), ("X", "F", "load")]),
    dict(name="lambda_param", distinct=False,
         text="def fn():\n    {X} = 7\n    double = lambda {Y}: {Y} * 2\n    return double(2) + {X}\n\n\nprint(fn())\n",
         scopes=[("M", "none", "module"), ("F", "M", "function"), ("G", "F", "function")],
         occ=[("X", "F", "store"), ("Y", "G", "param"), ("Y", "G", "load"), ("X", "F", "load")]),
    dict(name="three_locals", distinct=False,
         text="def fn():\n    {X} = 1\n    {Y} = 2\n    {Z} = 3\n    return {X} * 100 + {Y} * 10 + {Z}\n\n\nprint(fn())\n",
         scopes=[("M", "none", "module"), ("F", "M", "function")],
         occ=[("X", "F", "store"), ("Y", "F", "store"), ("Z", "F", "store"), ("X", "F", "load"), ("Y", "F", "load"), ("Z", "F", "load")]),
    # a comprehension with two for clauses that re-binds the name: only its FIRST iterable is read outside the comprehension
    dict(name="comp_two_for", distinct=False,
         text="{X} = [1, 2]\ngrid = [[1], [2, 3]]\nres = [{Y} for {X} in grid for {Y} in {X}]\nprint(res, {X})\n",
         scopes=[("M", "none", "module"), ("C", "M", "comp")],
         occ=[("X", "M", "store"), ("Y", "C", "load"), ("X", "C", "store"), ("Y", "C", "store"), ("X", "C", "load"), ("X", "M", "load")]),
    dict(name="comp_two_for_local", distinct=False,
         text="def fn(grid):\n    {X} = grid[0]\n    res = [{Y} for {X} in grid for {Y} in {X}]\n    return res, {X}\n\n\nprint(fn([[1], [2, 3]]))\n",
         scopes=[("M", "none", "module"), ("F", "M", "function"), ("C", "F", "comp")],
         occ=[("X", "F", "store"), ("Y", "C", "load"), ("X", "C", "store"), ("Y", "C", "store"), ("X", "C", "load"), ("X", "F", "load")]),
    dict(name="comp_first_iter_outer", distinct=False,
         text="def fn():\n    {X} = [[1], [2, 3]]\n    res = [{Y} for {X} in {X} for {Y} in {X}]\n    return res, {X}\n\n\nprint(fn())\n",
         scopes=[("M", "none", "module"), ("F", "M", "function"), ("C", "F", "comp")],
         occ=[("X", "F", "store"), ("Y", "C", "load"), ("X", "C", "store"), ("X", "F", "load"), ("Y", "C", "store"), ("X", "C", "load"), ("X", "F", "load")]),
    # * and ** parameters that the body assigns again
    dict(name="vararg_reassigned", distinct=False,
         text="def fn(*{X}):\n    {X} = list({X})\n    {Y} = len({X})\n    return {X}, {Y}\n\n\nprint(fn(1, 2))\n",
         scopes=[("M", "none", "module"), ("F", "M", "function")],
         occ=[("X", "F", "param"), ("X", "F", "store"), ("X", "F", "load"), ("Y", "F", "store"), ("X", "F", "load"), ("X", "F", "load"), ("Y", "F", "load")]),
    dict(name="kwarg_reassigned", distinct=False,
         text="def fn(**{X}):\n    {X} = dict({X}, extra=1)\n    {Y} = sorted({X})\n    return {Y}\n\n\nprint(fn(a=1))\n",
         scopes=[("M", "none", "module"), ("F", "M", "function")],
         occ=[("X", "F", "param"), ("X", "F", "store"), ("X", "F", "load"), ("Y", "F", "store"), ("X", "F", "load"), ("Y", "F", "load")]),
    dict(name="kwonly_reassigned", distinct=False,
         text="def fn(*, {X}=3):\n    {X} += 1\n    {Y} = {X} * 2\n    return {Y}\n\n\nprint(fn(), fn({X}=5))\n",
         scopes=[("M", "none", "module"), ("F", "M", "function")],
         occ=[("X", "F", "param"), ("X", "F", "store"), ("Y", "F", "store"), ("X", "F", "load"), ("Y", "F", "load"), ("X", "F", "kw")]),
    # attributes of a class that is not a top-level statement (nested in a class, made in a function), read by attribute access only
    dict(name="nested_class_attr", distinct=False, exec_only=True,
         text="class Outer:\n    class Meta:\n        {X} = 1\n        {Y}: int = 2\n\n    def meth(self):\n        return self.Meta.{X} + Outer.Meta.{Y}\n\n\n"
              "print(Outer().meth(), Outer.Meta.{X})\n",
         scopes=[("M", "none", "module"), ("K", "M", "class"), ("N", "K", "class"), ("F", "K", "function")],
         occ=[("X", "N", "store"), ("Y", "N", "store"), ("X", "N", "attr"), ("Y", "N", "attr"), ("X", "N", "attr")]),
    dict(name="factory_class_attr", distinct=False, exec_only=True,
         text="def make():\n    class Made:\n        {X} = 1\n        {Y} = 2\n\n    return Made\n\n\nkls = make()\nprint(kls.{X} + kls().{Y})\n",
         scopes=[("M", "none", "module"), ("F", "M", "function"), ("K", "F", "class")],
         occ=[("X", "K", "store"), ("Y", "K", "store"), ("X", "K", "attr"), ("Y", "K", "attr")]),
    # two functions with one body (the duplicate-function merge deletes one): the names are used as VALUES, not only called
    dict(name="dup_functions_as_values", distinct=True,
         text="def {X}(v):\n    return v * 2\n\n\ndef {Y}(v):\n    return v * 2\n\n\ndef other(v, fn={Y}):\n    return fn(v)\n\n\n"
              "table = {\"a\": {Y}, \"b\": {X}}\n"
              "print(list(map({Y}, [1, 2])), sorted([3, 1], key={Y}), table[\"a\"](4), other(5), {X}(6), {Y}(7))\n",
         scopes=[("M", "none", "module"), ("F", "M", "function"), ("G", "M", "function"), ("H", "M", "function")],
         occ=[("X", "M", "store"), ("Y", "M", "store"), ("Y", "M", "load"), ("Y", "M", "load"), ("X", "M", "load"), ("Y", "M", "load"), ("Y", "M", "load"),
              ("X", "M", "load"), ("Y", "M", "load")]),
    dict(name="dup_functions_decorator", distinct=True,
         text="def {X}(f):\n    return f\n\n\ndef {Y}(f):\n    return f\n\n\n@{Y}\ndef other(v):\n    return v + 1\n\n\n"
              "def pick():\n    return {Y}\n\n\nprint(other(1), pick()(2), {X}(3))\n",
         scopes=[("M", "none", "module"), ("F", "M", "function"), ("G", "M", "function"), ("H", "M", "function"), ("I", "M", "function")],
         occ=[("X", "M", "store"), ("Y", "M", "store"), ("Y", "M", "load"), ("Y", "I", "load"), ("X", "M", "load")]),
]
BY_NAME = {s["name"]: s for s in SCENARIOS}


def tla_scenarios() -> str:
    out = []
    for s in SCENARIOS:
        scopes = ", ".join(f'[id |-> "{i}", parent |-> "{p}", kind |-> "{k}"]' for i, p, k in s["scopes"])
        occ = ", ".join(f'[slot |-> "{a}", scope |-> "{b}", role |-> "{c}"]' for a, b, c in s["occ"])
        out.append(f'[name |-> "{s["name"]}", distinct |-> {"TRUE" if s["distinct"] else "FALSE"}, scopes |-> <<{scopes}>>, occ |-> <<{occ}>>]')
    return "{" + ",\n  ".join(out) + "}"


def render(scn: dict, assign: Dict[str, str]) -> Tuple[str, List[Tuple[int, int]]]:
    """(program text, [(line, col) of every slot occurrence in textual order])."""
    text, pos = "", []
    for part in re.split(r"(\{[XYZ]\})", scn["text"]):
        if re.fullmatch(r"\{[XYZ]\}", part):
            line = text.count("\n") + 1
            col = len(text) - (text.rfind("\n") + 1)
            pos.append((line, col))
            text += assign[part[1]]
        else:
            text += part
    return text, pos


# ------------------------------------------------------------------------------------------ a general resolver over the ast
class Scope:
    def __init__(self, sid: str, kind: str, parent: Optional["Scope"], node):
        self.id, self.kind, self.parent, self.node = sid, kind, parent, node
        self.bound, self.globals, self.nonlocals = set(), set(), set()
        self.children: List[Scope] = []

    def local(self, ident: str) -> bool:
        return ident in self.bound and ident not in self.globals and ident not in self.nonlocals


class Resolver(ast.NodeVisitor):
    """occ: [(line, col, ident, group)] for every identifier occurrence that belongs to a binding of the program."""

    def __init__(self, text: str):
        self.text = text
        self.tree = ast.parse(text)
        self.lines = text.split("\n")
        self.scopes: Dict[int, Scope] = {}
        self.counter = 0
        self.module = self._scope("module", None, self.tree)
        self.classes: Dict[str, Scope] = {}
        self.functions: Dict[str, Scope] = {}
        self._collect(self.tree, self.module)
        self.occ: List[Tuple[int, int, str, Tuple[str, str]]] = []
        self._emit(self.tree, self.module, None)
        self.occ.sort()

    def _scope(self, kind, parent, node) -> Scope:
        self.counter += 1
        s = Scope(f"{kind[0]}{self.counter}", kind, parent, node)
        self.scopes[id(node)] = s
        if parent is not None:
            parent.children.append(s)
        return s

    # ---- pass 1: scopes and what they bind
    def _bind_target(self, t, scope: Scope):
        for n in ast.walk(t):
            if isinstance(n, ast.Name) and isinstance(n.ctx, (ast.Store, ast.Del)):
                scope.bound.add(n.id)

    def _collect(self, node, scope: Scope):
        for child in ast.iter_child_nodes(node):
            if isinstance(child, (ast.FunctionDef, ast.AsyncFunctionDef)):
                scope.bound.add(child.name)
                fs = self._scope("function", scope, child)
                if scope.kind == "module":
                    self.functions[child.name] = fs
                if scope.kind == "class" and child.name == "__init__":
                    scope.init = fs
                a = child.args
                for arg in a.posonlyargs + a.args + a.kwonlyargs + ([a.vararg] if a.vararg else []) + ([a.kwarg] if a.kwarg else []):
                    fs.bound.add(arg.arg)
                for d in child.decorator_list + a.defaults + [x for x in a.kw_defaults if x]:
                    self._collect_expr(d, scope)
                for st in child.body:
                    self._collect_stmt(st, fs)
            elif isinstance(child, ast.ClassDef):
                scope.bound.add(child.name)
                cs = self._scope("class", scope, child)
                if scope.kind == "module":
                    self.classes[child.name] = cs
                for b in child.bases + child.decorator_list:
                    self._collect_expr(b, scope)
                for st in child.body:
                    self._collect_stmt(st, cs)
            else:
                self._collect_stmt(child, scope, descend=False)
                self._collect(child, scope) if not isinstance(child, (ast.ListComp, ast.SetComp, ast.DictComp, ast.GeneratorExp, ast.Lambda)) else None

    def _collect_stmt(self, st, scope: Scope, descend=True):
        if isinstance(st, (ast.FunctionDef, ast.AsyncFunctionDef, ast.ClassDef)):
            self._collect(ast.Module(body=[st], type_ignores=[]), scope)
            return
        if isinstance(st, ast.Global):
            scope.globals.update(st.names)
        elif isinstance(st, ast.Nonlocal):
            scope.nonlocals.update(st.names)
        elif isinstance(st, (ast.Import, ast.ImportFrom)):
            for al in st.names:
                scope.bound.add((al.asname or al.name).split(".")[0])
        elif isinstance(st, ast.Name) and isinstance(st.ctx, (ast.Store, ast.Del)):
            scope.bound.add(st.id)
        elif isinstance(st, ast.NamedExpr):
            tgt = scope
            while tgt.kind == "comp":
                tgt = tgt.parent
            tgt.bound.add(st.target.id)
        elif isinstance(st, ast.ExceptHandler) and st.name:
            scope.bound.add(st.name)
        elif isinstance(st, (ast.ListComp, ast.SetComp, ast.DictComp, ast.GeneratorExp)):
            cs = self._scope("comp", scope, st)
            for i, gen in enumerate(st.generators):
                self._bind_target(gen.target, cs)
                # the first iterable is evaluated in the enclosing scope
                self._collect_stmt(gen.iter, scope if i == 0 else cs)
                for cond in gen.ifs:
                    self._collect_stmt(cond, cs)
            for part in ([st.key, st.value] if isinstance(st, ast.DictComp) else [st.elt]):
                self._collect_stmt(part, cs)
            return
        elif isinstance(st, ast.Lambda):
            ls = self._scope("function", scope, st)
            for arg in st.args.posonlyargs + st.args.args + st.args.kwonlyargs:
                ls.bound.add(arg.arg)
            self._collect_stmt(st.body, ls)
            return
        if descend:
            self._collect(st, scope)

    def _collect_expr(self, e, scope):
        self._collect_stmt(e, scope)

    # ---- resolution
    def resolve(self, scope: Scope, ident: str) -> Tuple[str, str]:
        if ident in scope.globals:
            return (self.module.id, ident)
        if ident in scope.nonlocals:
            return self._enclosing_function(scope, ident)
        s, start = scope, scope
        while s is not None:
            if s.kind == "module":
                return (s.id, ident) if s.local(ident) else ("builtins", ident)
            if s.local(ident) and (s.kind != "class" or s is start):
                return (s.id, ident)
            if ident in s.globals and s is not start and False:
                pass
            s = s.parent
        return ("builtins", ident)

    def _enclosing_function(self, scope: Scope, ident: str):
        s = scope.parent
        while s is not None:
            if s.kind == "function" and s.local(ident):
                return (s.id, ident)
            s = s.parent
        return ("builtins", ident)

    # ---- pass 2: occurrences
    def _name_pos_after(self, node, kw: str, ident: str, nth: int = 0) -> Tuple[int, int]:
        """Position of ident on the header line of a def / class / global / nonlocal statement."""
        line = self.lines[node.lineno - 1]
        m = [x.start() for x in re.finditer(r"(?<![A-Za-z0-9_])" + re.escape(ident) + r"(?![A-Za-z0-9_])", line)]
        start = line.index(kw, node.col_offset) + len(kw) if kw in line[node.col_offset:] else node.col_offset
        cands = [x for x in m if x >= start]
        return (node.lineno, cands[nth] if len(cands) > nth else (cands[0] if cands else node.col_offset))

    def _emit(self, node, scope: Scope, cls: Optional[Scope]):
        for child in ast.iter_child_nodes(node):
            sub = self.scopes.get(id(child))
            if isinstance(child, (ast.FunctionDef, ast.AsyncFunctionDef)):
                ln, col = self._name_pos_after(child, "def", child.name)
                self.occ.append((ln, col, child.name, self.resolve(scope, child.name)))
                a = child.args
                for arg in a.posonlyargs + a.args + a.kwonlyargs + ([a.vararg] if a.vararg else []) + ([a.kwarg] if a.kwarg else []):
                    self.occ.append((arg.lineno, arg.col_offset, arg.arg, (sub.id, arg.arg)))
                for d in child.decorator_list + a.defaults + [x for x in a.kw_defaults if x]:
                    self._emit(ast.Expr(value=d), scope, cls)
                for st in child.body:
                    self._emit(ast.Module(body=[st], type_ignores=[]), sub, scope if scope.kind == "class" else cls)
            elif isinstance(child, ast.ClassDef):
                ln, col = self._name_pos_after(child, "class", child.name)
                self.occ.append((ln, col, child.name, self.resolve(scope, child.name)))
                for b in child.bases + child.decorator_list:
                    self._emit(ast.Expr(value=b), scope, cls)
                for st in child.body:
                    self._emit(ast.Module(body=[st], type_ignores=[]), sub, cls)
            elif isinstance(child, (ast.ListComp, ast.SetComp, ast.DictComp, ast.GeneratorExp)):
                for i, gen in enumerate(child.generators):
                    self._emit(ast.Expr(value=gen.target), sub, cls)
                    self._emit(ast.Expr(value=gen.iter), scope if i == 0 else sub, cls)
                    for cond in gen.ifs:
                        self._emit(ast.Expr(value=cond), sub, cls)
                for part in ([child.key, child.value] if isinstance(child, ast.DictComp) else [child.elt]):
                    self._emit(ast.Expr(value=part), sub, cls)
            elif isinstance(child, ast.Lambda):
                for arg in child.args.posonlyargs + child.args.args + child.args.kwonlyargs:
                    self.occ.append((arg.lineno, arg.col_offset, arg.arg, (sub.id, arg.arg)))
                self._emit(ast.Expr(value=child.body), sub, cls)
            else:
                if isinstance(child, ast.Name):
                    tgt = scope
                    self.occ.append((child.lineno, child.col_offset, child.id, self.resolve(tgt, child.id)))
                elif isinstance(child, (ast.Global, ast.Nonlocal)):
                    for k, n in enumerate(child.names):
                        ln, col = self._name_pos_after(child, "global" if isinstance(child, ast.Global) else "nonlocal", n)
                        self.occ.append((ln, col, n, self.resolve(scope, n)))
                elif isinstance(child, ast.alias) and child.asname:
                    self.occ.append((child.end_lineno, child.end_col_offset - len(child.asname), child.asname, self.resolve(scope, child.asname)))
                elif isinstance(child, ast.Attribute):
                    owner = None
                    if isinstance(child.value, ast.Name):
                        if child.value.id == "self" and cls is not None:
                            owner = cls
                        elif child.value.id in self.classes:
                            owner = self.classes[child.value.id]
                    if owner is not None:
                        self.occ.append((child.end_lineno, child.end_col_offset - len(child.attr), child.attr, (owner.id, child.attr)))
                elif isinstance(child, ast.Call) and isinstance(child.func, ast.Name):
                    callee = None
                    if child.func.id in self.functions and self.resolve(scope, child.func.id)[0] == self.module.id:
                        callee = self.functions[child.func.id]
                    elif child.func.id in self.classes and self.resolve(scope, child.func.id)[0] == self.module.id:
                        callee = getattr(self.classes[child.func.id], "init", None)
                    if callee is not None:
                        for kw in child.keywords:
                            if kw.arg:
                                self.occ.append((kw.lineno, kw.col_offset, kw.arg, (callee.id, kw.arg)))
                self._emit(child, scope, cls)


def symtable_agrees(text: str, res: Resolver) -> Optional[str]:
    """Cross-check of the resolver's scope decisions with CPython's own symbol tables."""
    try:
        top = symtable.symtable(text, "<case>", "exec")
    except SyntaxError as exc:
        return f"symtable: {exc}"

    def walk(tab, scope: Scope) -> Optional[str]:
        for sym in tab.get_symbols():
            name = sym.get_name()
            if not (sym.is_referenced() or sym.is_assigned() or sym.is_parameter()):
                continue
            grp = res.resolve(scope, name)
            if tab.get_type() == "module":
                continue
            # CPython 3.12 inlines comprehensions into functions (PEP 709): their variables show up in the function's table
            if any(k.kind == "comp" and name in k.bound for k in scope.children):
                continue
            if sym.is_global() and grp[0] not in (res.module.id, "builtins"):
                return f"{name} in {tab.get_name()}: CPython says global, resolver says {grp}"
            if sym.is_local() and not sym.is_global() and grp[0] != scope.id:
                return f"{name} in {tab.get_name()}: CPython says local, resolver says {grp}"
            if sym.is_free() and (grp[0] in (scope.id, res.module.id, "builtins")):
                return f"{name} in {tab.get_name()}: CPython says free, resolver says {grp}"
        kids = [k for k in tab.get_children()]
        mine = scope.children
        if len(kids) != len(mine):
            return None          # annotation scopes and the like: not comparable child by child
        for k, m in zip(kids, mine):
            err = walk(k, m)
            if err:
                return err
        return None
    return walk(top, res.module)


def ident_tokens(text: str) -> List[Tuple[int, int, str]]:
    out = []
    for tok in tokenize.generate_tokens(io.StringIO(text).readline):
        if tok.type == tokenize.NAME and not keyword.iskeyword(tok.string):
            out.append((tok.start[0], tok.start[1], tok.string))
    return out


def same_partition(before: List[Tuple[str, str]], after: List[Tuple[str, str]]):
    """None if the two group sequences describe the same partition, else ('merge'|'split', i, j)."""
    first_b, first_a = {}, {}
    for i, (b, a) in enumerate(zip(before, after)):
        jb, ja = first_b.setdefault(b, i), first_a.setdefault(a, i)
        if jb != ja:
            return ("split" if jb < ja or before[ja] != b else "merge", min(jb, ja), i) if before[jb] == b and after[jb] != a else ("merge", ja, i)
    return None


RULES = ["fixes.align_variable_names_with_convention"]


def _chunk(recs):
    mods = import_pyrefact()
    st = {"programs": 0, "rule_changed": 0, "aligned": 0}
    machinery, bad, programs = [], [], []
    for rec in recs:
        scn = BY_NAME[rec["scenario"]]
        text, pos = render(scn, rec["assign"])
        st["programs"] += 1
        try:
            res = Resolver(text)
        except SyntaxError as exc:
            machinery.append({"why": f"rendered program is not valid Python: {exc}", "source": text})
            continue
        if scn.get("exec_only"):
            # attribute access through an object whose class the harness's resolver does not follow (a class reached through
            # another class or through a call): Rename.tla gives the partition, execution is the oracle
            programs.append((rec, text))
            continue
        by_pos = {(ln, col): grp for ln, col, _, grp in res.occ}
        mine = [by_pos.get(p) for p in pos]
        if None in mine:
            machinery.append({"why": "the resolver does not see a slot occurrence", "source": text, "slots": pos, "occ": res.occ})
            continue
        spec = [tuple(g) for g in rec["groups"]]
        if same_partition(spec, mine) is not None or same_partition(mine, spec) is not None:
            machinery.append({"why": "the partition of Rename.tla differs from the resolver's", "source": text, "spec": spec, "resolver": mine})
            continue
        err = symtable_agrees(text, res)
        if err:
            machinery.append({"why": "resolver disagrees with CPython's symtable: " + err, "source": text})
            continue
        programs.append((rec, text))
        toks_b = ident_tokens(text)
        groups_b = {(ln, col): grp for ln, col, _, grp in res.occ}
        for rname in RULES:
            m, f = rname.split(".")
            try:
                out = getattr(mods[m], f)(text)
            except Exception as exc:  # noqa: BLE001
                bad.append({"rule": rname, "source": text, "what": f"{rname} raised {type(exc).__name__}: {exc}", "case": rec})
                continue
            if out == text:
                continue
            st["rule_changed"] += 1
            try:
                toks_a = ident_tokens(out)
                res_a = Resolver(out)
            except (SyntaxError, tokenize.TokenError, IndentationError):
                continue        # C03
            if len(toks_a) != len(toks_b):
                continue        # not a pure renaming: left to the execution oracle
            st["aligned"] += 1
            groups_a = {(ln, col): grp for ln, col, _, grp in res_a.occ}
            seq_b, seq_a, idx = [], [], []
            for k, (tb, ta) in enumerate(zip(toks_b, toks_a)):
                gb, ga = groups_b.get(tb[:2]), groups_a.get(ta[:2])
                if gb is None or ga is None:
                    continue
                # group keys name scopes by position in the tree; the tree is the same, identifiers may differ
                seq_b.append(gb)
                seq_a.append(ga)
                idx.append(k)
            verdict = same_partition(seq_b, seq_a)
            new_ids = sorted({ta[2] for tb, ta in zip(toks_b, toks_a) if ta[2] != tb[2]})
            invalid = [n for n in new_ids if not n.isidentifier() or keyword.iskeyword(n)]
            if verdict is not None:
                kind, i, j = verdict
                ti, tj = toks_b[idx[i]], toks_b[idx[j]]
                # which occurrence was left behind, and what kind of occurrence is it (for the known-findings signatures)
                left = [k for k in (idx[i], idx[j]) if toks_a[k][2] == toks_b[k][2]]
                leftover = "none"
                if kind == "split" and left:
                    ln, col = toks_a[left[0]][:2]
                    parents = {}
                    for par in ast.walk(res_a.tree):
                        for ch in ast.iter_child_nodes(par):
                            parents[id(ch)] = par
                    for nd in ast.walk(res_a.tree):
                        if isinstance(nd, ast.Name) and (nd.lineno, nd.col_offset) == (ln, col):
                            par = parents.get(id(nd))
                            while isinstance(par, (ast.Tuple, ast.List, ast.Starred)):
                                par = parents.get(id(par))
                            leftover = (type(par).__name__ + "-target") if isinstance(nd.ctx, ast.Store) else "load"
                            break
                what = (f"{rname}: capture - the occurrences {ti[2]!r} (line {ti[0]}) and {tj[2]!r} (line {tj[0]}) belonged to different bindings and "
                        f"belong to the same one after renaming ({toks_a[idx[i]][2]!r} / {toks_a[idx[j]][2]!r})" if kind == "merge" else
                        f"{rname}: inconsistent renaming - the occurrences {ti[2]!r} (line {ti[0]}) and {tj[2]!r} (line {tj[0]}) belonged to one binding and "
                        f"no longer do ({toks_a[idx[i]][2]!r} / {toks_a[idx[j]][2]!r})")
                bad.append({"rule": rname, "source": text, "output": out, "what": what, "case": rec, "kind": kind, "leftover": leftover})
            elif invalid:
                bad.append({"rule": rname, "source": text, "output": out, "what": f"{rname}: new identifiers {invalid} are not usable identifiers", "case": rec,
                            "kind": "invalid"})
    return st, machinery, bad, programs


def directed_programs():
    """Programs in which a name the tool would GENERATE is taken already (text the tool formatted before, extended by hand)."""
    out = []
    # (a constant that is no string gets a numbered name: pyrefact_overused_constant_<i>)
    first, second = ("alpha", "beta", "gamma", "delta"), ("north", "east", "south", "west", "up")
    for taken in ("PYREFACT_OVERUSED_CONSTANT_0", "pyrefact_overused_constant_0", "Pyrefact_Overused_Constant_0"):
        uses_a = "".join(f"def a{i}(v):\n    return (v,) + {taken}\n\n\n" for i in range(2))
        uses_b = "".join(f"def b{i}(v):\n    return (v,) + {second!r}\n\n\n" for i in range(5))
        calls = "print(" + ", ".join([f"a{i}('x')" for i in range(2)] + [f"b{i}('y')" for i in range(5)]) + ")\n"
        out.append(({"scenario": "generated_name_taken", "assign": {"X": taken}}, f"{taken} = {first!r}\n\n\n" + uses_a + uses_b + calls))
        inner = "".join(f"    print((v,) + {second!r})\n" for i in range(5))
        out.append(({"scenario": "generated_name_taken_local", "assign": {"X": taken}},
                    f"def run(v):\n    {taken.lower()} = {first!r}\n{inner}    return (v,) + {taken.lower()}\n\n\nprint(run('z'))\n"))
    return out


def _format_chunk(items):
    mods = import_pyrefact()
    out = []
    for rec, text in items:
        res = {}
        for label, fn in (("fixes.align_variable_names_with_convention", mods["fixes"].align_variable_names_with_convention),
                          ("fixes.remove_duplicate_functions", lambda s: mods["fixes"].remove_duplicate_functions(s, preserve=set())),
                          ("fixes.undefine_unused_variables", lambda s: mods["fixes"].undefine_unused_variables(s, preserve=set())),
                          ("fixes.delete_pointless_statements", mods["fixes"].delete_pointless_statements),
                          ("abstractions.overused_constant", lambda s: mods["abstractions"].overused_constant(s, root_is_static=True)),
                          ("format_code", lambda s: mods["main"].format_code(s, safe=True))):
            try:
                res[label] = fn(text)
            except Exception as exc:  # noqa: BLE001
                res[label] = f"__raised__ {type(exc).__name__}: {exc}"
        out.append((rec, text, res))
    return out


def main(argv=None) -> int:
    rep = Report(PROP, "model_checking")
    import_pyrefact()
    t = tier()
    rng = random.Random(seed())
    # this check describes a failure more precisely than the pipeline checks do: only signatures that use its own
    # features (leftover-*, scenario-*, kind-*) apply here, so that a recorded finding cannot hide a neighbouring defect
    known = []
    for e in rep.known_entries():
        cls = e.get("class", {})
        alts = [c for c in (cls if isinstance(cls, list) else [cls])
                if any(f.startswith(("leftover-", "scenario-", "kind-")) for f in c.get("features", []))]
        if alts:
            known.append(dict(e, **{"class": alts}))
    pool = POOL if t != "quick" else POOL
    mc = "\n".join(["---- MODULE RenameMC ----", "EXTENDS Rename", "MC_Scenarios == " + tla_scenarios(), "====", ""])
    cfg = "\n".join(["CONSTANTS", "  Scenarios <- MC_Scenarios", "  Pool = {" + ", ".join(f'"{p}"' for p in pool) + "}",
                     "  Builtins = {" + ", ".join(f'"{p}"' for p in BUILTINS) + "}", "INIT Init", "NEXT Next", "INVARIANT StoresBindLocally",
                     "INVARIANT Dump", "CHECK_DEADLOCK FALSE", ""])
    res = run_tlc("RenameMC", cfg, generated_files={"RenameMC.tla": mc}, timeout_s=3000, keep_stdout=False, heap_gb=12)
    rep.add_tlc(res, "Rename")
    if res.violated:
        raise MachineryError(f"Rename.tla: {res.violated} fails")
    recs = [r for r in res.records if not (BY_NAME[r["scenario"]]["distinct"] and len(set(r["assign"].values())) < len(r["assign"]))]
    if not recs:
        raise MachineryError("Rename: no cases")
    if t == "quick" and len(recs) > 4000:
        recs = rng.sample(recs, 4000)
        rep.coverage["cases_sampled"] = True
    n = 16
    stats: Dict[str, int] = {}
    programs = []
    with mp.get_context("fork").Pool(n) as pool_:
        parts = pool_.map(_chunk, [recs[i::n] for i in range(n)])
    for st, machinery, bad, progs in parts:
        for k, v in st.items():
            stats[k] = stats.get(k, 0) + v
        if machinery:
            raise MachineryError(f"Rename.tla / resolver / CPython disagree: {json.dumps(machinery[:2], default=str)[:1800]}")
        programs += progs
        for case in bad:
            sh = blame.shape(case["source"], case.get("output") or case["source"])
            sh = dict(sh, features=list(sh.get("features", [])) + [f"scenario-{case['case']['scenario']}", f"kind-{case.get('kind')}",
                                                                    f"leftover-{case.get('leftover', 'none')}"])
            kf = next((e["id"] for e in known if blame.matches_signature(e, case["rule"], sh, case["source"])), None)
            if kf:
                rep.known(kf, {"source": case["source"], "output": case.get("output")})
            else:
                rep.violation(case["what"], case)
    # ---- execution as the second oracle (also for format_code, whose output is not token-aligned)
    programs += directed_programs()
    with mp.get_context("fork").Pool(n) as pool_:
        outs = [x for part in pool_.map(_format_chunk, [programs[i::n] for i in range(n)]) for x in part]
    runner = execbox.default_runner()
    texts = sorted({text for _, text, _ in outs} | {o for _, _, r in outs for o in r.values() if not o.startswith("__raised__")})
    obs = dict(zip(texts, runner.observe_many(texts)))
    n_exec = 0
    for rec, text, results in outs:
        for label, out in results.items():
            if out.startswith("__raised__"):
                if label == "format_code":
                    rep.coverage["format_code_raised_c04"] = rep.coverage.get("format_code_raised_c04", 0) + 1     # C04's business
                else:
                    rep.violation(f"{label} raised on a Rename.tla program: {out[11:]}", {"source": text, "case": rec})
                continue
            if out == text:
                continue
            n_exec += 1
            if obs[text][0] != "ok" or obs[out] == obs[text]:
                continue
            stage = label
            sh = blame.shape(text, out)
            if label == "format_code":
                continue            # semantic preservation of the whole pipeline is C01's business; here: the renaming rule
            sh = dict(sh, features=list(sh.get("features", [])) + [f"scenario-{rec['scenario']}", "kind-exec"])
            kf = next((e["id"] for e in known if blame.matches_signature(e, stage, sh, text)), None)
            case = {"rule": label, "source": text, "output": out, "obs_before": obs[text], "obs_after": obs[out], "case": rec}
            if kf:
                rep.known(kf, {"source": text, "output": out})
            else:
                rep.violation(f"{label}: the program behaves differently after renaming: {obs[text]} -> {obs[out]}", case)
    rep.sample({"scenario": recs[0]["scenario"], "assign": recs[0]["assign"], "source": render(BY_NAME[recs[0]["scenario"]], recs[0]["assign"])[0],
                "groups": recs[0]["groups"]})
    rep.coverage["evaluations"] = stats.get("programs", 0) + n_exec
    rep.coverage["distinct_nontrivial"] = stats.get("rule_changed", 0)
    rep.coverage["traces_validated_against_impl"] = stats.get("programs", 0)
    rep.coverage["detail"] = dict(stats, executed_pairs=n_exec)
    rep.coverage["rule"] = (f"{len(SCENARIOS)} scenarios (binding forms: assignment, augmented, tuple, for, with-as, import-as, def / class names, parameters and "
                            "keyword uses, global / nonlocal, closures, class attributes via self / class, comprehension targets) x every assignment of "
                            f"{len(POOL)} adversarial identifiers to their slots; partition by binding before / after the renaming rule (token aligned) and "
                            "execution before / after; non-trivial = the rule changed the text")
    rep.assumptions += ["the resolver used on rule outputs is validated against Rename.tla and CPython's symtable on every input program"]
    return rep.finish()


if __name__ == "__main__":
    sys.exit(main())
