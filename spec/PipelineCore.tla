---------------------------- MODULE PipelineCore ----------------------------
(***************************************************************************)
(* Control structure of main.format_code after normalisation: the single    *)
(* run chain, the fixpoint loop over the multi-run rule sequence, the        *)
(* abstraction stages, the optional second loop and the post stages.         *)
(* Documents are opaque (abstract documents in the design model Pipeline,    *)
(* text digests in the trace specification PipelineTrace); every action      *)
(* that changes the document takes the new document as a parameter so that   *)
(* both specifications share the same actions.                              *)
(*                                                                         *)
(*   content_history = {source}                                            *)
(*   for _ in range(MAX_FILE_PASSES):                                       *)
(*       source = _multi_run_fixes(source)        \* NRules rule steps      *)
(*       if source in content_history: break                               *)
(*       content_history.add(source)                                       *)
(*   source = overused_constant(source); source = simplify_assign_...(...)  *)
(*   if source not in content_history: <the same loop again>                *)
(***************************************************************************)
EXTENDS Integers, Sequences, FiniteSets

CONSTANTS
    NRules,       \* number of rule calls in _multi_run_fixes
    MaxPasses     \* MAX_FILE_PASSES

VARIABLES
    pc,       \* "single" | "loop" | "pass" | "abs" | "post" | "done"
    doc,      \* current document
    hist,     \* content_history
    npass,    \* passes made in the current loop
    ri,       \* index of the next rule of the current pass
    loopNo,   \* 1 or 2
    exitWhy   \* why the last loop was left: "none" | "repeat" | "budget" | "skipped"

corevars == <<pc, doc, hist, npass, ri, loopNo, exitWhy>>

CoreInit(d) ==
    /\ pc = "single" /\ doc = d /\ hist = {} /\ npass = 0 /\ ri = 1 /\ loopNo = 1 /\ exitWhy = "none"

\* single_run_fixes(source); content_history = {source}
SingleRun(d) ==
    /\ pc = "single"
    /\ doc' = d
    /\ hist' = {d}
    /\ pc' = "loop" /\ npass' = 0 /\ ri' = 1
    /\ UNCHANGED <<loopNo, exitWhy>>

\* the for statement starts another iteration
PassBegin ==
    /\ pc = "loop"
    /\ npass < MaxPasses
    /\ pc' = "pass" /\ ri' = 1
    /\ UNCHANGED <<doc, hist, npass, loopNo, exitWhy>>

\* one rule of _multi_run_fixes
RuleStep(d) ==
    /\ pc = "pass"
    /\ ri <= NRules
    /\ doc' = d
    /\ ri' = ri + 1
    /\ UNCHANGED <<pc, hist, npass, loopNo, exitWhy>>

\* n consecutive rules that leave the document unchanged
IdleRules(n) ==
    /\ pc = "pass"
    /\ n >= 1 /\ ri + n - 1 <= NRules
    /\ ri' = ri + n
    /\ UNCHANGED <<pc, doc, hist, npass, loopNo, exitWhy>>

\* `if source in content_history: break` / `content_history.add(source)`
PassEnd ==
    /\ pc = "pass"
    /\ ri = NRules + 1
    /\ npass' = npass + 1
    /\ IF doc \in hist
         THEN /\ pc' = "abs" /\ exitWhy' = "repeat" /\ UNCHANGED hist
         ELSE /\ hist' = hist \cup {doc}
              /\ IF npass + 1 = MaxPasses THEN pc' = "abs" /\ exitWhy' = "budget"
                                          ELSE pc' = "loop" /\ UNCHANGED exitWhy
    /\ UNCHANGED <<doc, ri, loopNo>>

\* overused_constant + simplify_assign_immediate_return, then the guard of the second loop
Abstractions(d) ==
    /\ pc = "abs" /\ loopNo = 1
    /\ doc' = d
    /\ IF d \notin hist
         THEN pc' = "loop" /\ loopNo' = 2 /\ npass' = 0 /\ ri' = 1 /\ UNCHANGED exitWhy
         ELSE pc' = "post" /\ UNCHANGED <<loopNo, npass, ri, exitWhy>>
    /\ UNCHANGED hist

\* after the second loop there are no further abstraction stages
SecondLoopDone ==
    /\ pc = "abs" /\ loopNo = 2
    /\ pc' = "post"
    /\ UNCHANGED <<doc, hist, npass, ri, loopNo, exitWhy>>

\* renaming, import clean-up, sorting, line wrapping, whitespace (one composite step)
Post(d) ==
    /\ pc = "post"
    /\ doc' = d
    /\ pc' = "done"
    /\ UNCHANGED <<hist, npass, ri, loopNo, exitWhy>>

-----------------------------------------------------------------------------
(* Properties of the control structure (C04 / C09).                        *)
Budget == npass <= MaxPasses

\* the loop is left exactly on the first repeated document, or when the budget is used up
ExitJustified ==
    (pc \in {"abs", "post", "done"} /\ exitWhy = "repeat") => doc \in hist \/ pc \in {"post", "done"}

\* history only grows, and only by documents that were current at the end of a pass
HistoryMonotone == [][hist \subseteq hist']_corevars
=============================================================================
