------------------------------ MODULE Preserve ------------------------------
(***************************************************************************)
(* Preserved names (C08).  A library module as in Surface.tla, a preserve    *)
(* set P (indices of its definitions) and the way a client module refers to  *)
(* the preserved definitions:                                               *)
(*   "direct"      no client: format_code(lib, preserve = names of P)        *)
(*   "fromimport"  client:  from lib import <name>                           *)
(*   "modattr"     client:  import lib       ... lib.<name>                  *)
(*   "alias"       client:  import lib as l  ... l.<name>                    *)
(*   "fromalias"   client:  from lib import <name> as c_<name>               *)
(*   "star"        client:  from lib import *   ... <name>                   *)
(*   "factory"     client:  from lib import make_x ... make_x().<member>     *)
(*                 (the class itself is never named outside the library)     *)
(* For the client forms the preserve set is what the tool itself derives     *)
(* from the client file (format_files(.., preserved_filenames=[client]) /    *)
(* `pyrefact lib.py --preserve client.py`).                                  *)
(*                                                                         *)
(* MustSurvive = P: each of these definitions has to be bound under the same *)
(* name in the formatted library, so the client keeps working unchanged.     *)
(* Everything else may be deleted or renamed (and the generator makes sure    *)
(* there is something at risk, so the deleting / renaming rules do fire).     *)
(***************************************************************************)
EXTENDS Surface

CONSTANTS Forms
VARIABLES pres, form
pvars == <<defs, flag, pres, form>>

DefSeqs == UNION {[1..n -> Def] : n \in 1..MaxDefs}
InitP == /\ defs \in DefSeqs
         /\ flag \in Flags
         /\ pres \in (SUBSET (1..Len(defs))) \ {{}}
         /\ form \in Forms
NextP == UNCHANGED pvars

MustSurvive == MustSurvivePreserve(pres)
\* the preserve set matters: some preserved definition would otherwise be deleted or renamed
Relevant == MustSurvive \cap AtRisk # {}
\* only the preserved definitions are promised anything
PromiseIsExactlyP == MustSurvive = pres

DumpP == PrintT(<<"@@J", ToJson([defs |-> defs, dup |-> flag[1], deco |-> flag[2], pres |-> pres, form |-> form,
                                  relevant |-> Relevant])>>)
=============================================================================
