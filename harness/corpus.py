"""Input corpora: the repository's own example snippets and standard-library files."""
from __future__ import annotations

import ast
import functools
import os
import sysconfig
import textwrap
from pathlib import Path
from typing import List, Tuple

from common import REPO


@functools.lru_cache(maxsize=1)
def repo_snippets() -> Tuple[Tuple[str, str], ...]:
    """(origin, text) for every multi-line string constant in /repo/tests that is valid Python.

    These are the hand-written before/after examples of the repository's (un-pinned)
    example scripts: each rule fires on some of them and must not fire on others.
    """
    out, seen = [], set()
    for path in sorted((REPO / "tests").rglob("*.py")):
        try:
            tree = ast.parse(path.read_text())
        except (SyntaxError, UnicodeDecodeError):
            continue
        for node in ast.walk(tree):
            if isinstance(node, ast.Constant) and isinstance(node.value, str) and "\n" in node.value:
                text = textwrap.dedent(node.value).lstrip("\n")
                if not text.strip() or text in seen:
                    continue
                try:
                    ast.parse(text)
                except (SyntaxError, ValueError):
                    continue
                seen.add(text)
                out.append((f"{path.relative_to(REPO)}:{node.lineno}", text))
    return tuple(out)


@functools.lru_cache(maxsize=1)
def stdlib_files(max_lines: int = 150, min_lines: int = 5) -> Tuple[Tuple[str, str], ...]:
    """Small standard-library modules as a real-world corpus."""
    root = Path(sysconfig.get_paths()["stdlib"])
    out = []
    for path in sorted(root.rglob("*.py")):
        rel = path.relative_to(root)
        if any(part in ("test", "tests", "idlelib", "lib2to3", "site-packages", "turtledemo", "__pycache__")
               for part in rel.parts):
            continue
        try:
            text = path.read_text(encoding="utf-8")
            ast.parse(text)
        except (SyntaxError, UnicodeDecodeError, ValueError, OSError):
            continue
        n = text.count("\n")
        if min_lines <= n <= max_lines:
            out.append((f"stdlib/{rel}", text))
    return tuple(out)
