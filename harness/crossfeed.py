"""Programs of the other properties' TLA+ generators, as extra inputs for the pipeline-level checks (C04: totality).

Every generator spec already enumerates a space of adversarial programs for its own property; format_code has to be
total on all of them as well.  A seeded sample of each space is rendered here (identifier scenarios of Rename.tla,
statement shapes of Reach.tla, statement forms of Effects.tla, layouts of Geometry.tla, modules of Subst.tla,
clients of Imports.tla, libraries of Surface.tla, function pairs of Alpha.tla).
"""
from __future__ import annotations

import random
import sys
from pathlib import Path
from typing import List, Tuple

sys.path.insert(0, str(Path(__file__).resolve().parent / "checks"))


def inputs(rep, t: str, rng: random.Random, per_space: int) -> List[Tuple[str, str, dict]]:
    out: List[Tuple[str, str, dict]] = []

    def take(recs, n):
        recs = list(recs)
        return recs if len(recs) <= n else rng.sample(recs, n)

    # Rename.tla scenarios: no TLC needed to sample the space the spec enumerates (slots x pool)
    import c19
    for scn in c19.SCENARIOS:
        slots = sorted({o[0] for o in scn["occ"]})
        for _ in range(max(1, per_space // len(c19.SCENARIOS))):
            assign = {s: rng.choice(c19.POOL) for s in slots}
            if scn["distinct"] and len(set(assign.values())) < len(assign):
                continue
            out.append((f"rename:{scn['name']}:{'/'.join(assign[s] for s in slots)}", c19.render(scn, assign)[0], {}))
    # Effects.tla statement forms
    import c16
    forms, ctxs, callees = list(c16.FORM), [c for c in c16.CTX if c != "walrus"], list(c16.CALLEE)
    for _ in range(per_space):
        f, c, k = rng.choice(forms), rng.choice(ctxs), rng.choice(callees)
        if f in ("del", "raise"):
            continue
        e = c16.CTX[c].format(c=c16.CALLEE[k])
        stmt = c16.FORM[f].format(e=e)
        text = (c16.PRELUDE + c16.EXTRA.get(k, "") + "def target():\n    xs = [1, 2]\n    nn = 1\n    dd = {}\n    obj = Obj()\n"
                + ("    gg = gen_fn()\n" if k == "next_user_gen" else "") + f"    {stmt}\n    return (xs, nn, dd, obj)\n")
        try:
            compile(text, "<x>", "exec")
        except SyntaxError:
            continue
        out.append((f"effects:{f}:{c}:{k}", text, {}))
    # Reach.tla shapes (python-side sampling of the grammar), as programs that run themselves under eight tapes
    for name, shape in c16.directed_shapes():
        if c16.terminates(shape):
            out.append((f"reach:directed:{name}", c16.reach_program(shape), {}))
    got = 0
    for _ in range(per_space * 20):
        if got >= max(40, per_space // 2):
            break
        shape = c16.sample_shape(rng)
        try:
            if not c16.terminates(shape):
                continue
        except SyntaxError:
            continue
        got += 1
        out.append((f"reach:{len(out)}", c16.reach_program(shape), {}))
    # Surface.tla libraries (python-side sampling of the record space)
    import render_surface
    kinds = ["func", "async", "class", "var", "annvar", "augvar", "tuple", "chain", "starred", "listtarget", "method", "selfless", "static",
             "classmeth", "classattr", "initclass"]
    for _ in range(per_space):
        defs = [{"kind": rng.choice(kinds), "style": rng.choice(["snake", "camel", "upper", "private", "pascal"]), "used": rng.random() < 0.5}
                for _ in range(rng.choice((1, 2, 3)))]
        case = {"defs": defs, "dup": rng.random() < 0.3, "deco": rng.random() < 0.3}
        text, _, _ = render_surface.render(case)
        out.append((f"surface:{len(out)}", text, {"safe": rng.random() < 0.3}))
    # Alpha.tla function pairs
    import alpha
    names, callees_, ops = ["a", "b", "k"], ["abs", "neg1"], ["+", "-"]

    def atom():
        return {"k": "var", "n": rng.choice(names)}

    def e1():
        r = rng.random()
        if r < 0.3:
            return atom()
        if r < 0.7:
            return {"k": "bin", "op": rng.choice(ops), "l": atom(), "r": atom()}
        return {"k": "call", "f": rng.choice(callees_), "a": atom()}
    for _ in range(per_space // 2):
        ps = rng.choice([["a"], ["b"], ["a", "b"], ["b", "a"]])
        body = e1()
        rec = {"f": {"params": ps, "body": body}, "g": {"params": rng.choice([p for p in (["a"], ["b"], ["a", "b"], ["b", "a"]) if len(p) == len(ps)]),
                                                    "body": e1() if rng.random() < 0.5 else body}}
        out.append((f"alpha:{len(out)}", alpha.render(rec), {}))
    # Subst.tla modules and Geometry.tla layouts are plain texts too
    import c14
    kinds14 = ["m", "mm", "am", "arg", "neg", "att", "two", "ml", "blk", "blk2", "ig", "igml", "igend", "n"]
    for _ in range(per_space // 2):
        case = {"stmts": [rng.choice(kinds14) for _ in range(rng.choice((1, 2, 3)))], "bind": rng.choice(["atom", "sum"])}
        out.append((f"subst:{len(out)}", c14.render(case)[0], {}))
    import c13
    for _ in range(per_space // 2):
        eol = rng.choice(["lf", "crlf", "cr"])
        lay = {"fill": [{"sp": rng.choice(["none", "u2", "u4", "ff", "ls", "nel", "ffline"]), "eol": rng.choice(["lf", "crlf", "cr"])}
                        for _ in range(rng.choice((0, 1, 2)))],
               "pre": rng.choice(["absent", "none", "u2", "u4", "ff", "ls"]), "indent": rng.choice((0, 4)),
               "node": rng.choice(["call", "ucall", "multi", "paren", "deco", "decosp", "decoparen", "decocall", "deco2", "cls"]),
               "trail": False, "eol": eol, "feol": rng.choice([eol, "none"])}
        if lay["node"] in ("deco", "decosp", "decoparen", "decocall", "deco2", "cls"):
            lay["pre"] = "absent"
        out.append((f"geometry:{len(out)}", c13.render(lay)[0], {}))
    # BoolAlg.tla conditions and Ranges.tla comprehensions, inside C17's program templates, over a box of values
    import c17
    ops = ["<", "<=", ">", ">=", "==", "!="]

    def term():
        return {"v": rng.choice(["x", "y"])} if rng.random() < 0.6 else {"c": rng.choice([0, 1, 2])}

    def atom17():
        l, r = term(), term()
        if "c" in l and "c" in r:
            l = {"v": "x"}
        return {"k": "cmp", "l": l, "op": rng.choice(ops), "r": r}

    def chain17():
        return {"k": "chain", "t1": {"c": rng.choice([0, 1])}, "o1": rng.choice(ops[:4]), "t2": {"v": rng.choice(["x", "y"])},
                "o2": rng.choice(ops[:4]), "t3": {"c": rng.choice([1, 2, 3])}}

    def formula():
        r = rng.random()
        if r < 0.25:
            return chain17()
        if r < 0.35:
            return {"k": "not", "a": chain17()}
        if r < 0.5:
            return {"k": "not", "a": atom17()}
        if r < 0.75:
            return {"k": rng.choice(["and", "or"]), "args": [atom17(), rng.choice([atom17, chain17])()]}
        return atom17()
    for _ in range(per_space):
        tname = rng.choice(list(c17.TEMPLATES))
        body = c17.TEMPLATES[tname][0].replace("{E}", c17.render(formula()))
        prog = "for x in range(-1, 4):\n    for y in (0, 2):\n" + "".join("        " + ln + "\n" for ln in body.splitlines()) + "        print(x, y, r)\n"
        if tname == "return":
            prog = body.replace("r = g(x, y)\n", "") + "for x in range(-1, 4):\n    for y in (0, 2):\n        print(x, y, g(x, y))\n"
        out.append((f"boolalg:{tname}:{len(out)}", prog, {}))
    # every pair of comparisons of one variable with constants, equal or not, under both connectives (BoolAlg.tla's two-atom
    # formulas over one variable, exhaustively: the values at and around the constants decide)
    mirror = {"<": ">", "<=": ">=", ">": "<", ">=": "<=", "==": "==", "!=": "!="}
    for conn in ("and", "or"):
        for o1 in ops:
            for o2 in ops:
                cells = [f"x {o1} {c1} {conn} x {o2} {c2}" for c1 in (0, 1) for c2 in (0, 1)]
                cells += [f"{c1} {mirror[o1]} x {conn} x {o2} {c2}" for c1, c2 in ((1, 1), (0, 1))]
                out.append((f"boolalg:pairs:{conn}:{o1}:{o2}", "for x in range(-1, 4):\n    print(x, " + ", ".join(cells) + ")\n", {}))
    for _ in range(per_space // 2):
        parts = [f"x {rng.choice(ops)} {rng.choice([0, 1, 3, 7])}" for _ in range(3)]
        cond = rng.choice([f"{parts[0]} and {parts[1]}", f"{parts[0]} or {parts[1]}", f"{parts[0]} and ({parts[1]} or {parts[2]})",
                           f"{parts[0]} or {parts[1]} and {parts[2]}", parts[0]])
        a, b = rng.choice([-1, 0, 2]), rng.choice([3, 4, 10])
        out.append((f"ranges:{len(out)}", f"r = [x for x in range({a}, {b}) if {cond}]\nprint(r)\nprint(sum(range({a}, {b})))\n", {}))
    # Imports.tla clients (without their tree: unresolvable imports are part of the input space of a formatter)
    import c18
    for _ in range(per_space // 2):
        stmts = rng.sample(list(c18.STD_STMT), rng.choice((1, 2, 3)))
        place = rng.choice(["top", "infunc", "mixed"] + (["branch_if", "branch_else", "try_ok"] if len(stmts) == 2 else []))
        ran = stmts[:1] if place in ("branch_if", "try_ok") else stmts[1:] if place == "branch_else" else stmts
        rec = {"stmts": stmts, "place": place, "resolve": [[i, None] for i in ran]}
        out.append((f"imports-std:{len(out)}", c18.std_client(rec), {}))
        out.append((f"imports-client:{len(out)}", f"from {rng.choice(['mid', 'pkg', 'pkg.lib', 'nowhere'])} import {rng.choice(['*', 'alpha', 'alpha as al, beta'])}\n\n\n"
                    "def use():\n    return [alpha]\n\n\nprint(use())\n", {}))
    # Dataflow.tla programs (python-side sampling of the grammar the spec enumerates), as a function and as module-level code
    import dataflow

    def leaf(inloop: bool):
        kinds = ["asg", "asg", "aug", "use"] + (["break", "continue"] if inloop else [])
        k = rng.choice(kinds)
        if k == "asg":
            return {"k": "asg", "w": rng.choice("ab"), "r": rng.choice([[], ["a"], ["b"]])}
        if k == "aug":
            return {"k": "aug", "w": rng.choice("ab")}
        if k == "use":
            return {"k": "use", "r": [rng.choice("ab")]}
        return {"k": k}

    def block(depth: int, inloop: bool):
        stmts = []
        for _ in range(rng.choice((1, 1, 2))):
            if depth > 0 and rng.random() < 0.6:
                k = rng.choice(["if", "while", "for", "with"])
                s = {"k": k, "r": rng.choice([[], ["a"], ["b"]]), "body": block(depth - 1, inloop or k in ("while", "for")),
                     "orelse": [leaf(inloop)] if k != "with" and rng.random() < 0.3 else []}
                if k in ("for", "with"):
                    s["w"] = rng.choice("ab")
                stmts.append(s)
            else:
                stmts.append(leaf(inloop))
        while len(stmts) > 1 and stmts[0]["k"] in ("break", "continue"):
            stmts.pop(0)
        return stmts
    for _ in range(per_space):
        rec = {"prog": block(2, False) + [{"k": "use", "r": [rng.choice("ab")]}]}
        text = dataflow.program(rec) if rng.random() < 0.5 else dataflow.with_vector(dataflow.program_module(rec), rng.randrange(len(dataflow.MODULE_VECTORS)))
        try:
            compile(text, "<x>", "exec")
        except SyntaxError:
            continue
        out.append((f"dataflow:{len(out)}", text, {}))
    return out
