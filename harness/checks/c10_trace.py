"""Binding B for C10: validate recorded calls of the real scheduler against SchedulerTrace.tla."""
from __future__ import annotations

import json
import multiprocessing as mp
import os
import random
from typing import List

import corpus
import hooks
from common import Report, digest
from tlc import MachineryError, run_tlc


def _record_chunk(args):
    texts, = args
    from common import import_pyrefact
    mods = import_pyrefact()
    main = mods["main"]
    events = []
    with hooks.scheduler_recording(mods) as rec:
        for origin, text in texts:
            n0 = len(rec.events)
            try:
                main.format_code(text)
            except BaseException as exc:  # crashes are C04's business, not C10's
                if isinstance(exc, KeyboardInterrupt):
                    raise
            for e in rec.events[n0:]:
                e["origin"] = origin
        events = rec.events
    # keep only informative events
    keep = []
    for e in events:
        if e["kind"] == "schedule" and not e["yields"]:
            continue
        if e["kind"] == "apply" and e["n"] == 0:
            continue
        keep.append(e)
    return keep


def record_real_events(texts, procs=16) -> List[dict]:
    texts = list(texts)
    chunks = [texts[i::procs] for i in range(procs)]
    chunks = [c for c in chunks if c]
    ctx = mp.get_context("fork")
    with ctx.Pool(len(chunks)) as pool:
        parts = pool.map(_record_chunk, [(c,) for c in chunks])
    return [e for part in parts for e in part]


def validate_events(rep: Report, events: List[dict], label: str) -> int:
    errors = [e for e in events if e["kind"] == "error"]
    if errors:
        raise MachineryError(f"scheduler recorder failed: {errors[0]['error']}")
    # dedupe identical events (same yields on the same text come back in every pass)
    uniq = {}
    for e in events:
        key = digest({k: v for k, v in e.items() if k != "origin"})
        uniq.setdefault(key, e)
    events = list(uniq.values())
    if not events:
        return 0
    cfg = "\n".join([
        "CONSTANTS", "  NUnits = 0", "  Lines = {}", "  RangeSet = {}", "  Payloads = {}", "  Brk = 999999",
        "  ExplicitTxns = {}", "  IgnoreSets = {}", "  MaxYields = 0", "  NGroups = 1", "  MaxIter = 5", "  Dedent = 0", "  WsUnits = {}", "  Forbidden = {}",
        "INIT TraceInit", "NEXT TraceNext", "CHECK_DEADLOCK FALSE", ""])
    done = 0
    B = 4000
    for off in range(0, len(events), B):
        batch = events[off: off + B]
        payload = json.dumps([{k: v for k, v in e.items() if k != "origin"} for e in batch])
        res = run_tlc("SchedulerTrace", cfg, generated_files={"trace.json": payload}, workers=1,
                      env_extra={"TRACE_FILE": "trace.json"}, timeout_s=1800, keep_stdout=False)
        rep.add_tlc(res, f"SchedulerTrace {label} [{off}:{off + len(batch)}]")
        verdicts = {r["i"]: r["verdict"] for r in res.records}
        if len(verdicts) != len(batch):
            raise MachineryError(f"SchedulerTrace consumed {len(verdicts)} of {len(batch)} events")
        for i, e in enumerate(batch, start=1):
            v = verdicts[i]
            done += 1
            if v == "ok":
                continue
            if v == "differs-but-admitted":
                rep.coverage["model_stale_cases"] = rep.coverage.get("model_stale_cases", 0) + 1
                continue
            if v == "IgnoredTouched":
                # C20's clause; C10 only permits dropping such transactions
                rep.coverage["ignored_touched_events"] = rep.coverage.get("ignored_touched_events", 0) + 1
                continue
            rep.violation(f"recorded {e['kind']} event breaks clause {v} (input {e.get('origin')})", e)
    return done


def validate_real_traces(rep: Report, mods, tier: str, rng: random.Random) -> int:
    snippets = list(corpus.repo_snippets())
    if tier == "quick":
        snippets = rng.sample(snippets, min(320, len(snippets)))
    events = record_real_events(snippets)
    n_sched = sum(1 for e in events if e["kind"] == "schedule")
    multi = sum(1 for e in events if e["kind"] == "schedule" and len(e["yields"]) > 1)
    rep.coverage["real_trace_inputs"] = len(snippets)
    rep.coverage["real_schedule_events_with_yields"] = n_sched
    rep.coverage["real_schedule_events_multi_yield"] = multi
    for e in events:
        if e["kind"] == "schedule" and len(e["yields"]) > 1 and len(e["scheduled"]) < len(e["yields"]):
            rep.sample({"real_scheduler_call": e}, limit=5)
            break
    if n_sched < 20:
        raise MachineryError(f"only {n_sched} scheduler calls with yields were recorded - hooks not effective")
    return validate_events(rep, events, "repo-snippets")
