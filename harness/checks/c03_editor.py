"""Editor.tla replayed into processing.alter_code (the direct editor).

Every (source, conflict-free edit set) of the specification is rendered, the edits are handed to the real alter_code as
AST nodes in the coordinates of the original text, and the statement structure of the result must be the one the
specification computed (Ideal = Impl there).  mode "order": the same edit set is handed over in several orders and
collection types; the result must not depend on that (C06).
"""
from __future__ import annotations

import ast
import multiprocessing as mp
import random
from typing import Dict, List

from common import Report, import_pyrefact
from tlc import MachineryError, run_tlc


def render_source(src: List[dict]) -> str:
    return "".join(("    " * ln["d"]) + (f"if c{i}:" if ln["h"] else f"s{i}()") + "\n" for i, ln in enumerate(src, start=1))


def render_output(src: List[dict], out: List[dict]) -> str:
    lines = []
    for o in out:
        pad = "    " * o["d"]
        if o["t"] == "s":
            lines.append(pad + (f"if c{o['n']}:" if src[o["n"] - 1]["h"] else f"s{o['n']}()"))
        elif o["t"] == "r":
            lines.append(pad + f"r{o['n']}()")
        elif o["t"] == "p":
            lines.append(pad + "pass")
        else:
            lines.append(pad + f"a{o['n']}_{o['k']}()")
    return "\n".join(lines) + "\n"


def build_edits(src: List[dict], text: str, edits: List[dict]):
    root = ast.parse(text)
    by_line = {}
    for node in ast.walk(root):
        if isinstance(node, ast.stmt):
            by_line.setdefault(node.lineno, node)
    additions, removals, replacements = [], [], {}
    for e in edits:
        if e["t"] == "del":
            removals.append(by_line[e["n"]])
        elif e["t"] == "rep":
            replacements[by_line[e["n"]]] = ast.parse(f"r{e['n']}()").body[0]
        else:
            new = ast.parse(f"a{e['n']}_{e['k']}()").body[0]
            depth = src[e["n"]]["d"] if e["n"] < len(src) else 0
            new.lineno, new.col_offset = e["n"], 4 * depth
            additions.append(new)
    return root, additions, removals, replacements


def dump(text: str):
    try:
        return ast.dump(ast.parse(text))
    except SyntaxError:
        return None


def _chunk(arg):
    recs, mode, seed_ = arg
    mods = import_pyrefact()
    processing = mods["processing"]
    rng = random.Random(seed_)
    st = {"editor_cases": 0, "editor_multi": 0}
    bad = []
    for rec in recs:
        src, edits = rec["src"], rec["edits"]
        text = render_source(src)
        want = render_output(src, rec["ideal"])
        if dump(text) is None:
            bad.append({"kind": "machinery", "error": f"rendered source does not parse: {text!r}"})
            continue
        if want.strip() and dump(want) is None:
            continue                      # the edit set itself leaves no valid module (e.g. nothing but a deeper addition): not a case
        st["editor_cases"] += 1
        st["editor_multi"] += len(edits) > 1
        case = {"source": text, "edits": edits, "expected": want}
        variants = []
        orders = [list(edits)] if mode == "conform" else [list(edits), list(reversed(edits)), rng.sample(edits, len(edits))]
        for k, order in enumerate(orders):
            root, adds, rems, reps = build_edits(src, text, order)
            if mode == "order" and k == 2:
                adds, rems = set(adds), set(rems)
            try:
                got = processing.alter_code(text, root, additions=adds, removals=rems, replacements=reps)
            except Exception as exc:  # noqa: BLE001
                bad.append(dict(case, kind="editor-raised", error=f"{type(exc).__name__}: {exc}"))
                variants = None
                break
            variants.append(got)
        if variants is None:
            continue
        if mode == "conform":
            got = variants[0]
            if not want.strip():
                ok = not got.strip() or dump(got) == dump("")
            else:
                ok = dump(got) == dump(want)
            if not ok:
                bad.append(dict(case, kind="editor-result", result=got, valid=dump(got) is not None))
        elif len({dump(v) or v for v in variants}) > 1:
            bad.append(dict(case, kind="editor-order", results=variants))
    return st, bad


def cases(rep: Report, t: str):
    cfg = "\n".join(["CONSTANTS", f"  MaxLines = 5", f"  MaxEdits = {2 if t == 'quick' else 3}", "  AddTags = {1, 2}",
                     "INIT Init", "NEXT Next", "INVARIANT SequentialIsSimultaneous", "INVARIANT KeyIsTotal", "INVARIANT Dump",
                     "CHECK_DEADLOCK FALSE", ""])
    res = run_tlc("Editor", cfg, timeout_s=3000, keep_stdout=False, heap_gb=12)
    rep.add_tlc(res, "Editor")
    if res.violated:
        rep.violation(f"Editor.tla: {res.violated} fails: applying the edits one after the other (bottom-up, original coordinates) is not the "
                      "same as applying them at once on some conflict-free edit set", {"trace": res.error_trace})
        return []
    if not res.records:
        raise MachineryError("Editor: no cases")
    hazards = sum(1 for r in res.records if not r["free"] and r["ideal"] != r["impl"])
    rep.coverage["editor_model"] = {"cases": len(res.records), "conflict_free": sum(1 for r in res.records if r["free"]),
                                    "conflicting_sets_on_which_sequential_application_goes_wrong": hazards}
    return [r for r in res.records if r["free"]]


def run(rep: Report, t: str, stats: Dict[str, int], mode: str = "conform", rng: random.Random = None) -> int:
    recs = cases(rep, t)
    if not recs:
        return 0
    rng = rng or random.Random(0)
    cap = 6000 if t == "quick" else 10 ** 9
    if len(recs) > cap:
        recs = rng.sample(recs, cap)
    if mode == "order":
        recs = [r for r in recs if len(r["edits"]) > 1]
    n = 16
    with mp.get_context("fork").Pool(n) as pool:
        parts = pool.map(_chunk, [(recs[i::n], mode, i) for i in range(n)])
    for st, bad in parts:
        for k, v in st.items():
            stats[k] = stats.get(k, 0) + v
        for case in bad:
            if case["kind"] == "machinery":
                raise MachineryError(case["error"])
            if case["kind"] == "editor-order":
                rep.violation(f"alter_code gives different results for one set of edits handed over in different orders / collection types: "
                              f"{case['source']!r} {case['edits']}", case)
            elif case["kind"] == "editor-raised":
                rep.violation(f"alter_code raised {case['error']} on {case['source']!r} with {case['edits']}", case)
            else:
                rep.violation(f"alter_code({case['source']!r}, {case['edits']}) gave {case['result']!r} "
                              f"({'valid Python, but not' if case['valid'] else 'NOT valid Python; expected'} {case['expected']!r})", case)
    return len(recs)
