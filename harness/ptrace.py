"""Building PipelineTrace.tla traces from recorded format_code runs and validating them with TLC."""
from __future__ import annotations

import ast
import inspect
import json
import multiprocessing as mp
import textwrap
from typing import Any, Callable, Dict, List, Optional, Sequence, Tuple

import pipeline
import proj
from tlc import MachineryError, run_tlc

# the layout-only stages of C11 (tab expansion, trailing whitespace, blank lines, line wrapping,
# import spacing, whitespace diff minimisation); dedent / indent are layout by construction
LAYOUT_STAGES = {
    "str.expandtabs", "rmspace.format_str", "fixes.fix_too_many_blank_lines", "fixes.fix_line_lengths",
    "fixes.fix_import_spacing", "minimize_whitespace", "textwrap.dedent", "textwrap.indent",
}


def code_constants(mods) -> Dict[str, Any]:
    cat = pipeline.rule_catalogue(mods)
    main = mods["main"]
    src = inspect.getsource(main.format_code)
    tree = ast.parse(textwrap.dedent(src))
    multi_lines = sorted(n.lineno for n in ast.walk(tree)
                         if isinstance(n, ast.Call) and isinstance(n.func, ast.Name) and n.func.id == "_multi_run_fixes")
    abs_stages = []
    if len(multi_lines) >= 2:
        for n in ast.walk(tree):
            if isinstance(n, ast.Call) and isinstance(n.func, ast.Attribute) and isinstance(n.func.value, ast.Name) \
                    and n.func.value.id in pipeline.RULE_MODULES and multi_lines[0] < n.lineno < multi_lines[1]:
                abs_stages.append(f"{n.func.value.id}.{n.func.attr}")
    return {"nrules": len(cat["multi"]), "multi": [f"{m}.{f}" for m, f in cat["multi"]],
            "maxpasses": int(getattr(main, "MAX_FILE_PASSES", 25)), "abs_stages": abs_stages}


class Interner:
    def __init__(self):
        self.ids: Dict[Any, int] = {}

    def __call__(self, x) -> int:
        return self.ids.setdefault(x, len(self.ids) + 1)


def build_trace(tid: int, source: str, opts: dict, result: Optional[str], error: Optional[str], events: List[dict],
                consts: dict, *, want: Sequence[str] = (), obs: Optional[Callable[[str], Any]] = None,
                preserve_names: Sequence[str] = ()) -> dict:
    """One PipelineTrace.tla trace. `want` selects the final projections: obs, surface, preserved, ignored."""
    dg, names, lines, obsid = Interner(), Interner(), Interner(), Interner()
    cur = source
    ev: List[dict] = []
    seen_single = False
    in_pass = False
    idle = 0
    after_loop = 0          # number of completed loops
    abs_done = False
    raised = None
    last_stage = None

    def text_event(kind, stage, before, after, **extra):
        e = {"k": kind, "s": stage, "b": dg(before), "a": dg(after), "valid": proj.valid(after),
             "ast": dg(("ast", proj.ast_digest(after))), "layout": stage in LAYOUT_STAGES, "n": 0}
        e.update(extra)
        return e

    def ctl_event(kind, n=0):
        return {"k": kind, "s": "", "b": dg(cur), "a": dg(cur), "valid": proj.valid(cur),
                "ast": dg(("ast", proj.ast_digest(cur))), "layout": False, "n": n}

    def pseudo_name():
        if not ev and last_stage is None:
            return "str.expandtabs"
        if not seen_single:
            return "textwrap.dedent"
        if last_stage == "rmspace.format_str":
            return "textwrap.indent"
        return "hidden"

    pending_abs = False      # a pass ended and the abstraction step has not been emitted yet
    saw_abs_stage = False    # an abstraction stage ran since that pass ended
    for rec in events:
        if "marker" in rec:
            if rec["marker"] == "pb":
                if pending_abs and saw_abs_stage:
                    ev.append(ctl_event("abs"))        # loop 1 is over, this pass opens loop 2
                    abs_done = True
                pending_abs = False
                ev.append(ctl_event("pb"))
                in_pass, idle = True, 0
            else:
                if idle:
                    ev.append(ctl_event("idle", idle))
                    idle = 0
                ev.append(ctl_event("pe"))
                in_pass = False
                pending_abs = not abs_done
                saw_abs_stage = False
            continue
        if rec.get("raised"):
            raised = rec
            break
        stage, before, after = rec["stage"], rec["before"], rec["after"]
        if before != cur:
            ev.append(text_event("sub", pseudo_name(), cur, before))
            cur = before
        if stage == "single_run_chain":
            ev.append(text_event("single", stage, before, after))
            seen_single = True
        elif in_pass:
            if rec["changed"]:
                if idle:
                    ev.append(ctl_event("idle", idle))
                    idle = 0
                ev.append(text_event("rule", stage, before, after))
            else:
                idle += 1
        else:
            if pending_abs:
                if stage in consts["abs_stages"]:
                    saw_abs_stage = True
                else:
                    # first stage after the loop that is not an abstraction stage: the abstraction step is over
                    ev.append(ctl_event("abs"))
                    pending_abs = False
                    abs_done = True
            if rec["changed"]:
                ev.append(text_event("sub", stage, before, after))
        cur = after
        last_stage = stage
    if pending_abs and raised is None and result is not None:
        ev.append(ctl_event("abs"))
        abs_done = True
    # whatever happened between the last recorded stage and the return value
    early = ""
    if result is not None and raised is None:
        if not seen_single:
            if proj.has_skip_file(source):
                early = "skip"
            elif not cur.strip():
                early = "blank"
            else:
                early = "invalid"
        else:
            ev.append(ctl_event("post"))
    inp = {"d": dg(source), "valid": proj.valid(source), "ast": dg(("ast", proj.ast_digest(source))),
           "skip": proj.has_skip_file(source), "obs": 0, "surf": [], "pres": [], "ign": []}
    ret = {"kind": "return" if (result is not None and error is None) else "raise",
           "d": dg(result) if result is not None else 0, "valid": proj.valid(result) if result is not None else False,
           "early": early, "wsequal": proj.ws_equal(result, source) if result is not None else False,
           "obs": 0, "surf": [], "pres": [], "ign": []}
    check = {"obs": False, "surface": False, "preserved": False, "ignored": False}
    if result is not None:
        if "obs" in want and obs is not None:
            o = obs(source)
            if o is not None and o[0] == "ok":
                check["obs"] = True
                inp["obs"], ret["obs"] = obsid(o), obsid(obs(result))
        if "surface" in want and proj.surface(source) is not None:
            check["surface"] = True
            inp["surf"] = sorted(names(n) for n in proj.surface(source))
            ret["surf"] = sorted(names(n) for n in (proj.bound_surface(result) or set()))
        if "preserved" in want and proj.defined_names(source) is not None:
            check["preserved"] = True
            have = proj.defined_names(source)
            inp["pres"] = sorted(names(n) for n in preserve_names if n in have)
            ret["pres"] = sorted(names(n) for n in (proj.defined_names(result) or set()) if n in preserve_names)
        if "ignored" in want:
            check["ignored"] = True
            inp["ign"] = [lines(x) for x in proj.ignored_lines(source)]
            ret["ign"] = [lines(x) for x in proj.ignored_lines(result)]
    return {"id": tid, "opts": {"safe": bool(opts.get("safe")), "keep": bool(opts.get("keep_imports"))},
            "input": inp, "ev": ev, "ret": ret, "check": check,
            "raised_stage": raised["stage"] if raised else "", "error": error or ""}


def validate(rep, traces: List[dict], consts: dict, label: str, batch: int = 1500) -> Dict[int, dict]:
    """TLC validates the traces against PipelineTrace.tla; returns id -> {"lost": bool, "bad": {clause: position}}."""
    out: Dict[int, dict] = {}
    cfg = "\n".join(["CONSTANTS", f"  NRules = {consts['nrules']}", f"  MaxPasses = {consts['maxpasses']}",
                     "INIT TraceInit", "NEXT TraceNext", "CHECK_DEADLOCK FALSE", ""])
    for off in range(0, len(traces), batch):
        chunk = traces[off: off + batch]
        payload = json.dumps([{k: v for k, v in t.items() if k not in ("raised_stage", "error")} for t in chunk])
        res = run_tlc("PipelineTrace", cfg, generated_files={"ptrace.json": payload}, workers=1,
                      env_extra={"TRACE_FILE": "ptrace.json"}, timeout_s=3000, keep_stdout=False, heap_gb=12)
        rep.add_tlc(res, f"PipelineTrace {label} [{off}:{off + len(chunk)}]")
        for r in res.records:
            out[r["id"]] = {"lost": r["lost"], "bad": {c: p for c, p in r["bad"]}}
        missing = [t["id"] for t in chunk if t["id"] not in out]
        if missing:
            raise MachineryError(f"PipelineTrace did not consume traces {missing[:5]} ({label})")
    return out


# --------------------------------------------------------------------------------------
def _init_worker():
    from common import import_pyrefact
    return import_pyrefact()


def _trace_one(mods, item):
    key, source, opts = item
    if isinstance(key, str) and key.startswith("after-unsafe:"):
        # history: the same text was formatted WITHOUT the options first, in this very process (C05 meets C07/C08/C20:
        # what an earlier call computed under a smaller preserve set must not be replayed)
        try:
            mods["main"].format_code(source)
        except Exception:  # noqa: BLE001
            pass
    res, err, events = pipeline.trace_format_code(mods, source, **opts)
    slim, cur = [], source
    for e in events:
        if "marker" in e:
            slim.append(e)
        elif e.get("raised"):
            slim.append({"stage": e["stage"], "raised": e["raised"]})
        else:
            b = None if e["before"] == cur else e["before"]      # None = "the current text"
            if e["changed"]:
                slim.append({"stage": e["stage"], "changed": True, "before": b, "after": e["after"]})
                cur = e["after"]
            else:
                slim.append({"stage": e["stage"], "changed": False, "before": b, "after": None})
                cur = e["before"]
    return (res, err, slim)


def run_traced(items: Sequence[Tuple[Any, str, dict]], procs: int = 16, timeout: float = 120.0):
    """format_code under the recorder for every (key, source, opts).

    Returns (key, source, opts, result, error, events); a run over the time limit has
    error = "Timeout" and no events; texts equal to the current one are elided in transit.
    """
    import workers
    items = list(items)
    raw = workers.run_tasks(_trace_one, items, init=_init_worker, procs=procs, timeout=timeout)
    fixed = []
    for (key, source, opts), r in zip(items, raw):
        if r == workers.TIMEOUT:
            fixed.append((key, source, opts, None, f"Timeout: no result within {timeout:.0f}s", []))
            continue
        if r == workers.CRASH or (isinstance(r, tuple) and r and r[0] == "__task_raised__"):
            fixed.append((key, source, opts, None, f"WorkerDied: {r}", []))
            continue
        res, err, events = r
        cur = source
        evs = []
        for e in events:
            if "marker" in e or e.get("raised"):
                evs.append(e)
                continue
            before = cur if e["before"] is None else e["before"]
            after = e["after"] if e["changed"] else before
            evs.append({"stage": e["stage"], "changed": e["changed"], "before": before, "after": after})
            cur = after
        fixed.append((key, source, opts, res, err, evs))
    return fixed
