"""setup_cmd: nothing to build or download; parse every specification and import the harness."""
from __future__ import annotations

import sys

import tlc


def main() -> int:
    mods = sorted(p.stem for p in tlc.SPEC_DIR.glob("*.tla"))
    try:
        tlc.sany_check(mods)
    except tlc.MachineryError as exc:
        print(f"setup failed: {exc}", file=sys.stderr)
        return 2
    from common import import_pyrefact
    import_pyrefact()
    print(f"setup ok: {len(mods)} TLA+ modules parsed, pyrefact importable from the working tree")
    return 0
