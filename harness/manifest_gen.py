"""Generates /verif/MANIFEST.json from the table below (single source of truth for the interface)."""
from __future__ import annotations

import json
import subprocess
from pathlib import Path

VERIF = Path(__file__).resolve().parent.parent

ALL = [f"C{i:02d}" for i in range(1, 21)]

CHECKS = {
    "C01": dict(
        category="exploration",
        technique="TLA+ program generators (ProgGen.tla, Closing.tla; programs of Reach.tla, BoolAlg.tla, Rename.tla, Alpha.tla, Surface.tla fed in) enumerated by TLC; every format_code run recorded and validated by TLC against PipelineTrace.tla (FinalObs) with an execution oracle",
        text=("Programs are the states of ProgGen.tla (typed block grammar; every program well typed by construction) and the "
              "repository's example snippets under the closing environments of Closing.tla, kept when the original terminates "
              "normally twice with identical output. Each (program, option vector) is formatted under the recorder and TLC "
              "validates the trace: the observation (termination class + stdout of an isolated execution) of the returned "
              "program equals that of the input. Failures are localised to the first stage after which the observation differs "
              "(judged after the import stage when only an import is missing). Exploration: the program space is bounded and sampled."),
        note="Trusted: the execution sandbox, TLC, the class filter (no introspection / time / randomness / IO). Not a proof of equivalence.",
        design_ref="DESIGN.md sections 3.9, 5 (C01)",
    ),
    "C02": dict(
        category="exploration",
        technique="every rule x every program of the C01 space, plus Dataflow.tla (collecting semantics of created / needed names; two-loop programs, observable tests) and Alpha.tla programs; each firing is a single-step trace validated by TLC against PipelineTrace.tla (KeepValid, FinalObs) with an execution oracle",
        text=("The rule catalogue is read from main.py on every run; every rule is applied in isolation (fresh parse caches) to every "
              "program of the C01 space; every firing is a single-step trace  Enter; Rule(r); Return  validated by TLC. A result that "
              "only lacks an import the pipeline adds afterwards is observed after add_missing_imports. Evidence lists per-rule firing "
              "counts and the rules that never fired (no claim for those)."),
        note="Trusted: as C01. Rules for numpy / pandas code are not exercised (numpy and pandas are not installed for the interpreter that runs pyrefact).",
        design_ref="DESIGN.md section 5 (C02)",
    ),
    "C03": dict(
        category="model_checking",
        technique="TLC trace validation of recorded format_code runs against PipelineTrace.tla (KeepValid per stage, FinalValid); isolated rules and sub/subn on corpora; FileWrite.tla write-guard model replayed into format_file",
        text=("Every stage of every recorded format_code run (Shapes.tla cases, repository snippets, fragments, stdlib modules) is "
              "checked by TLC to keep the text parsable; every rule is applied in isolation to every snippet; sub/subn results must "
              "parse; the write guard of format_file is model-checked (FileWrite.tla: NeverBreakValid, NoWriteIfEqual) and its "
              "decision table replayed on temp files with a formatter stub returning valid / invalid / identical text."),
        note="Trusted: CPython's parser as validity oracle, TLC, the recording wrappers. Coverage is corpus-driven, not exhaustive.",
        design_ref="DESIGN.md sections 3.2, 5 (C03)",
    ),
    "C04": dict(
        category="model_checking",
        technique="TLA+ design model of the fixpoint loops (Pipeline.tla: termination under fairness for every abstract rule set) + TLC trace validation of recorded runs (Returns, Budget, ExitOnRepeat, early returns) with a kill-able time limit",
        text=("Pipeline.tla proves (by exhaustive TLC search over all rule functions on a 3-document space, budgets scaled) that the "
              "loop structure terminates within its budget and leaves each loop exactly on the first repeat. Every real run over "
              "Shapes.tla cases (construct catalogue x position x newline x options), all repository snippets (plain, safe, "
              "fragment, no trailing newline, truncated), junk strings and stdlib modules is recorded and validated by TLC "
              "against the same actions: it must return, within the wall-clock limit, through the specified control structure, "
              "and hand invalid / blank / skip-file input back."),
        note="Trusted: TLC, the wall-clock limit as the meaning of 'bounded time', the recording wrappers. Input space is a cover, not exhaustive.",
        design_ref="DESIGN.md sections 3.2, 5 (C04)",
    ),
    "C05": dict(
        category="model_checking",
        technique="TLA+ cache model (Cache.tla) model-checked by TLC (design condition + counterexamples); every TLC history replayed into one long-lived process with a faithfulness watch on core.parse",
        text=("Cache.tla models the parse LRU, shared trees under three rule disciplines and an origin lookup keyed without the file "
              "system; TLC explores every call history with evictions and file system changes and checks CacheFaithful / "
              "HistoryIndependent under the discipline the code claims, and exhibits the counterexamples for a mutating rule and a "
              "stale-prone lookup. Every history (all of length 2-3 over the alphabet of real calls x 3 texts, plus sampled longer ones) "
              "is replayed into one process: after each call every tree ever handed out by core.parse is compared (positions included) "
              "with a fresh parse, and the last result with the result of the same call in a fresh state."),
        note="Trusted: TLC; a fresh process is emulated by clearing every lru_cache of pyrefact. History length bounded.",
        design_ref="DESIGN.md sections 3.4, 5 (C05)",
    ),
    "C06": dict(
        category="model_checking",
        technique="TLA+ model of format_files over a worker pool (Pool.tla) model-checked by TLC for every interleaving of file operations; one witness schedule per terminal state replayed into the real format_files through a controlled pool; hash seeds varied in fresh interpreters",
        text=("Pool.tla: module passes, per-folder bookkeeping, workers whose read / read-dependency / truncate / write / finish steps interleave. "
              "TLC proves ParEqSeq (final tree and report = sequential run) for every interleaving when no task reads a file the same pass "
              "rewrites, and yields the racing schedules otherwise. Every terminal state (distinct assignment of tasks to workers, completion "
              "order, observations) comes with a witness schedule that is replayed into the real format_files: real forked workers are stopped "
              "at every open() inside the tree and released in schedule order; the executed log is interpreted with the model's semantics "
              "(Fmt = the real format_file in isolation) and must predict the real tree, per-task results and return value, which must equal "
              "the sequential run. Plus the real multiprocessing pool (n_cores 2..16, shuffled / duplicated lists) against n_cores=1, and "
              "format_code / single rules in fresh interpreters under 8+ PYTHONHASHSEED values with perturbed heap layouts."),
        note="Trusted: TLC; the controlled pool serialises file operations (workers share no memory). Address-dependent set orders are perturbed, not enumerated.",
        design_ref="DESIGN.md sections 3.5, 5 (C06)",
    ),
    "C07": dict(
        category="model_checking",
        technique="TLA+ generator of module surfaces (Surface.tla) enumerated by TLC; safe-mode runs recorded and validated by TLC against PipelineTrace.tla (FinalSurface)",
        text=("Surface.tla enumerates modules of up to two definitions over 12 binding kinds x naming styles x used/unused, with duplicate and "
              "decorator flags; every module (plus Shapes cases, repository snippets, stdlib modules) is formatted with safe=True under the "
              "recorder and TLC checks that every name of the input's surface is still bound in the output; the stage that dropped a name is reported."),
        note="Trusted: the surface projection (checked against the renderer on every case), TLC. Bounded generator + corpora.",
        design_ref="DESIGN.md sections 3.8, 5 (C07)",
    ),
    "C08": dict(
        category="model_checking",
        technique="TLA+ generator with expectation (Preserve.tla on Surface.tla): library modules x preserve sets x client access forms enumerated by TLC; replay through format_code(preserve=..), the real format_files(preserved_filenames=..) and the command line; client executed in a fresh interpreter before / after",
        text=("Preserve.tla: libraries of <= 2 definitions (function, async function, class, variable, annotated / augmented / tuple / chained assignment, "
              "method, self-less method, static method, class method, class attribute) x naming styles x used / unused x duplicate / decorated flags x "
              "non-empty preserve sets P x access forms (direct preserve argument, from-import, module attribute, module alias); MustSurvive = P. Cases "
              "where P protects something at risk are preferred. Direct cases call format_code(lib, preserve=names(P)); client cases write lib.py and "
              "client.py and call format_files(preserved_filenames=[client.py]) or main.main(['lib.py', '--preserve', 'client.py']). Every definition "
              "of P must still be bound under its name, the client file must be untouched and print the same in a fresh interpreter."),
        note="Trusted: TLC, CPython for running the client. Libraries of at most two definitions; longer dependency chains inside the library come from C01's programs.",
        design_ref="DESIGN.md sections 3.8, 5 (C08)",
    ),
    "C09": dict(
        category="model_checking",
        technique="TLC validation of recorded histories x, f(x), .., f^6(x) against Repeat.tla; Orient.tla (antisymmetry of the swap heuristic) model-checked and replayed; Pipeline.tla design facts",
        text=("Histories of six successive applications of format_code (three option vectors; snippets, Shapes cases, stdlib modules) and "
              "format_files(max_passes=5) + one more pass are validated by TLC: a fixed point within MAX_MODULE_PASSES applications, "
              "stability afterwards, no cycle. Orient.tla proves antisymmetry of the orientation heuristic on all settled feature vectors "
              "and every vector is replayed into the real predicate. Pipeline.tla shows what the loop structure alone does not guarantee."),
        note="Trusted: TLC; convergence is an empirical property of the real rule set, so the claim is over the explored inputs.",
        design_ref="DESIGN.md sections 3.3, 5 (C09)",
    ),
    "C10": dict(
        category="model_checking",
        technique="TLA+ model (Scheduler.tla) checked exhaustively by TLC; every TLC scenario replayed into processing.fix/chain; TLC trace validation of recorded real scheduler calls",
        text=("Scheduler.tla models _schedule_rewrites/_apply_rewrites step by step; TLC checks atomicity, non-overlap, "
              "justified drops, rollback, stable offsets and ignored-line integrity as invariants on every scenario of the "
              "bounded space (all ranges over a 2-line text, 2-3 yields, all transaction/group assignments, ignored lines, "
              "unparsable replacements) and each scenario's outcome is replayed into the real scheduler through the public "
              "fix/chain decorators. Outcomes that differ are judged by TLC against the declarative clauses. Real scheduler "
              "calls recorded while real rules run are validated against the same actions. Bounded, not a proof."),
        note=("Trusted: TLC, the rendering of abstract units to text (checked by token round trip), CPython's parser as "
              "the validity oracle. Bounds are stated in evidence (tlc_runs)."),
        design_ref="DESIGN.md sections 3.1, 5 (C10)",
    ),
    "C11": dict(
        category="model_checking",
        technique="TLA+ input covers (Layout.tla: literals; Skeleton.tla: statements, lazy imports and blank runs at three depths) enumerated by TLC; clause KeepAst of PipelineTrace.tla validated by TLC on every layout stage event; layout stages replayed in isolation",
        text=("Layout.tla enumerates literal kinds x content features (tabs, trailing blanks, blank-line runs, long lines, continuations, "
              "hashes, deep indentation) x placements x line lengths; each module is formatted under the recorder and TLC checks on every "
              "layout stage event that the position-free tree (docstring whitespace normalised) is unchanged; every layout stage is also "
              "applied in isolation and the list of string constants compared. Four genuine defect classes are listed as known findings."),
        note="Trusted: CPython's parser, TLC, the definition of 'layout stage' (list in harness/ptrace.py).",
        design_ref="DESIGN.md sections 3.9, 5 (C11)",
    ),
    "C12": dict(
        category="model_checking",
        technique="TLA+ models (Matcher.tla, Search.tla, Fields.tla) enumerated exhaustively by TLC; every case replayed into core.match_template / pattern_matching.finditer+findall",
        text=("Matcher.tla contains the declarative (regular-expression) reading of list patterns and an implementation-shaped "
              "model of the greedy count-vector search; TLC checks ImplMatch => IdealMatch and completeness without an outer "
              "repetition on the whole bounded space and writes both verdicts for every (template, node list) case; each case is "
              "replayed with a hand-built template and a compiled {{..}} pattern. Search.tla enumerates sources with occurrences "
              "in every container kind and the expected occurrence set is compared with finditer/findall. Fields.tla: optional parts "
              "of 27 syntax forms (absent / literal / wildcard, pattern x code) and 58 expression contexts holding nested occurrences. "
              "Bounded, exhaustive within the stated bounds."),
        note=("Trusted: TLC, the renderer of abstract cases to Python text. Known finding KF-C12-1 (greedy list matching) is "
              "identified as the TLC-computed Gap set and the code answering exactly what the Impl model answers."),
        design_ref="DESIGN.md sections 3.6, 5 (C12)",
    ),
    "C13": dict(
        category="model_checking",
        technique="TLA+ model of source geometry (Geometry.tla: cells with character / UTF-8 lengths and two line rules); TLC checks the offset algorithm against the definition of a span on every layout; every layout and API case replayed into the re-like API and the command line finder",
        text=("Geometry.tla enumerates layouts (special characters in earlier lines, between definitions and earlier on the node's line; LF / CRLF / CR; "
              "missing final newline; indentation; node shapes incl. multi-line, parenthesised and decorated definitions) and computes IdealSpan and "
              "the line / column of its start; TLC checks that the transcribed algorithm of core.get_charnos equals it (and shows that the pre-repair "
              "algorithms do not). Every layout is rendered, IdealSpan is validated against ast.get_source_segment, then finditer / findall / search "
              "and `pattern_matching find` are run and compared. A second generator enumerates modules of 1..3 statements x pattern kinds x leading "
              "lines with the ideal answers of match / fullmatch / number of matches."),
        note="Trusted: TLC; CPython's ast positions as ground truth (exit 2 on disagreement with the spec).",
        design_ref="DESIGN.md sections 3.6, 5 (C13)",
    ),
    "C14": dict(
        category="model_checking",
        technique="TLA+ model of substitution (Subst.tla): TLC enumerates cases and, per case, every admissible set of applied matches; replay into sub / subn / command line with a reference substitution on syntax trees; the model's precedence analysis separates the recorded textual-splice finding from new violations",
        text=("Subst.tla: modules of 1..3 statements over 11 statement kinds (whole-statement, nested, operand, argument, attribute object, two on a "
              "line, multi-line, indented, ignored, non-matching) x patterns (call, statement sequence, absent) x 7 replacement templates (wildcard "
              "used 0/1/2 times, the pattern itself, operators) x bound values x counts. Admissible = eligible (not ignored), non-overlapping, within "
              "the count, maximal when unlimited. Every case is replayed: the tree of the result must equal the reference ast substitution for one "
              "admissible set, untouched lines must be verbatim, an absent pattern must return the source byte for byte, subn's number must respect "
              "the count, sub = subn[0], and `pattern_matching replace` must leave the same file."),
        note="Trusted: TLC; CPython's ast for the reference substitution. Which admissible set is applied is the implementation's choice.",
        design_ref="DESIGN.md sections 3.6, 5 (C14)",
    ),
    "C15": dict(
        category="model_checking",
        technique="TLA+ reference semantics of constant expressions (ConstEval.tla) enumerated by TLC, validated against CPython eval, replayed into core.literal_value; consumer programs traced through format_code",
        text=("ConstEval.tla holds Python's value semantics for a bounded expression grammar (PyEval) and an implementation-shaped "
              "model of literal_value (ImplEval); TLC checks NoWrongValue and ImplTotal on every expression and writes both "
              "outcomes; each expression is evaluated by CPython (spec validation), by core.literal_value (value must agree, "
              "raising/effectful expressions must be 'unknown', nothing may escape or be executed), and planted as a condition "
              "in consumer programs whose observable behaviour must survive format_code and every consuming rule."),
        note=("Trusted: TLC, CPython as the ground truth for the TLA+ semantics (checked on every case, exit 2 on disagreement), "
              "the execution sandbox. Cases the TLA+ semantics marks out-of-model are decided by CPython directly."),
        design_ref="DESIGN.md sections 3.7, 5 (C15)",
    ),
    "C16": dict(
        category="model_checking",
        technique="TLA+ small-step semantics of structured statements (Reach.tla): TLC decides reachability by exploring every execution; spec validated against CPython; rules replayed and compared on deleted marks and mark traces; Effects.tla for pointless statements",
        text=("Reach.tla gives compound statements over leaf statements with known / unknown tests a transition semantics; TLC explores "
              "every execution of every generated shape (all resolutions of unknowns, 0-2 loop iterations) and thereby decides which "
              "observable statements are reachable. Every shape is executed under CPython for 63 tapes of unknown outcomes (executed "
              "marks must equal the reachable set: spec validation), then rewritten by every reachability-consuming rule and by "
              "format_code: a deleted mark must be unreachable and the mark trace equal for every tape. Effects.tla enumerates statement "
              "forms x contexts x callee kinds with the ideal 'pointless' predicate, replayed into delete_pointless_statements / format_code."),
        note="Trusted: TLC, CPython as ground truth for the semantics (exit 2 on disagreement). Bounded nesting depth and block length.",
        design_ref="DESIGN.md sections 3.7, 5 (C16)",
    ),
    "C17": dict(
        category="model_checking",
        technique="TLA+ formula semantics (BoolAlg.tla, Ranges.tla): TLC enumerates the bounded formula space with truth tables over the box; every rewriting rule replayed and its output evaluated under CPython for all valuations",
        text=("BoolAlg.tla defines formulas over comparisons of integer variables with Eval and checks negation by De Morgan / reversed "
              "comparisons on the whole space; TLC writes every formula with its truth table over [-2, 4]^k (validated against CPython). "
              "Each formula is rewritten by every condition-rewriting rule inside program templates (assignment, if/else, loops, return) "
              "and the rewritten program is evaluated for every valuation. Ranges.tla does the same for range comprehensions with filters "
              "and sums over ranges (expected lists / sums computed from the definition of range)."),
        note="Trusted: TLC, CPython for evaluating rule outputs. The box is complete for variable-vs-constant atoms, a bound otherwise.",
        design_ref="DESIGN.md sections 3.7, 5 (C17)",
    ),
    "C18": dict(
        category="model_checking",
        technique="TLA+ model of import resolution over package trees (Imports.tla): TLC enumerates trees x client import forms and computes the origin of every referenced name; trees materialised on disk, Resolve validated against CPython, object identity compared before / after format_code",
        text=("Imports.tla: base (optionally with __all__) -> mid (re-export by name / alias / star / module object / redefinition) -> optional top "
              "-> client (from / alias / star / module / module alias; duplicated, stacked, unused extras, inside a function, after the first def), as "
              "flat modules, as a package __init__ or as a sub-module with absolute or relative imports; plus the client's own standard-library "
              "imports (dotted modules, aliases, two statements binding one name). TLC computes Resolve / LastBinding. Each case runs in a fresh "
              "fork: the tree is written to a temp directory (cwd there), the client is imported, CPython's own __module__/__qualname__ must equal "
              "Resolve, then the client is formatted and imported next to the original: every referenced object must be the identical object."),
        note="Trusted: TLC; CPython's import system as ground truth (exit 2 on disagreement with the spec).",
        design_ref="DESIGN.md sections 3.8, 5 (C18)",
    ),
    "C19": dict(
        category="model_checking",
        technique="TLA+ model of Python scoping (Rename.tla): TLC fills the identifier slots of binding scenarios with every combination from an adversarial pool and computes the partition of occurrences by binding; resolver validated against the spec and CPython's symtable; partition compared before / after the renaming rule; execution as second oracle",
        text=("Rename.tla: scenarios = scope tree + ordered identifier occurrences with roles (store, param, load, global / nonlocal declaration, attribute, "
              "keyword); LEGB with class scopes and comprehensions gives the binding of every occurrence. 19 scenarios (assignment, augmented, tuple, for, "
              "with-as, import-as, def / class names, parameters + keyword uses, global, nonlocal, closures, shadowing locals, class attributes via self / "
              "class, comprehension targets, unused locals) x all assignments of 9 identifiers (camelCase / snake_case / UPPER / Camel / private variants of "
              "one another, a builtin, `_`, a generated-looking name). The rendered program's partition (general ast resolver) must equal the spec's and "
              "agree with symtable; after align_variable_names_with_convention identifier tokens are aligned one to one and the partition must be the "
              "same (merge = capture, split = missed reference); new identifiers must be usable; (status, stdout) must be unchanged."),
        note="Trusted: TLC; CPython's symtable and execution as ground truth. Other renaming rules (dedupe, static extraction) are covered through C01/C02's execution oracle only.",
        design_ref="DESIGN.md sections 3.8, 5 (C19)",
    ),
    "C20": dict(
        category="model_checking",
        technique="systematic line annotation of rule-firing programs; recorded runs validated by TLC against PipelineTrace.tla (FinalIgnored, SkipIsIdentity); Scheduler.tla scenarios with ignored lines replayed",
        text=("Every annotatable physical line of repository snippets and Shapes cases gets the documented ignore comment (one line at a "
              "time, pairs in thorough); TLC checks that the annotated lines occur verbatim and in order in the output and names the stage "
              "and back-end that touched one; skip_file comments are checked through format_code, format_file (bytes, mtime) and "
              "--from-stdin; Scheduler.tla scenarios with ignored lines are replayed through fix / chain."),
        note="Trusted: TLC, the tokenizer-based choice of annotatable lines. Only the documented comment spelling is asserted.",
        design_ref="DESIGN.md section 5 (C20)",
    ),
}

NOT_YET = "not claimed yet: the check for this property is still under construction (DESIGN.md section 5 describes the planned TLA+ model and binding)"


def build() -> dict:
    checks = []
    for pid in ALL:
        if pid not in CHECKS:
            continue
        c = CHECKS[pid]
        checks.append({
            "property_id": pid,
            "quick_cmd": f"./check {pid} --tier quick",
            "thorough_cmd": f"./check {pid} --tier thorough",
            "evidence_file": f"evidence/{pid}.json",
            "replay_cmd_template": f"./check {pid} --replay {{path}}",
            "engine": "tlc+replay",
            "level_claimed": {"category": c["category"], "text": c["text"], "design_ref": c["design_ref"]},
            "level_note": c["note"],
            "technique": c["technique"],
        })
    return {
        "version": 1,
        "setup_cmd": "./check setup",
        "hooks": {
            "guard": "PYREFACT_VERIF",
            "enable": ("PYREFACT_VERIF=1 (set by ./check): recording wrappers in /verif/harness/hooks.py are installed "
                       "around pyrefact module attributes at run time; /repo contains no hook code"),
            "baseline_off_cmd": "cd /repo && /venv/bin/python -m pytest -ra -q -p no:cacheprovider --timeout=900 --continue-on-collection-errors",
            "source_commits": [],
            "add_only": True,
        },
        "engines": [{
            "name": "tlc+replay",
            "path": "harness/",
            "serves_properties": sorted(CHECKS),
            "kind_free_text": ("explicit TLA+ specifications in spec/ checked with TLC 1.8; TLC-generated cases replayed into "
                               "the real code, and traces recorded from the real code validated by TLC against the specs"),
        }],
        "checks": checks,
        "not_applicable": [{"property_id": p, "reason": NA.get(p, NOT_YET)} for p in ALL if p not in CHECKS],
        "notes": ("Exit codes: 0 held, 1 VIOLATION, 2 machinery failure (never a property verdict). Genuine defects found: "
                  "known_findings.json. Seeded changes and the detection matrix: seeded/, selftest/matrix.json."),
    }


NA = {}


def main():
    m = build()
    (VERIF / "MANIFEST.json").write_text(json.dumps(m, indent=1) + "\n")
    code = ("import json,jsonschema;jsonschema.validate(json.load(open('/verif/MANIFEST.json')),"
            "json.load(open('/root/.vp/MANIFEST.schema.json')))")
    p = subprocess.run(["python3-vt", "-c", code], capture_output=True, text=True)
    print("MANIFEST.json written;", "valid" if p.returncode == 0 else "INVALID:\n" + p.stderr[-1500:])


if __name__ == "__main__":
    main()
