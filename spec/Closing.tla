------------------------------ MODULE Closing ------------------------------
(***************************************************************************)
(* Closing environments (C01 / C02).  The repository's example snippets are  *)
(* open programs: they mention names they never bind and define functions    *)
(* they never call.  A closing environment binds every free name to a value  *)
(* of some kind and calls every function with arguments of some kinds; the   *)
(* closed program is then inside the class of C01 if it runs to completion   *)
(* deterministically.  TLC enumerates the kind vectors; the harness renders   *)
(* them (harness/closing.py) and keeps the environments under which the       *)
(* ORIGINAL program terminates normally twice with identical output.          *)
(***************************************************************************)
EXTENDS Integers, Sequences, TLC, Json

CONSTANTS Kinds, MaxSlots

VARIABLE vec
vars == <<vec>>

Init == vec = <<>>
Next == /\ Len(vec) < MaxSlots
        /\ \E k \in Kinds : vec' = Append(vec, k)
Spec == Init /\ [][Next]_vars

Dump == PrintT(<<"@@J", ToJson([vec |-> vec])>>)
=============================================================================
