------------------------------- MODULE Shapes -------------------------------
(***************************************************************************)
(* Combinatorial cover of the inputs of the formatter (C03 / C04 / C20):     *)
(* every syntactic construct of the catalogue x every position in the file   *)
(* x trailing newline x option vector.  The catalogue itself (concrete text  *)
(* of each construct) lives in harness/shapes.py; the specification          *)
(* enumerates the abstract cases and states which combinations are           *)
(* well-formed, so that TLC - not the harness - decides what is covered.      *)
(***************************************************************************)
EXTENDS Integers, Sequences, FiniteSets, TLC, Json

CONSTANTS
    Constructs,   \* set of <<name, need>>: need \in {"none", "def", "async", "loop", "class"}
    Positions,    \* where the construct stands
    Options       \* set of option vectors <<safe, keep_imports, preserve_some>>

VARIABLE case
vars == <<case>>

\* a construct that needs an enclosing function / loop / class cannot stand bare at module level;
\* the renderer wraps it, and then "only"/"first"/"last" refer to the wrapped statement
WellFormed(c, p) ==
    /\ (p = "in_def" => c[2] \in {"none", "def", "loop"})
    /\ (p = "in_class" => c[2] \in {"none", "def", "class", "async", "loop"})
    /\ (p = "in_loop" => c[2] \in {"none", "loop"})

Cases == {[c |-> c[1], need |-> c[2], pos |-> p, nl |-> nl, opt |-> o] :
             c \in Constructs, p \in Positions, nl \in BOOLEAN, o \in Options}

Init == case \in {x \in Cases : WellFormed(<<x.c, x.need>>, x.pos) /\ (x.nl \/ x.pos \in {"only", "last", "tail_of_if"})}
Next == UNCHANGED case
Spec == Init /\ [][Next]_vars

Dump == PrintT(<<"@@J", ToJson(case)>>)
=============================================================================
