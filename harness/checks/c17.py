"""C17 - boolean, comparison and range rewrites are logically equivalent.

BoolAlg.tla: TLC enumerates the bounded formula space and computes every formula's truth table over the box; it
also checks that negation by De Morgan + reversed comparisons is correct on the whole space.  Each formula is
rendered, rewritten by every condition-rewriting rule of pyrefact inside small programs, and the result is
evaluated by CPython under every valuation of the box and compared with the table.  The table itself is
validated against CPython on the original (spec validation; exit 2 on disagreement).
Ranges.tla: range comprehensions with filters and sums over ranges with their expected values.
"""
from __future__ import annotations

import ast
import itertools
import multiprocessing as mp
import random
import sys
from typing import Dict, List

import blame
import workers
from common import Report, import_pyrefact, tier, seed
from tlc import MachineryError, run_tlc

PROP = "C17"
VARS = ["x", "y"]


def render_term(t):
    return t["v"] if "v" in t else (str(t["c"]) if t["c"] >= 0 else f"({t['c']})")


def render(f, top=True) -> str:
    k = f["k"]
    if k == "cmp":
        return f"{render_term(f['l'])} {f['op']} {render_term(f['r'])}"
    if k == "chain":
        body = f"{render_term(f['t1'])} {f['o1']} {render_term(f['t2'])} {f['o2']} {render_term(f['t3'])}"
        return body if top else f"({body})"
    if k == "not":
        return f"not {render(f['a'], False)}" if f["a"]["k"] != "cmp" else f"not {render(f['a'], False)}"
    inner = f" {k} ".join(render(a, False) if a["k"] in ("cmp", "not") else f"({render(a, False)})" for a in f["args"])
    return inner if top else f"({inner})"


TEMPLATES = {
    "assign": ("r = {E}\n", "bool"),
    "ifelse_pass": ("r = 1\nif {E}:\n    pass\nelse:\n    r = 2\n", "sel"),
    "ifelse_swap": ("r = 0\nif {E}:\n    r = 1\n    r += 10\n    r += 10\n    r += 10\nelse:\n    r = 2\n", None),
    "for_if": ("r = 0\nfor _i in range(1):\n    if {E}:\n        r = 1\n        r += 10\n        r += 10\n", None),
    "while_not": ("r = 0\nwhile not ({E}):\n    r = 5\n    break\n", None),
    "return": ("def g(x, y):\n    if {E}:\n        return 1\n    else:\n        return 2\n\n\nr = g(x, y)\n", None),
}
RULES = {
    "assign": ["symbolic_math.simplify_boolean_expressions", "symbolic_math.simplify_boolean_expressions_symmath",
               "fixes.replace_negated_numeric_comparison", "fixes.remove_redundant_boolop_values"],
    "ifelse_pass": ["fixes.swap_if_else"],
    "ifelse_swap": ["fixes.swap_if_else", "fixes.early_return"],
    "for_if": ["fixes.early_continue"],
    "while_not": ["fixes.replace_negated_numeric_comparison", "symbolic_math.simplify_boolean_expressions"],
    "return": ["fixes.swap_if_else", "fixes.remove_redundant_else", "fixes.fix_if_return"],
}


def valuations(box: List[int]):
    return [dict(zip(VARS, v)) for v in itertools.product(box, repeat=len(VARS))]


def run_prog(code, env):
    g = dict(env)
    try:
        exec(code, g)
    except Exception as exc:
        return f"exc:{type(exc).__name__}"
    return g.get("r")


def _chunk(args):
    records, box, templates, full_every = args
    mods = import_pyrefact()
    vals = valuations(box)
    st = {"formulas": 0, "rule_applications": 0, "rewrites": 0, "pipeline_runs": 0}
    spec_bad, bad = [], []
    for idx, rec in records:
        expr = render(rec["f"])
        table = rec["t"]
        st["formulas"] += 1
        # (C) the specification's truth table against CPython
        co = compile(expr, "<f>", "eval")
        real = [1 if eval(co, dict(v)) else 0 for v in vals]
        if real != table:
            spec_bad.append({"expr": expr, "spec": table, "cpython": real})
            continue
        for tname in templates:
            text = TEMPLATES[tname][0].replace("{E}", expr)
            base_code = compile(text, "<before>", "exec")
            before = None
            jobs = [(r, getattr(mods[r.split(".")[0]], r.split(".")[1])) for r in RULES[tname]]
            if full_every and idx % full_every == 0:
                jobs.append(("format_code", lambda s: mods["main"].format_code(s, preserve=frozenset({"r", "g"}))))
                st["pipeline_runs"] += 1
            for rname, fn in jobs:
                st["rule_applications"] += 1
                try:
                    out = fn(text)
                except Exception as exc:
                    bad.append({"kind": "raised", "rule": rname, "expr": expr, "program": text, "error": repr(exc)})
                    continue
                if out == text:
                    continue
                st["rewrites"] += 1
                if before is None:
                    before = [run_prog(base_code, v) for v in vals]
                try:
                    after_code = compile(out, "<after>", "exec")
                except SyntaxError:
                    continue      # C03
                after = [run_prog(after_code, v) for v in vals]
                if after != before:
                    i = next(j for j in range(len(vals)) if after[j] != before[j])
                    bad.append({"kind": "not equivalent", "rule": rname, "template": tname, "expr": expr, "program": text,
                                "output": out, "valuation": vals[i], "value_before": before[i], "value_after": after[i]})
    return st, spec_bad, bad


def boolalg_runs(t: str):
    ops = '{"<", "<=", ">", ">=", "==", "!="}'
    if t == "quick":
        return [("atoms-not", dict(vars_='{"x", "y"}', consts="{0, 1, 2}", box="-2..4", shapes='{"atom", "not"}'), list(TEMPLATES), 8),
                ("and2-or2", dict(vars_='{"x", "y"}', consts="{0, 2}", box="-2..4", shapes='{"and2", "or2"}'), ["assign"], 0),
                ("x-only-lits", dict(vars_='{"x"}', consts="{0, 1, 2}", box="-2..4", shapes='{"lit2", "nand2", "nor2"}'),
                 ["assign", "ifelse_pass", "for_if", "return"], 25),
                ("chains", dict(vars_='{"x", "y"}', consts="{0, 2}", box="-2..4", shapes='{"chain"}'), list(TEMPLATES), 10),
                ("const-operands", dict(vars_='{"x"}', consts="{0, 2}", box="-2..4", shapes='{"constop"}'), ["assign", "ifelse_pass"], 20)]
    return [("atoms-not", dict(vars_='{"x", "y"}', consts="{0, 1, 2}", box="-2..4", shapes='{"atom", "not"}'), list(TEMPLATES), 2),
            ("and2-or2-nand-nor", dict(vars_='{"x", "y"}', consts="{0, 1, 2}", box="-2..4", shapes='{"and2", "or2", "nand2", "nor2"}'),
             ["assign", "ifelse_pass"], 50),
            ("x-only-lits", dict(vars_='{"x"}', consts="{0, 1, 2}", box="-2..4", shapes='{"lit2", "nand2", "nor2"}'), list(TEMPLATES), 10),
            ("x-only-3", dict(vars_='{"x"}', consts="{0, 2}", box="-2..4", shapes='{"and3", "or3", "mixed"}'), ["assign"], 0),       # 3 constants: > 50 min in TLC
            ("chains", dict(vars_='{"x", "y"}', consts="{0, 1, 2}", box="-2..4", shapes='{"chain"}'), list(TEMPLATES), 4),
            ("chains-mixed", dict(vars_='{"x"}', consts="{0, 2}", box="-2..4", shapes='{"chain2"}'), ["assign", "ifelse_pass", "for_if", "return"], 20),
            ("const-operands", dict(vars_='{"x", "y"}', consts="{0, 1, 2}", box="-2..4", shapes='{"constop"}'), ["assign", "ifelse_pass", "return"], 20)]


def ranges_part(rep: Report, mods, t: str, known, stats):
    sm, fixes = mods["symbolic_math"], mods["fixes"]
    if t == "quick":
        consts = dict(starts="{-1, 0, 2}", stops="{0, 3, 4}", steps="{1, 2, 3}", fc="{0, 1, 3, 4}", fo='{"<", "<=", ">", ">=", "==", "!="}', box="-2..4", mults="{1, 3}")
    else:
        consts = dict(starts="-1..4", stops="-1..4", steps="{1, 2, 3}", fc="-1..4", fo='{"<", "<=", ">", ">=", "==", "!="}', box="-2..4", mults="{1, 2, 3}")
    mc = "\n".join(["---- MODULE RangesMC ----", "EXTENDS Ranges", f"MC_Starts == {consts['starts']}", f"MC_Stops == {consts['stops']}",
                    f"MC_Steps == {consts['steps']}", f"MC_FC == {consts['fc']}", f"MC_FO == {consts['fo']}", f"MC_Box == {consts['box']}",
                    f"MC_Mults == {consts['mults']}", 'MC_OrForms == {"<", ">="}', "====", ""])
    cfg = "\n".join(["CONSTANTS", "  Starts <- MC_Starts", "  Stops <- MC_Stops", "  Steps <- MC_Steps", "  FilterConsts <- MC_FC",
                     "  FilterOps <- MC_FO", "  Box <- MC_Box", "  Mults <- MC_Mults", "  OrForms <- MC_OrForms", "INIT Init", "NEXT Next", "INVARIANT Dump",
                     "CHECK_DEADLOCK FALSE", ""])
    res = run_tlc("RangesMC", cfg, generated_files={"RangesMC.tla": mc}, timeout_s=1800, keep_stdout=False)
    rep.add_tlc(res, "Ranges")
    chunks = [[(i, rec) for i, rec in enumerate(res.records, start=1)][k:k + 150] for k in range(0, len(res.records), 150)]
    results = workers.run_tasks(_range_chunk, chunks, init=_range_init, procs=16, timeout=900)
    for chunk, out in zip(chunks, results):
        if not isinstance(out, dict):
            raise MachineryError(f"range cases did not finish: {out}")
        if out["machinery"]:
            raise MachineryError(out["machinery"])
        stats["range_cases"] = stats.get("range_cases", 0) + out["cases"]
        stats["range_rewrites"] = stats.get("range_rewrites", 0) + out["rewrites"]
        for what, rname, text, case in out["bad"]:
            if what == "raised":
                rep.violation(case["message"], {"rule": rname, "program": text})
                continue
            sh = case["shape"]
            kf = next((e["id"] for e in known if blame.matches_signature(e, rname if rname != "format_code" else
                                                                         "symbolic_math.simplify_math_iterators", sh, text)), None)
            if kf:
                rep.known(kf, {"program": text.strip(), "output": case["output"].strip()})
            else:
                rep.violation(f"{rname}: {text.strip()!r} -> {case['output'].strip()!r}: expected {case['expected'][:4]} got {case['observed'][:4]}", case)


def _range_init():
    return import_pyrefact()


def _range_chunk(mods, chunk):
    sm, fixes = mods["symbolic_math"], mods["fixes"]
    box = list(range(-2, 5))
    rules = [("symbolic_math.simplify_constrained_range", sm.simplify_constrained_range),
             ("symbolic_math.simplify_math_iterators", sm.simplify_math_iterators),
             ("fixes.inline_math_comprehensions", fixes.inline_math_comprehensions),
             ("format_code", lambda s: mods["main"].format_code(s, preserve=frozenset({"r", "n"})))]
    out = {"machinery": None, "cases": 0, "rewrites": 0, "bad": []}
    for idx, rec in chunk:
        kind = rec["kind"]
        if kind == "comp":
            parts = [f"x {op} {c}" if c >= 0 else f"x {op} ({c})" for op, c in rec["fs"]]
            form = rec.get("form", "and")
            cond = (" and ".join(parts) if form == "and" else " or ".join(parts) if form == "or" else
                    f"{parts[0]} and ({parts[1]} or {parts[2]})" if form == "andor" else f"{parts[0]} or {parts[1]} and {parts[2]}")
            args = f"{rec['a']}, {rec['b']}" + (f", {rec['s']}" if rec["s"] != 1 else "")
            text = f"r = [x for x in range({args}) if {cond}]\n"
            if idx % 3 == 1 and rec["a"] == 0 and rec["s"] == 1:
                text = f"r = [x for x in range({rec['b']}) if {cond}]\n"          # the one-argument spelling
            envs, exps = [{}], [rec["exp"]]
        elif kind == "sumrange":
            text = f"r = sum(range({rec['a']}, {rec['b']}))\n"
            envs, exps = [{}], [rec["exp"][0]]
        elif kind in ("sumlit", "lenlit"):
            fn_name = "sum" if kind == "sumlit" else "len"
            lit = ", ".join(str(v) for v in rec["lit"])
            for_text = [f"r = {fn_name}(({lit}{',' if len(rec['lit']) == 1 else ''}))\n", f"r = {fn_name}([{lit}])\n"]
            text = for_text[idx % 2]
            envs, exps = [{}], [rec["exp"][0]]
        elif kind == "lencomp":
            text = f"r = len([x * {rec['s']} for x in range({rec['a']}, {rec['b']})])\n"
            envs, exps = [{}], [rec["exp"][0]]
        elif kind == "sumcomp":
            text = f"r = sum([x * {rec['s']} for x in range({rec['a']}, {rec['b']})])\n"
            envs, exps = [{}], [rec["exp"][0]]
        elif kind == "sumfilt":
            op, c = rec["fs"][0]
            cond = f"x {op} {c}" if c >= 0 else f"x {op} ({c})"
            elt = "x" if rec["s"] == 1 else f"x * {rec['s']}"
            text = (f"r = sum({elt} for x in range({rec['a']}, {rec['b']}) if {cond})\n" if idx % 2 else
                    f"r = sum([{elt} for x in range({rec['a']}, {rec['b']}) if {cond}])\n")
            envs, exps = [{}], [rec["exp"][0]]
        else:
            d = rec["a"]
            text = f"r = sum(range(n + {d}))\n" if d >= 0 else f"r = sum(range(n - {-d}))\n"
            envs, exps = [{"n": v} for v in box], rec["exp"]
        out["cases"] += 1
        # spec validation
        real = [run_prog(compile(text, "<r>", "exec"), e) for e in envs]
        if real != exps:
            out["machinery"] = f"Ranges.tla disagrees with CPython on {text!r}: {exps} vs {real}"
            return out
        for rname, fn in rules:
            if rname == "format_code" and idx % 6:
                continue
            try:
                res_text = fn(text)
            except Exception as exc:  # noqa: BLE001
                out["bad"].append(("raised", rname, text, {"message": f"{rname} raised {exc!r} on {text!r}"}))
                continue
            if res_text == text:
                continue
            out["rewrites"] += 1
            try:
                code = compile(res_text, "<after>", "exec")
            except SyntaxError:
                continue
            after = [run_prog(code, e) for e in envs]
            same = all(type(a) is type(b) and a == b for a, b in zip(after, exps))
            if same:
                continue
            sh = blame.shape(text, res_text)
            out["bad"].append(("wrong", rname, text, {"rule": rname, "program": text, "output": res_text, "expected": exps, "observed": after, "shape": sh}))
    return out


def main(argv=None) -> int:
    rep = Report(PROP, "model_checking")
    mods = import_pyrefact()
    t = tier()
    stats: Dict[str, int] = {}
    known = rep.known_entries()
    for label, c, templates, full_every in boolalg_runs(t):
        mc = "\n".join(["---- MODULE BoolAlgMC ----", "EXTENDS BoolAlg", "MC_VarSeq == <<" + ", ".join(sorted(v.strip() for v in c['vars_'].strip("{}").split(","))) + ">>", f"MC_Consts == {c['consts']}",
                        f"MC_Box == {c['box']}", 'MC_Ops == {"<", "<=", ">", ">=", "==", "!="}', f"MC_Shapes == {c['shapes']}", "====", ""])
        cfg = "\n".join(["CONSTANTS", "  VarSeq <- MC_VarSeq", "  Consts <- MC_Consts", "  Box <- MC_Box", "  Ops <- MC_Ops",
                         "  Shapes <- MC_Shapes", "INIT Init", "NEXT Next", "INVARIANT NegationCorrect", "INVARIANT Dump",
                         "CHECK_DEADLOCK FALSE", ""])
        res = run_tlc("BoolAlgMC", cfg, generated_files={"BoolAlgMC.tla": mc}, timeout_s=3000, keep_stdout=False, heap_gb=12)
        rep.add_tlc(res, f"BoolAlg {label}")
        if res.violated:
            rep.violation(f"BoolAlg.tla: {res.violated} fails ({label})", {"trace": res.error_trace})
            continue
        global VARS
        VARS = ["x", "y"] if '"y"' in c["vars_"] else ["x"]
        box = list(range(-2, 5))
        recs = list(enumerate(res.records))
        n = 16
        chunks = [recs[i::n] for i in range(n)]
        with mp.get_context("fork").Pool(n) as pool:
            parts = pool.map(_chunk, [(ch, box, templates, full_every) for ch in chunks])
        for st, spec_bad, bad in parts:
            for k, v in st.items():
                stats[k] = stats.get(k, 0) + v
            if spec_bad:
                raise MachineryError(f"BoolAlg.tla disagrees with CPython: {spec_bad[:3]}")
            for case in bad:
                if case["kind"] == "raised":
                    rep.violation(f"{case['rule']} raised {case['error']} on condition {case['expr']!r}", case)
                    continue
                sh = blame.shape(case["program"], case["output"])
                case["shape"] = sh
                stage = case["rule"]
                if stage == "format_code" and sh["old"] not in ("Compare", "BoolOp", "UnaryOp"):
                    # the first structural difference is not a rewrite of the condition: another property's business (C01)
                    stats["pipeline_differences_not_in_condition"] = stats.get("pipeline_differences_not_in_condition", 0) + 1
                    continue
                kf = next((e["id"] for e in known if blame.matches_signature(e, stage, sh, case["program"])), None)
                if kf:
                    rep.known(kf, {"expr": case["expr"], "rule": stage})
                    continue
                rep.violation(f"{case['rule']} ({case['template']}): {case['expr']!r} rewritten to a non-equivalent condition "
                              f"({sh['old_src'][:60]!r} -> {sh['new_src'][:60]!r}); differs at {case['valuation']}: "
                              f"{case['value_before']} -> {case['value_after']}", case)
        if res.records:
            r0 = res.records[len(res.records) // 2]
            rep.sample({"formula": render(r0["f"]), "truth_table": r0["t"]})
    ranges_part(rep, mods, t, known, stats)
    rep.coverage["evaluations"] = stats.get("rule_applications", 0) + stats.get("range_cases", 0)
    rep.coverage["distinct_nontrivial"] = stats.get("rewrites", 0) + stats.get("range_rewrites", 0)
    rep.coverage["traces_validated_against_impl"] = stats.get("formulas", 0) + stats.get("range_cases", 0)
    rep.coverage["detail"] = stats
    rep.coverage["exhaustive"] = True
    rep.coverage["rule"] = ("every formula of the bounded BoolAlg.tla grammar (atoms v op c, c op v, v op w; not / and / or shapes) is rewritten "
                            "by every condition-rewriting rule inside program templates and compared under all valuations of the box [-2, 4]^k; "
                            "Ranges.tla cases likewise; non-trivial = the rule changed the text")
    rep.assumptions += ["the truth table of BoolAlg.tla is validated against CPython for every formula (exit 2 on disagreement)",
                        "the box strictly contains every constant; complete for variable-vs-constant atoms, a bound for variable-vs-variable atoms"]
    return rep.finish()


if __name__ == "__main__":
    sys.exit(main())
