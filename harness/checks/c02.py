"""C02 - every individual rewrite rule preserves program behaviour.

Every rule of the catalogue (read from main.py on every run) is applied in isolation to every program of the
C01 space (ProgGen.tla programs, repository snippets under Closing.tla environments).  Each firing is a
single-step trace  Enter; Rule(r); Return  validated by TLC against PipelineTrace.tla (clauses KeepValid and
FinalObs).  A rule whose result needs an import that a later stage of the pipeline adds is observed after
add_missing_imports.
"""
from __future__ import annotations

import random
import sys
from typing import Dict, List

import blame
import c01
import execbox
import isolated
import pipecheck
import proj
import ptrace
from common import Report, import_pyrefact, tier, seed
from tlc import MachineryError

PROP = "C02"


def _dedupe_chunk(texts):
    mods = import_pyrefact()
    out = []
    for key, text in texts:
        try:
            res = mods["fixes"].remove_duplicate_functions(text, preserve=frozenset())
        except Exception as exc:  # noqa: BLE001
            res = f"__raised__ {type(exc).__name__}: {exc}"
        out.append((key, text, res))
    return out


def alpha_part(rep: Report, mods, t: str, rng: random.Random, runner) -> int:
    """Alpha.tla: every pair of shape-equal small functions, with the verdict 'same function up to parameter names';
    the duplicate-function rule may merge a pair only then.  Decided by execution of the program before / after."""
    import multiprocessing as mp
    import alpha
    recs = alpha.cases(rep, t)
    items = [(f"alpha:{'eq' if r['eq'] else 'ne'}:{i}", alpha.render(r)) for i, r in enumerate(recs)]
    n = 16
    with mp.get_context("fork").Pool(n) as pool:
        outs = [x for part in pool.map(_dedupe_chunk, [items[i::n] for i in range(n)]) for x in part]
    changed = [(k, text, res) for k, text, res in outs if res != text and not res.startswith("__raised__")]
    obs_texts = sorted({t_ for _, t_, _ in changed} | {r for _, _, r in changed})
    obs = dict(zip(obs_texts, runner.observe_many(obs_texts)))
    merged_eq = merged_ne = 0
    for key, text, res in changed:
        if key.startswith("alpha:eq"):
            merged_eq += 1
        else:
            merged_ne += 1
        if obs[text][0] == "ok" and obs[res] != obs[text]:
            kf, sh = pipecheck.known_by_signature(rep, "fixes.remove_duplicate_functions", text, res, text)
            case = {"input_id": key, "program": text, "rule": "fixes.remove_duplicate_functions", "output": res,
                    "obs_before": obs[text], "obs_after": obs[res], "alpha_equivalent": key.startswith("alpha:eq")}
            if kf:
                rep.known(kf, {"input_id": key})
            else:
                rep.violation("rule fixes.remove_duplicate_functions merged two functions that are not the same function up to parameter names: "
                              f"obs {obs[text][1][:40]!r} -> {obs[res][0]}/{obs[res][1][:40]!r}; input {key}", case)
    rep.coverage["alpha_pairs"] = {"shape_equal_pairs": len(recs), "alpha_equivalent": sum(1 for r in recs if r["eq"]),
                                   "merged_equivalent": merged_eq, "merged_not_equivalent": merged_ne}
    return len(recs)


def _contract_chunk(recs):
    import dataflow
    mods = import_pyrefact()
    out = []
    for r in recs:
        try:
            out.append(dataflow.contract(mods, r))
        except Exception as exc:  # noqa: BLE001
            out.append({"raised": [f"{type(exc).__name__}: {exc}"]})
    return out


CONSUMERS = ("fixes.undefine_unused_variables", "fixes.move_before_loop", "abstractions.create_abstractions")


def _consumer_chunk(items):
    """The rules that consume the analysis, on the runnable form of the programs on which it is not on the safe side."""
    import dataflow
    mods = import_pyrefact()
    out = []
    for key, rec, form in items:
        text = dataflow.program(rec) if form == "def" else dataflow.program_module(rec)
        res = []
        for name in CONSUMERS:
            m, f = name.split(".")
            fn = getattr(mods[m], f)
            isolated._fresh_caches(mods)
            try:
                new = fn(text, preserve=frozenset()) if isolated._takes_preserve(fn) else fn(text)
            except Exception as exc:  # noqa: BLE001
                res.append((name, None, f"{type(exc).__name__}: {exc}"))
                continue
            if new != text:
                res.append((name, new, None))
        out.append((key, text, res))
    return out


def dataflow_part(rep: Report, mods, t: str, rng: random.Random, runner) -> int:
    """Dataflow.tla: programs over two variables with the exact created / maybe-created / needed sets.  The real
    tracing.code_dependencies_outputs is measured against them (recorded, not judged); the runnable form of the programs
    goes through every rule in isolation and must print the same for every resolution of its tests and loop lengths."""
    import multiprocessing as mp
    import dataflow
    recs = dataflow.cases(rep, t)
    n = 16
    with mp.get_context("fork").Pool(n) as pool:
        parts = pool.map(_contract_chunk, [recs[i::n] for i in range(n)])
    misses = [None] * len(recs)
    for i, part in enumerate(parts):
        misses[i::n] = part

    def shape(block):
        return "[" + ",".join(x["k"] + (("(" + shape(x["body"]) + ("/" + shape(x["orelse"]) if x.get("orelse") else "") + ")") if "body" in x else "")
                              for x in block) + "]"
    classes: Dict[str, list] = {}
    summary: Dict[str, int] = {}
    for r, m in zip(recs, misses):
        for kind in m:
            summary[kind] = summary.get(kind, 0) + 1
        classes.setdefault(("+".join(sorted(m)) or "exact") + ":" + shape(r["prog"]), []).append(r)
    # behaviour: one program of every (kind of miss x statement shape) class, more of the classes with a miss, and a random rest
    per_class, extra = (1, 250) if t == "quick" else (6, 6000)
    chosen = []
    for key in sorted(classes):
        group = classes[key]
        k = per_class if key.startswith("exact") else per_class * 2
        chosen += [(key, r) for r in (group if len(group) <= k else rng.sample(group, k))]
    picked = {id(r) for _, r in chosen}
    rest = [r for r in recs if id(r) not in picked]
    chosen += [("random", r) for r in (rest if len(rest) <= extra else rng.sample(rest, extra))]
    # the variables may or may not be needed afterwards: both returned, or only one of them (a value that is read by a test
    # only - tests print what they read - or by nothing must still be the right one)
    items = [(f"dataflow:{key}:{i}", dataflow.program(r)) for i, (key, r) in enumerate(chosen)]
    items += [(f"dataflow:{key}:{i}:ret-{'ab'[i % 2]}", dataflow.program(r, ret="ab"[i % 2])) for i, (key, r) in enumerate(chosen)
              if t != "quick" or key != "random" or i % 2]
    items += [(f"dataflow:{key}:{i}:module:ret-{'ba'[i % 2]}:v{i % 4}",
               dataflow.with_vector(dataflow.program_module(r, ret="ba"[i % 2]), i % 4))
              for i, (key, r) in enumerate(chosen) if not dataflow.has_return(r["prog"]) and (t != "quick" or key != "random")]
    iso = isolated.run_isolated(items, timeout=120)
    # every program on which the analysis is not on the safe side goes through the rules that consume the analysis
    risky = [(f"dataflow-miss:{'+'.join(sorted(m))}:{form}:{i}", r, form) for i, (r, m) in enumerate(zip(recs, misses)) if m
             for form in ("def", "module") if form == "def" or not dataflow.has_return(r["prog"])]
    cap = 16000 if t == "quick" else 400000
    if len(risky) > cap:
        risky = rng.sample(risky, cap)
    with mp.get_context("fork").Pool(n) as pool:
        consumed = [x for part in pool.map(_consumer_chunk, [risky[i::n] for i in range(n)]) for x in part]
    # a module-level program carries ONE input vector in its first line: judged under every vector
    for key, text, results in consumed:
        if ":module:" not in key:
            iso.append((key, text, results))
            continue
        for k in range(len(dataflow.MODULE_VECTORS)):
            swapped = [(rule, dataflow.with_vector(out, k) if out is not None else None, err) for rule, out, err in results]
            swapped = [(rule, out, err) for rule, out, err in swapped if err is not None or out is not None]
            iso.append((f"{key}:v{k}", dataflow.with_vector(text, k), swapped))
    texts = sorted({text for _, text, _ in iso} | {out for _, _, res in iso for _, out, err in res if err is None})
    obs = dict(zip(texts, runner.observe_many(texts)))
    fired = 0
    for key, text, results in iso:
        if obs[text][0] != "ok":
            raise MachineryError(f"a Dataflow.tla program does not run: {obs[text]}\n{text}")
        for rule, out, err in results:
            if err is not None:
                continue                      # C04
            fired += 1
            if obs[out] == obs[text] or obs[out][0] == "syntax":          # invalid output of a rule in isolation: C03
                continue
            kf, sh = pipecheck.known_by_signature(rep, rule, text, out, text)
            case = {"input_id": key, "program": text, "rule": rule, "output": out, "obs_before": obs[text], "obs_after": obs[out], "shape": sh}
            if kf:
                rep.known(kf, {"input_id": key, "rule": rule})
            else:
                rep.violation(f"rule {rule} changed behaviour on a Dataflow.tla program: obs {obs[text][1][:40]!r} -> "
                              f"{obs[out][0]}/{obs[out][1][:40]!r}; input {key}", case)
    examples = {}
    for r, m in zip(recs, misses):
        for kind in m:
            if kind not in examples:
                examples[kind] = {"program": dataflow.snippet(r), "names": m[kind], "model": {k: r[k] for k in ("created", "maybe", "needed")}}
    rep.coverage["dataflow"] = {"programs": len(recs), "analysis_on_the_safe_side": sum(1 for m in misses if not m),
                                "analysis_not_on_the_safe_side": summary, "examples": examples, "statement_shape_classes": len(classes),
                                "programs_run_through_every_rule": len(items), "programs_run_through_the_consuming_rules": len(risky),
                                "rule_firings": fired}
    return len(items) + len(risky)


def main(argv=None) -> int:
    rep = Report(PROP, "exploration")
    mods = import_pyrefact()
    t = tier()
    rng = random.Random(seed())
    runner = execbox.Runner(n=16, timeout=5)
    consts = ptrace.code_constants(mods)
    fired: Dict[str, int] = {}
    try:
        progs = c01.program_space(rep, t, rng, runner, n_gen=800 if t == "quick" else 9000, n_snip=None)
        iso = isolated.run_isolated(progs, timeout=120)
        firings = []
        crashes = 0
        for key, text, results in iso:
            for rule, out, err in results:
                if err is not None:
                    crashes += 1       # C04
                    continue
                fired[rule] = fired.get(rule, 0) + 1
                firings.append((key, text, rule, out))
        runner.observe_many([f[3] for f in firings])
        # a rule may legitimately rely on the import stage that follows it in the pipeline
        retry = []
        for key, text, rule, out in firings:
            base, after = runner.observe(text), runner.observe(out)
            if base != after and after[0] == "exc:NameError":
                retry.append((key, text, rule, out))
        fixed_up = {}
        for key, text, rule, out in retry:
            try:
                fixed_up[(key, rule)] = mods["fixes"].add_missing_imports(out)
            except Exception:
                pass
        runner.observe_many(list(fixed_up.values()))
        # one single-step trace per firing, validated by TLC
        traces, meta = [], {}
        for i, (key, text, rule, out) in enumerate(firings, start=1):
            final = out
            if (key, rule) in fixed_up and runner.observe(fixed_up[(key, rule)]) == runner.observe(text):
                final = fixed_up[(key, rule)]
            events = [{"stage": rule, "changed": True, "before": text, "after": out}]
            tr = ptrace.build_trace(i, text, {}, final, None, [], consts, want=("obs",), obs=runner.observe)
            # build_trace without events treats the run as an early return; describe the single step explicitly
            dg = {text: 1, out: 2, final: 3 if final != out else 2}
            tr["ev"] = [{"k": "sub", "s": rule, "b": 1, "a": 2, "valid": proj.valid(out), "ast": 2, "layout": False, "n": 0}]
            if final != out:
                tr["ev"].append({"k": "sub", "s": "fixes.add_missing_imports", "b": 2, "a": 3, "valid": proj.valid(final),
                                 "ast": 3, "layout": False, "n": 0})
            tr["input"]["d"], tr["input"]["ast"] = 1, 1
            tr["ret"]["d"] = dg[final]
            tr["ret"]["early"] = "invalid"      # no control events in a single-step trace
            tr["ret"]["wsequal"] = True
            traces.append(tr)
            meta[i] = (key, text, rule, out, final)
        verdicts = ptrace.validate(rep, traces, consts, "C02 single-step traces", batch=4000)
        for i, v in verdicts.items():
            key, text, rule, out, final = meta[i]
            bad = {c for c in v["bad"] if c in ("KeepValid", "FinalObs", "FinalValid")}
            if not bad:
                continue
            kf, sh = pipecheck.known_by_signature(rep, rule, text, out, text)
            base, after = runner.observe(text), runner.observe(final)
            case = {"input_id": key, "program": text, "rule": rule, "output": out, "obs_before": base, "obs_after": after,
                    "shape": sh, "clauses": sorted(bad)}
            if kf:
                rep.known(kf, {"input_id": key, "rule": rule, "rewrite": f"{sh['old_src'][:80]} -> {sh['new_src'][:80]}"})
                continue
            rep.violation(f"rule {rule} changed behaviour ({'/'.join(sorted(bad))}): {sh['old_src'][:90]!r} -> {sh['new_src'][:90]!r}; "
                          f"obs {base[0]}/{base[1][:40]!r} -> {after[0]}/{after[1][:40]!r}; input {key}", case)
        n_alpha = alpha_part(rep, mods, t, rng, runner)
        n_alpha += dataflow_part(rep, mods, t, rng, runner)
    finally:
        runner.close()
    rules = isolated.rule_names()
    rep.coverage["evaluations"] = len(progs) * len(rules) + n_alpha
    rep.coverage["distinct_nontrivial"] = len(firings)
    rep.coverage["traces_validated_against_impl"] = len(firings)
    rep.coverage["rule_firings"] = dict(sorted(fired.items()))
    rep.coverage["rules_not_exercised"] = sorted(set(rules) - set(fired))
    rep.coverage["rule_crashes_left_to_C04"] = crashes
    rep.coverage["rule"] = (f"{len(rules)} rules (catalogue read from main.py) x every program of the C01 space; non-trivial = the rule "
                            "changed the text (one single-step trace each). Rules listed under rules_not_exercised never fired: no claim for them")
    for key, text, rule, out in firings[:: max(1, len(firings) // 3)][:3]:
        rep.sample({"input_id": key, "rule": rule, "program": text[-300:], "output": out[-300:]})
    rep.assumptions += ["as C01; a result that only lacks an import added by the pipeline's import stage is observed after that stage"]
    return rep.finish()


if __name__ == "__main__":
    sys.exit(main())
