"""C10 - rewrites are scheduled transactionally and never overlap.

spec/Scheduler.tla is model-checked by TLC (all C10 clauses as invariants) over every
scenario of the bounded space; each terminal state is written out as a JSON record and
replayed into the real processing.fix / processing.chain with synthetic rules (binding A).
Outcomes that differ from the model's are judged by TLC against the declarative
clauses (spec/SchedulerObs.tla).  Real scheduler calls recorded while real rules run are
validated against the same actions (spec/SchedulerTrace.tla, binding B).
"""
from __future__ import annotations

import ast
import itertools
import json
import os
import random
import re
import sys
from typing import Dict, List, Tuple

from common import Report, import_pyrefact, tier, seed, digest
import tlc
from tlc import MachineryError, run_tlc, tla_value

PROP = "C10"

INVARIANTS = ["TypeOK", "Atomic", "NoOverlapApplied", "Decided", "DropJustified", "AcceptClean",
              "OffsetsStable", "ResultIsSplice", "IgnoredUntouched"]


# --------------------------------------------------------------------------------------
# text layouts: abstract units <-> concrete Python text
# --------------------------------------------------------------------------------------
class Layout:
    """A concrete text made of units; positions of the model are unit boundaries."""

    def __init__(self, mode: str, nlines: int, ncells: int = 2):
        self.mode = mode
        self.nlines = nlines
        self.ncells = ncells
        self.per_line = (ncells + 2) if mode == "list" else 4
        self.nunits = self.per_line * nlines
        self.lines = [(l * self.per_line, (l + 1) * self.per_line) for l in range(nlines)]
        if mode == "block":
            # if c0: / a0 / else: / b0   - indentation and line ends are units of their own
            self.block_units = ["if c0:", "\n", "    ", "a0", "\n", "else:", "\n", "    ", "b0", "\n"]
            self.nunits = len(self.block_units)
            self.lines = [(0, 2), (2, 5), (5, 7), (7, 10)]
            self.ranges = [(5, 7), (7, 9), (2, 4), (8, 9), (3, 4), (7, 10), (2, 5), (7, 7), (10, 10), (5, 5)]
            return
        if mode == "list":
            pts = [l * self.per_line + j for l in range(nlines) for j in range(1, ncells + 2)]
            self.ranges = [(a, b) for a in pts for b in pts if a <= b]
        else:
            self.ranges = []
            for l in range(nlines):
                b = l * 4
                self.ranges += [(b, b + 3), (b + 1, b + 2), (b, b), (b + 1, b + 1)]

    def forbidden(self):
        if self.mode != "block":
            return []
        out = []
        for (a, b) in self.ranges:
            starts_with_ws = a < b and not self.block_units[a].strip()
            if a < b:
                out.append((a, b, 0)) if (a, b) != (5, 7) else None      # deletions that would empty a block (pass repair)
            if not (starts_with_ws and (a, b) in ((7, 9), (2, 4))):
                out.append((a, b, 2))                                    # Dedent only where it removes indentation in front of code
        return out

    def ws_units(self):
        if self.mode != "block":
            return []
        return [i + 1 for i, t in enumerate(self.block_units) if not t.strip()]

    def text_of_tokens(self, toks) -> str:
        """Exact text of a token sequence (block mode: markers are bare names)."""
        return "".join(self.unit_text(t, set()) if t > 0 else self.marker_text(-t) for t in toks)

    def decode_exact(self, text: str):
        """Exact (whitespace-sensitive) projection for block mode; units with equal text are told apart by order."""
        table: Dict[str, List[int]] = {}
        for u in range(1, self.nunits + 1):
            table.setdefault(self.unit_text(u, set()), []).append(u)
        for rank in (1, 3, 4):
            table.setdefault(self.marker_text(rank), []).append(-rank)
        keys = sorted(table, key=lambda t: -len(t))
        out, i, last = [], 0, 0
        while i < len(text):
            for t in keys:
                if text.startswith(t, i):
                    vals = table[t]
                    if vals[0] < 0:
                        v = vals[0]
                    else:
                        later = [u for u in vals if u > last]
                        v = later[0] if later else vals[-1]
                        last = v
                    out.append(v)
                    i += len(t)
                    break
            else:
                return None
        return out

    # unit u is 1-based
    def unit_text(self, u: int, ignored_lines) -> str:
        if self.mode == "block":
            return self.block_units[u - 1]
        l, j = divmod(u - 1, self.per_line)
        ign = "pyrefact: ignore " if l in ignored_lines else ""
        if self.mode == "list":
            if j == 0:
                return f"x{l} = ["
            if j == self.per_line - 1:
                return f"]  # {ign}L{l}\n"
            return f"a{l}{j}, "
        return [f"f{l}(", f"a{l}", ")", f"  # {ign}L{l}\n"][j]

    def marker_text(self, rank: int) -> str:
        if rank == 0:
            return ""
        if self.mode == "block":
            return "(((" if rank == 1 else f"m{rank}"
        if self.mode == "list":
            return "(((, " if rank == 1 else f"m{rank}, "
        return "(((" if rank == 1 else f"m{rank}"

    def source(self, ignored_lines) -> Tuple[str, List[int]]:
        offs = [0]
        parts = []
        for u in range(1, self.nunits + 1):
            t = self.unit_text(u, ignored_lines)
            parts.append(t)
            offs.append(offs[-1] + len(t))
        return "".join(parts), offs

    def decode(self, text: str, ignored_lines):
        """Project a concrete output to the token sequence of the model (whitespace-insensitive).

        Units with identical text (closing brackets) are told apart by order: original units
        can only appear in increasing order in a splice.
        """
        strip = lambda s: re.sub(r"\s+", "", s)
        table: Dict[str, List[int]] = {}
        for u in range(1, self.nunits + 1):
            t = strip(self.unit_text(u, ignored_lines))
            if t:
                table.setdefault(t, []).append(u)
        for rank in range(1, 8):
            table.setdefault(strip(self.marker_text(rank)), []).append(-rank)
        keys = sorted(table, key=lambda t: -len(t))
        s = strip(text)
        out, i, last = [], 0, 0
        while i < len(s):
            for t in keys:
                if s.startswith(t, i):
                    vals = table[t]
                    if vals[0] < 0:
                        v = vals[0]
                    else:
                        later = [u for u in vals if u > last]
                        v = later[0] if later else vals[-1]
                        last = v
                    out.append(v)
                    i += len(t)
                    break
            else:
                return None
        return out

    def expected_tokens(self, result, ignored_lines):
        """Model tokens with whitespace-only units removed (they are invisible to decode)."""
        out = []
        for tok in result:
            if tok > 0 and not self.unit_text(tok, ignored_lines).strip():
                continue
            out.append(tok)
        return out


def cfg_for(layout: Layout, *, payloads, explicit, ignore_sets, max_yields, ngroups, invariants,
            module="SchedMC", extends="SchedulerGen", extra=""):
    mc = "\n".join([
        f"---- MODULE {module} ----",
        f"EXTENDS {extends}",
        "MC_Lines == " + tla_value([list(l) for l in layout.lines]),
        "MC_RangeSet == " + tla_value({tuple(r) for r in layout.ranges}).replace("(", "<<").replace(")", ">>"),
        "MC_IgnoreSets == {" + ", ".join("{" + ", ".join(str(i + 1) for i in s) + "}" for s in ignore_sets) + "}",
        "MC_Forbidden == {" + ", ".join(f"<<{a}, {b}, {n}>>" for a, b, n in layout.forbidden()) + "}",
        extra,
        "====", ""])
    cfg = "\n".join([
        "CONSTANTS",
        f"  NUnits = {layout.nunits}",
        "  Lines <- MC_Lines",
        "  RangeSet <- MC_RangeSet",
        "  Payloads = {" + ", ".join(map(str, payloads)) + "}",
        "  Brk = 1",
        "  ExplicitTxns = {" + ", ".join(map(str, explicit)) + "}",
        "  IgnoreSets <- MC_IgnoreSets",
        f"  MaxYields = {max_yields}",
        f"  NGroups = {ngroups}",
        "  MaxIter = 5",
        f"  Dedent = {2 if layout.mode == 'block' else 0}",
        "  WsUnits = {" + ", ".join(map(str, layout.ws_units())) + "}",
        f"  EmitAlts = {'TRUE' if layout.mode == 'block' else 'FALSE'}",
        "  Forbidden <- MC_Forbidden",
        "INIT Init", "NEXT Next",
        *[f"INVARIANT {i}" for i in invariants],
        "CHECK_DEADLOCK FALSE", ""])
    return mc, cfg


def tla_set_of_pairs(pairs):
    return "{" + ", ".join(f"<<{a}, {b}>>" for a, b in sorted(pairs)) + "}"


def cfg_for2(layout, **kw):
    mc, cfg = cfg_for(layout, **kw)
    # tla_value renders tuples as <<..>> already; rebuild the range set explicitly to be safe
    mc = re.sub(r"MC_RangeSet == .*", "MC_RangeSet == " + tla_set_of_pairs(layout.ranges), mc)
    mc = re.sub(r"MC_Lines == .*", "MC_Lines == <<" + ", ".join(f"<<{a}, {b}>>" for a, b in layout.lines) + ">>", mc)
    return mc, cfg


# --------------------------------------------------------------------------------------
# replay of one scenario into the real scheduler through processing.fix / chain
# --------------------------------------------------------------------------------------
class Replayer:
    def __init__(self, mods, layout: Layout):
        self.core = mods["core"]
        self.processing = mods["processing"]
        self.layout = layout

    def _form(self, lo, hi, new) -> str:
        """Deterministic choice of the yield form for (range, payload) in stmt mode."""
        if self.layout.mode in ("list", "block"):
            return "text"
        if new == 0 and lo == hi:
            return "text"
        # a third of the plain replacements go through the pattern front end (processing.find_replace), which has to hand
        # the transaction number on - 0 included
        if new >= 2 and hi - lo in (1, 3) and (lo * 5 + hi + new) % 3 == 0:
            return "find"
        return "ast" if (lo * 7 + hi * 3 + new) % 2 == 0 else "text"

    def run(self, rec: dict, entry: str):
        lay = self.layout
        core, processing = self.core, self.processing
        ignored_lines = {lay.lines.index(tuple(r)) for r in rec["ignored"]}
        source, offs = lay.source(ignored_lines)
        tree = ast.parse(source)
        cache: Dict[tuple, tuple] = {}
        ngroups = max([y["g"] for y in rec["yields"]] + [1])
        calls = [0] * (ngroups + 1)

        def node_for(lo, hi):
            l = lo // 4
            stmt = tree.body[l]
            return stmt if hi - lo == 3 else stmt.value.args[0]

        def make(y):
            lo, hi, new = y["lo"], y["hi"], y["new"]
            form = self._form(lo, hi, new)
            # members of an explicit transaction go through the pattern front end whenever they can
            if y["txn"] != -1 and lay.mode == "stmt" and new >= 2 and hi - lo in (1, 3):
                form = "find"
            key = (lo, hi, new, form)
            if key in cache:
                return cache[key]
            text = lay.marker_text(new)
            if lay.mode == "block" and new == 2:      # Dedent: the same code without its blank units
                text = "".join(lay.unit_text(u, set()) for u in range(lo + 1, hi + 1) if lay.unit_text(u, set()).strip())
            if form == "find":
                l = lo // 4
                pair = ("find", (f"f{l}(a{l})" if hi - lo == 3 else f"a{l}", text))
            elif form == "text":
                if lay.mode == "stmt" and lo == hi and lo % 4 == 0 and text:
                    text = text + "\n"
                pair = (core.Range(offs[lo], offs[hi]), text)
            else:
                l = lo // 4
                if lo == hi:
                    col = 0 if lo % 4 == 0 else len(lay.unit_text(lo, ignored_lines))
                    if lo % 4 == 0:
                        newnode = ast.Expr(value=ast.Name(id=text, ctx=ast.Load()), lineno=l + 1, col_offset=0)
                    else:
                        newnode = ast.Name(id=text, ctx=ast.Load(), lineno=l + 1, col_offset=col)
                    pair = (None, newnode)
                else:
                    old = node_for(lo, hi)
                    if new == 0:
                        pair = (old, None)
                    elif isinstance(old, ast.Expr):
                        pair = (old, ast.Expr(value=ast.Name(id=text, ctx=ast.Load())))
                    else:
                        pair = (old, ast.Name(id=text, ctx=ast.Load()))
            cache[key] = pair
            return pair

        explicit_rank = {v: i for i, v in enumerate(sorted({y["txn"] for y in rec["yields"] if y["txn"] != -1}))}

        def make_rule(g):
            ys = [y for y in rec["yields"] if y["g"] == g]

            def body(source):
                calls[g] += 1
                if source != rule.orig:
                    return
                for y in ys:
                    old, new = make(y)
                    # explicit transaction numbers by rank, from 0 (order is all that matters, and 0 is a number like any other)
                    txn = None if y["txn"] == -1 else explicit_rank[y["txn"]]
                    if old == "find":
                        yield from processing.find_replace(source, new[0], new[1], transaction=txn)
                    elif txn is None:
                        yield (old, new)
                    else:
                        yield (old, new, txn)

            # every other rule of a chain takes the preserve set: chain() must keep the rules in the order given
            if entry == "chain" and g % 2 == 0:
                def rule(source, preserve):
                    yield from body(source)
            else:
                def rule(source):
                    yield from body(source)
            rule.orig = source
            rule.__name__ = f"synthetic_rule_{g}"
            return rule

        rules = [make_rule(g) for g in range(1, ngroups + 1)]
        if entry == "fix":
            out = processing.fix(rules[0])(source)
            max_iter = 5
        elif entry == "fix3":
            out = processing.fix(max_iter=3)(rules[0])(source)
            max_iter = 3
        else:
            out = processing.chain(rules)(source)
            max_iter = 10
        return source, out, calls[1:], max_iter, ignored_lines


def judge_with_tlc(rep: Report, layout: Layout, cases: List[dict]) -> List[Tuple[dict, str]]:
    """Ask TLC whether each observed outcome satisfies the declarative clauses of C10.

    Returns (case, verdict) with verdict "ok" or the name of the first clause no admissible
    accepted set satisfies.
    """
    if not cases:
        return []
    trace = json.dumps(cases)
    mc = "\n".join([
        "---- MODULE SchedObsMC ----",
        "EXTENDS SchedulerObs",
        "MC_Lines == <<" + ", ".join(f"<<{a}, {b}>>" for a, b in layout.lines) + ">>",
        "====", ""])
    cfg = "\n".join([
        "CONSTANTS", f"  NUnits = {layout.nunits}", "  Lines <- MC_Lines", "  Brk = 1",
        "  RangeSet = {}", "  Payloads = {}", "  ExplicitTxns = {}", "  IgnoreSets = {}",
        "  MaxYields = 0", "  NGroups = 1", "  MaxIter = 5", "  Dedent = 0", "  WsUnits = {}", "  Forbidden = {}",
        "INIT ObsInit", "NEXT ObsNext", "CHECK_DEADLOCK FALSE", ""])
    res = run_tlc("SchedObsMC", cfg, generated_files={"SchedObsMC.tla": mc, "obs.json": trace},
                  workers=1, env_extra={"OBS_FILE": "obs.json"}, timeout_s=1800)
    rep.add_tlc(res, f"SchedulerObs judge {layout.mode}")
    verdicts = {r["i"]: r["verdict"] for r in res.records}
    if len(verdicts) != len(cases):
        raise MachineryError(f"SchedulerObs judged {len(verdicts)} of {len(cases)} cases")
    return [(c, verdicts[i + 1]) for i, c in enumerate(cases)]


def _replay_chunk(args):
    layout, records = args
    from common import import_pyrefact
    mods = import_pyrefact()
    rp = Replayer(mods, layout)
    stats = {"replays": 0, "nontrivial": 0}
    mismatches, errors = [], []
    for rec in records:
        ngroups = max([y["g"] for y in rec["yields"]] + [1])
        entries = ["chain"] if ngroups > 1 else ["fix", "chain"]
        if ngroups == 1 and len(rec["yields"]) and (len(rec["yields"]) + rec["yields"][0]["lo"]) % 5 == 0:
            entries.append("fix3")
        if rec["dropped"] or rec["rolled"]:
            stats["nontrivial"] += 1
        for entry in entries:
            stats["replays"] += 1
            try:
                source, out, calls, max_iter, ignored_lines = rp.run(rec, entry)
            except Exception as exc:  # the scheduler itself raised
                errors.append({"layout": [layout.mode, layout.nlines, layout.ncells], "entry": entry,
                               "scenario": rec, "error": repr(exc)})
                continue
            if layout.mode == "block":
                # validity of an indentation-sensitive text is the parser's call: TLC gives the splice of the model and every
                # admissible splice; the harness renders them and lets ast.parse decide between "applied" and "rolled back"
                def final(toks):
                    text = layout.text_of_tokens(toks)
                    try:
                        ast.parse(text)
                        return text
                    except SyntaxError:
                        return source
                expected_text = final(rec["splice"])
                if out == expected_text:
                    continue
                admitted = {final(a) for a in rec["alts"]}
                mismatches.append({
                    "layout": [layout.mode, layout.nlines, layout.ncells], "entry": entry, "scenario": {k: v for k, v in rec.items() if k != "alts"},
                    "source": source, "output": out, "observed": layout.decode_exact(out), "expected": rec["splice"],
                    "expected_text": expected_text, "calls": calls, "expected_calls": 0, "byte_identical": out == source,
                    "exact": True, "admitted_by_statement": out in admitted})
                continue
            got = layout.decode(out, ignored_lines)
            want = layout.expected_tokens(rec["result"], ignored_lines)
            exp_calls = 1 if rec["calls"] == 1 else max_iter
            ok = got == want and all(c == exp_calls for c in calls)
            if ok and (rec["rolled"] or rec["result"] == list(range(1, layout.nunits + 1))) and out != source:
                ok = False   # "leaves the text exactly as it was"
            if ok:
                continue
            mismatches.append({
                "layout": [layout.mode, layout.nlines, layout.ncells], "entry": entry, "scenario": rec,
                "source": source, "output": out, "observed": got, "expected": want,
                "calls": calls, "expected_calls": exp_calls, "byte_identical": out == source,
            })
    return stats, mismatches, errors


def replay_records(rep: Report, mods, layout: Layout, records: List[dict], stats: dict, rng: random.Random,
                   sample_cap=None, procs=16):
    if sample_cap is not None and len(records) > sample_cap:
        records = rng.sample(records, sample_cap)
        stats["sampled"] = True
    import multiprocessing as mp
    n = max(1, min(procs, len(records) // 200 + 1))
    chunks = [records[i::n] for i in range(n)]
    if n == 1:
        parts = [_replay_chunk((layout, chunks[0]))]
    else:
        with mp.get_context("fork").Pool(n) as pool:
            parts = pool.map(_replay_chunk, [(layout, c) for c in chunks])
    mismatches = []
    for st, mm, errs in parts:
        stats["replays"] += st["replays"]
        stats["nontrivial"] += st["nontrivial"]
        mismatches += mm
        for case in errs:
            rep.violation(f"scheduler raised {case['error']} ({case['entry']})", case)
    return mismatches


def settle_mismatches(rep: Report, layout: Layout, mismatches: List[dict]):
    """Code differs from the model: TLC decides whether the observed outcome still satisfies C10."""
    if not mismatches:
        return
    judgeable, direct = [], []
    for m in mismatches:
        if m.get("exact"):
            if m["admitted_by_statement"]:
                rep.coverage["model_stale_cases"] = rep.coverage.get("model_stale_cases", 0) + 1
            else:
                direct.append((m, "the output text is none of the outcomes TLC computed as admissible (AdmissibleSplices, validity by ast.parse)"))
            continue
        if m["observed"] is None:
            direct.append((m, "output is not a splice of the text units and replacement markers"))
        else:
            judgeable.append(m)
    cases = []
    for m in judgeable[:3000]:
        sc = m["scenario"]
        cases.append({
            "yields": sc["yields"], "ignored": sc["ignored"],
            "observed": m["observed"],
            "nows": [u for u in range(1, layout.nunits + 1)
                     if not layout.unit_text(u, set()).strip()],
            "identical": m["byte_identical"], "calls": m["calls"], "maxiter": 10 if m["entry"] == "chain" else
            (3 if m["entry"] == "fix3" else 5),
        })
    for m, (case, verdict) in zip(judgeable, judge_with_tlc(rep, layout, cases)):
        if verdict == "ok":
            rep.notes.append(f"outcome differs from Scheduler.tla but satisfies every C10 clause: {digest(m)}")
            rep.coverage["model_stale_cases"] = rep.coverage.get("model_stale_cases", 0) + 1
        else:
            direct.append((m, f"clause {verdict} has no admissible explanation"))
    for m, why in direct:
        rep.violation(f"{why}; entry={m['entry']} yields={json.dumps(m['scenario']['yields'])} "
                      f"expected={m['expected']} observed={m['observed']}", m)


# --------------------------------------------------------------------------------------
def model_runs(t: str):
    """(label, layout, generator constants, replay cap) per tier."""
    runs = []
    L = Layout
    if t == "quick":
        runs.append(("list-2x2-y2", L("list", 2, 2), dict(payloads=[0, 2], explicit=[7], ignore_sets=[[], [1]],
                                                     max_yields=2, ngroups=2), None))
        runs.append(("stmt-2-y2", L("stmt", 2), dict(payloads=[0, 1, 2], explicit=[7], ignore_sets=[[], [0]],
                                                   max_yields=2, ngroups=2), None))
        runs.append(("stmt-1-y3", L("stmt", 1), dict(payloads=[0, 2], explicit=[7], ignore_sets=[[], [0]],
                                                   max_yields=3, ngroups=2), None))
        runs.append(("list-1x2-y3", L("list", 1, 2), dict(payloads=[0, 2], explicit=[7], ignore_sets=[[]],
                                                     max_yields=3, ngroups=1), None))
        runs.append(("block-y2", L("block", 4), dict(payloads=[0, 1, 2, 3], explicit=[7], ignore_sets=[[]],
                                                    max_yields=2, ngroups=1), None))
    else:
        runs.append(("list-2x2-y2", L("list", 2, 2), dict(payloads=[0, 1, 2, 3], explicit=[5, 7], ignore_sets=[[], [0], [1], [0, 1]],
                                                     max_yields=2, ngroups=2), None))
        runs.append(("list-2x3-y2", L("list", 2, 3), dict(payloads=[0, 1, 2], explicit=[7], ignore_sets=[[], [1]],
                                                     max_yields=2, ngroups=2), None))
        runs.append(("stmt-2-y3", L("stmt", 2), dict(payloads=[0, 1, 2], explicit=[7], ignore_sets=[[], [0]],
                                                   max_yields=3, ngroups=2), 400000))
        runs.append(("stmt-3-y2", L("stmt", 3), dict(payloads=[0, 1, 2, 3], explicit=[5, 7], ignore_sets=[[], [1], [0, 2]],
                                                   max_yields=2, ngroups=3), None))
        runs.append(("list-1x2-y3", L("list", 1, 2), dict(payloads=[0, 1, 2], explicit=[7], ignore_sets=[[], [0]],
                                                     max_yields=3, ngroups=2), 400000))
        runs.append(("list-1x1-y4", L("list", 1, 1), dict(payloads=[0, 2], explicit=[7], ignore_sets=[[]],
                                                     max_yields=4, ngroups=2), 400000))
        runs.append(("block-y3", L("block", 4), dict(payloads=[0, 1, 2, 3], explicit=[7], ignore_sets=[[]],
                                                    max_yields=3, ngroups=2), 400000))
    return runs


def simulation_runs(t: str):
    """(label, layout, constants, traces per worker, depth, workers): random deeper scenarios.

    TLC's simulator enumerates all successors of a state before picking one, and AddYield has
    thousands, so simulation yields roughly 17 scenarios per second and worker.
    """
    L = Layout
    if t == "quick":
        return [("sim-list-2x3-y5", L("list", 2, 3), dict(payloads=[0, 1, 2, 3, 4], explicit=[3, 5, 7],
                                                        ignore_sets=[[], [0], [1]], max_yields=5, ngroups=3), 100, 30, 12)]
    return [("sim-list-2x3-y6", L("list", 2, 3), dict(payloads=[0, 1, 2, 3, 4], explicit=[3, 5, 7],
                                                    ignore_sets=[[], [0], [1]], max_yields=6, ngroups=3), 1200, 40, 16),
            ("sim-stmt-3-y6", L("stmt", 3), dict(payloads=[0, 1, 2, 3, 4], explicit=[3, 5, 7],
                                                ignore_sets=[[], [0], [2]], max_yields=6, ngroups=3), 2500, 40, 16)]


def main(argv=None) -> int:
    rep = Report(PROP, "model_checking")
    mods = import_pyrefact()
    rng = random.Random(seed())
    t = tier()
    stats = {"replays": 0, "nontrivial": 0}
    total_records = 0
    exhaustive = True

    for label, layout, consts, cap in model_runs(t):
        mc, cfg = cfg_for2(layout, invariants=INVARIANTS + ["Dump"], **consts)
        res = run_tlc("SchedMC", cfg, generated_files={"SchedMC.tla": mc}, coverage=(label.endswith("y2") and t == "quick"),
                      timeout_s=3000, keep_stdout=False)
        rep.add_tlc(res, label)
        if res.violated:
            rep.violation(f"Scheduler.tla itself violates {res.violated} ({label}) - the modelled algorithm breaks C10",
                          {"label": label, "trace": res.error_trace})
            continue
        records = res.records
        total_records += len(records)
        if not records:
            raise MachineryError(f"{label}: TLC produced no scenario records")
        # vacuity: the bounded space must contain each kind of decision
        kinds = {d[1] for r in records for d in r["dropped"]}
        needed = {"self", "conflict", "duplicate"} | ({"ignored"} if any(consts["ignore_sets"]) else set())
        if 1 in consts["payloads"] and not any(r["rolled"] for r in records):
            raise MachineryError(f"{label}: no scenario with a rollback")
        if not needed <= kinds and consts["max_yields"] >= 2 and len(consts["payloads"]) > 1:
            raise MachineryError(f"{label}: scenario space lacks decisions {needed - kinds}")
        for r in records:
            if r["dropped"] and r["accepted"] and len(rep.coverage["samples"]) < 3:
                rep.sample({"layout": label, "scenario": r,
                            "rendered_source": layout.source({layout.lines.index(tuple(x)) for x in r["ignored"]})[0]})
                break
        if cap is not None and len(records) > cap:
            exhaustive = False
        mism = replay_records(rep, mods, layout, records, stats, rng, sample_cap=cap)
        settle_mismatches(rep, layout, mism)

    # random deeper scenarios by TLC simulation
    for label, layout, consts, num, depth, nw in simulation_runs(t):
        mc, cfg = cfg_for2(layout, invariants=INVARIANTS + ["Dump"], **consts)
        res = run_tlc("SchedMC", cfg, generated_files={"SchedMC.tla": mc}, simulate=f"num={num}", depth=depth,
                      seed=seed() + 17, workers=nw, timeout_s=1500, keep_stdout=False)
        rep.add_tlc(res, label)
        if res.violated:
            rep.violation(f"Scheduler.tla itself violates {res.violated} ({label})", {"label": label, "trace": res.error_trace})
            continue
        recs = list({json.dumps(r, sort_keys=True): r for r in res.records}.values())
        total_records += len(recs)
        mism = replay_records(rep, mods, layout, recs, stats, rng)
        settle_mismatches(rep, layout, mism)

    # binding B: real scheduler calls of real rules validated against the same actions
    import c10_trace
    ntr = c10_trace.validate_real_traces(rep, mods, t, rng)

    rep.coverage["evaluations"] = stats["replays"] + ntr
    rep.coverage["distinct_nontrivial"] = stats["nontrivial"]
    rep.coverage["traces_validated_against_impl"] = stats["replays"] + ntr
    rep.coverage["scenarios"] = total_records
    rep.coverage["real_scheduler_calls_validated"] = ntr
    rep.coverage["exhaustive"] = bool(exhaustive)
    rep.coverage["rule"] = (
        "every terminal state of the bounded Scheduler.tla model is one scenario (yield sequence x ignored lines); "
        "each is replayed through processing.fix and/or processing.chain with synthetic rules; non-trivial = the "
        "scenario has a dropped transaction, a rollback, or more than one accepted transaction; plus every "
        "_schedule_rewrites/_apply_rewrites call recorded while real rules format the repository's example snippets")
    rep.assumptions += [
        "positions of the model are order-isomorphic to character offsets (units are rendered as non-empty texts)",
        "replacement ranks are rendered to texts whose string order equals the rank order",
        "the output is projected to tokens ignoring whitespace (layout repairs of _do_rewrite are not part of C10)",
    ]
    return rep.finish()


if __name__ == "__main__":
    try:
        sys.exit(main())
    except MachineryError as exc:
        print(f"MACHINERY-FAILURE property={PROP}: {exc}", file=sys.stderr)
        sys.exit(2)
