"""Alpha.tla cases rendered as programs: two shape-equal functions, both called, everything printed."""
from __future__ import annotations

import random
from typing import Dict, List, Tuple

from tlc import MachineryError, run_tlc

PRELUDE = "a = 10\nb = 20\nk = 5\n\n\ndef neg1(v):\n    return -v\n\n\n"


def expr(e: dict) -> str:
    if e["k"] == "var":
        return e["n"]
    if e["k"] == "bin":
        l, r = expr(e["l"]), expr(e["r"])
        if e["l"]["k"] == "bin":
            l = f"({l})"
        return f"{l} {e['op']} {r}"
    return f"{e['f']}({expr(e['a'])})"


def render(rec: dict) -> str:
    f, g = rec["f"], rec["g"]
    args = ", ".join(str(v) for v in (3, 4)[: len(f["params"])])
    return (PRELUDE + f"def first({', '.join(f['params'])}):\n    return {expr(f['body'])}\n\n\n"
            + f"def second({', '.join(g['params'])}):\n    return {expr(g['body'])}\n\n\n"
            + f"print(first({args}), second({args}))\nprint(first({args}) + second({args}))\n")


def cases(rep, tier: str) -> List[dict]:
    mc = "\n".join(["---- MODULE AlphaMC ----", "EXTENDS Alpha",
                    'MC_ParamLists == {<<"a">>, <<"b">>, <<"a", "b">>, <<"b", "a">>}', "====", ""])
    cfg = "\n".join(["CONSTANTS", '  Names = {"a", "b", "k"}', '  Callees = {"abs", "neg1"}', '  Ops = {"+", "-"}', "  ParamLists <- MC_ParamLists",
                     "INIT Init", "NEXT Next", "INVARIANT Refines", "INVARIANT Symmetric", "INVARIANT Dump", "CHECK_DEADLOCK FALSE", ""])
    res = run_tlc("AlphaMC", cfg, generated_files={"AlphaMC.tla": mc}, timeout_s=1800, keep_stdout=False)
    rep.add_tlc(res, "Alpha")
    if res.violated:
        raise MachineryError(f"Alpha.tla: {res.violated} fails")
    if not res.records:
        raise MachineryError("Alpha: no cases")
    return res.records


def programs(rep, tier: str, rng: random.Random, limit: int) -> List[Tuple[str, str]]:
    """[(key, program)]: every alpha-equivalent pair plus a sample of the shape-equal pairs that are not."""
    recs = cases(rep, tier)
    eq = [r for r in recs if r["eq"]]
    ne = [r for r in recs if not r["eq"]]
    pick = rng.sample(eq, min(limit // 3, len(eq))) + rng.sample(ne, min(limit - min(limit // 3, len(eq)), len(ne)))
    out = []
    for i, r in enumerate(pick):
        out.append((f"alpha:{'eq' if r['eq'] else 'ne'}:{i}", render(r)))
    return out
