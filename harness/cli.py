"""Entry point of every check: /verif/check <ID> [--tier quick|thorough] [--replay PATH]."""
from __future__ import annotations

import argparse
import importlib
import os
import sys
import traceback


def main() -> int:
    ap = argparse.ArgumentParser()
    ap.add_argument("prop")
    ap.add_argument("--tier", choices=["quick", "thorough"], default=None)
    ap.add_argument("--replay", default=None)
    ap.add_argument("--seed", type=int, default=None)
    args, rest = ap.parse_known_args()
    if args.tier:
        os.environ["VERIF_TIER"] = args.tier
    if args.seed is not None:
        os.environ["VERIF_SEED"] = str(args.seed)
    if args.replay:
        os.environ["VERIF_REPLAY"] = args.replay
    name = args.prop.lower()
    if name == "setup":
        import setup_check
        return setup_check.main()
    if name == "selftest":
        import selftest
        return selftest.main(rest)
    from tlc import MachineryError
    try:
        mod = importlib.import_module(name)
    except ModuleNotFoundError as exc:
        print(f"MACHINERY-FAILURE: no check module for {args.prop}: {exc}", file=sys.stderr)
        return 2
    try:
        return int(mod.main(rest) or 0)
    except MachineryError as exc:
        print(f"MACHINERY-FAILURE property={args.prop.upper()}: {exc}", file=sys.stderr)
        return 2
    except Exception:
        traceback.print_exc()
        print(f"MACHINERY-FAILURE property={args.prop.upper()}: harness exception", file=sys.stderr)
        return 2


if __name__ == "__main__":
    sys.exit(main())
