"""Recording of one format_code run as a sequence of stage events (for PipelineTrace.tla).

The stage list is derived from the code on every run: main.py is parsed and every call
`<module>.<function>(source, ...)` inside format_code / _multi_run_fixes becomes a wrap point.
Wrappers are installed from outside (module attributes), only under PYREFACT_VERIF=1.
"""
from __future__ import annotations

import ast
import functools
import inspect
from contextlib import contextmanager
from typing import Callable, Dict, List, Optional, Tuple

import hooks

RULE_MODULES = ("fixes", "object_oriented", "abstractions", "performance", "performance_numpy",
                "performance_pandas", "symbolic_math", "tracing")


def rule_catalogue(mods) -> Dict[str, List[Tuple[str, str]]]:
    """{'multi': [(module, func), ...] in call order, 'format': [...], 'single': [...]} parsed from main.py."""
    src = inspect.getsource(mods["main"])
    tree = ast.parse(src)
    out = {"multi": [], "format": [], "single": []}
    for fn in tree.body:
        if isinstance(fn, ast.FunctionDef) and fn.name in ("_multi_run_fixes", "format_code"):
            key = "multi" if fn.name == "_multi_run_fixes" else "format"
            for node in ast.walk(fn):
                if isinstance(node, ast.Call) and isinstance(node.func, ast.Attribute) and \
                        isinstance(node.func.value, ast.Name) and node.func.value.id in RULE_MODULES:
                    out[key].append((node.lineno, node.col_offset, node.func.value.id, node.func.attr))
                # members of the single-run chain are referenced, not called
                if isinstance(node, ast.Call) and isinstance(node.func, ast.Attribute) and node.func.attr == "chain":
                    for sub in ast.walk(node):
                        if isinstance(sub, ast.Attribute) and isinstance(sub.value, ast.Name) and \
                                sub.value.id in RULE_MODULES and sub is not node.func:
                            out["single"].append((sub.lineno, sub.col_offset, sub.value.id, sub.attr))
    res = {}
    for k, v in out.items():
        seen, lst = set(), []
        for _, _, m, f in sorted(v):
            lst.append((m, f))
        res[k] = lst
    return res


def all_rules(mods) -> List[Tuple[str, str]]:
    cat = rule_catalogue(mods)
    seen, out = set(), []
    for key in ("single", "multi", "format"):
        for mf in cat[key]:
            if mf not in seen and hasattr(mods[mf[0]], mf[1]):
                seen.add(mf)
                out.append(mf)
    return out


class PipelineRecorder:
    def __init__(self, mods):
        self.mods = mods
        self.events: List[dict] = []
        self._saved: List[Tuple[object, str, object]] = []
        self.depth = 0

    def _wrap(self, owner, attr: str, stage: str, text_arg=0):
        orig = getattr(owner, attr)
        rec = self

        @functools.wraps(orig)
        def wrapper(*a, **k):
            before = a[text_arg] if len(a) > text_arg else k.get("source")
            rec.depth += 1
            try:
                out = orig(*a, **k)
            except BaseException as exc:
                rec.depth -= 1
                if rec.depth == 0:
                    rec.events.append({"stage": stage, "raised": type(exc).__name__, "before": before})
                raise
            rec.depth -= 1
            if rec.depth == 0:
                res = out[0] if isinstance(out, tuple) else out
                rec.events.append({"stage": stage, "changed": res != before, "before": before, "after": res})
            return out

        setattr(owner, attr, wrapper)
        self._saved.append((owner, attr, orig))

    def install(self):
        if not hooks.enabled():
            raise RuntimeError("hooks requested but PYREFACT_VERIF!=1")
        mods = self.mods
        for m, f in all_rules(mods):
            self._wrap(mods[m], f, f"{m}.{f}")
        main = mods["main"]
        self._wrap(main.rmspace, "format_str", "rmspace.format_str")
        self._wrap(mods["processing"], "minimize_whitespace_line_differences", "minimize_whitespace", text_arg=1)
        # the single-run chain: processing.chain(...) returns the stage function
        processing = mods["processing"]
        orig_chain = processing.chain
        rec = self

        def chain(fix_funcs, *a, **k):
            fn = orig_chain(fix_funcs, *a, **k)

            def single_run(source, *aa, **kk):
                rec.depth += 1
                try:
                    out = fn(source, *aa, **kk)
                finally:
                    rec.depth -= 1
                if rec.depth == 0:
                    rec.events.append({"stage": "single_run_chain", "changed": out != source, "before": source, "after": out})
                return out
            return single_run

        processing.chain = chain
        self._saved.append((processing, "chain", orig_chain))

        # pass markers: _multi_run_fixes is entered / left (no depth change: its rules stay visible)
        orig_multi = main._multi_run_fixes

        @functools.wraps(orig_multi)
        def multi(*a, **k):
            if rec.depth == 0:
                rec.events.append({"marker": "pb"})
            try:
                return orig_multi(*a, **k)
            finally:
                if rec.depth == 0:
                    rec.events.append({"marker": "pe"})

        main._multi_run_fixes = multi
        self._saved.append((main, "_multi_run_fixes", orig_multi))

    def uninstall(self):
        for owner, attr, orig in reversed(self._saved):
            setattr(owner, attr, orig)
        self._saved = []


@contextmanager
def recording(mods):
    rec = PipelineRecorder(mods)
    rec.install()
    try:
        yield rec
    finally:
        rec.uninstall()


def trace_format_code(mods, source: str, **opts):
    """(result or None, error or None, events) of one format_code run."""
    with recording(mods) as rec:
        try:
            out = mods["main"].format_code(source, **opts)
            err = None
        except BaseException as exc:  # noqa: BLE001
            if isinstance(exc, KeyboardInterrupt):
                raise
            out, err = None, f"{type(exc).__name__}: {exc}"
        return out, err, rec.events
