"""Catalogue and renderer of ProgGen.tla programs."""
from __future__ import annotations

import random
from typing import Dict, List, Tuple

from tlc import run_tlc, MachineryError

# pool: n (int), xs (list of ints), d (dict str->int), s (str), acc (int), out (list), flag (bool)
INIT = {"n": "int", "xs": "list", "d": "dict", "s": "str", "acc": "int", "out": "list", "flag": "bool"}
PROLOGUE = "n = 5\nxs = [4, 1, 3, 1]\nd = {'a': 1, 'b': 2}\ns = 'hello'\nacc = 0\nout = []\nflag = False\n"
EPILOGUE = "print(n, xs, sorted(d.items()), s, acc, out, flag)\n"

# name -> (reads, writes, text with {p} parameter in 1..3)
T: Dict[str, Tuple[dict, dict, str]] = {
    "for_append_if": ({"xs": "list"}, {"out": "list"},
                      "out = []\nfor x in xs:\n    if x > {p}:\n        out.append(x * 2)\n"),
    "for_append_all": ({"n": "int"}, {"out": "list"}, "out = []\nfor i in range(n):\n    out.append(i + {p})\n"),
    "for_set_add": ({"xs": "list"}, {"out": "list"}, "seen = set()\nfor x in xs:\n    if x != {p}:\n        seen.add(x)\nout = sorted(seen)\n"),
    "for_dict_build": ({"xs": "list"}, {"d": "dict"}, "d = {{}}\nfor x in xs:\n    d[str(x)] = x + {p}\n"),
    "dict_keys_loop": ({"d": "dict"}, {"acc": "int"}, "for key in d.keys():\n    acc += d[key] * {p}\n"),
    "dict_items_loop": ({"d": "dict"}, {"out": "list"}, "out = []\nfor key, value in d.items():\n    if value >= {p}:\n        out.append(key)\n"),
    "nested_loops": ({"xs": "list", "n": "int"}, {"out": "list"},
                     "out = []\nfor x in xs:\n    for j in range({p}):\n        if x > j:\n            out.append(x - j)\n"),
    "sum_loop": ({"xs": "list"}, {"acc": "int"}, "acc = 0\nfor x in xs:\n    acc += x * {p}\n"),
    "sum_range": ({"n": "int"}, {"acc": "int"}, "acc = sum(range(n + {p}))\n"),
    "sum_comp": ({"n": "int"}, {"acc": "int"}, "acc = sum([i * {p} for i in range(n)])\n"),
    "if_else_assign": ({"n": "int"}, {"acc": "int"}, "if n > {p}:\n    acc = n * 2\nelse:\n    acc = n + 1\n"),
    "if_not_else": ({"flag": "bool", "n": "int"}, {"acc": "int"}, "if not flag:\n    acc = {p}\nelse:\n    acc = n\n    n = n + 1\n"),
    "bool_bounds": ({"n": "int"}, {"flag": "bool"}, "flag = n > {p} and n > 1 and n < 10\n"),
    "bool_or_bounds": ({"n": "int"}, {"flag": "bool"}, "flag = n < {p} or n < 4 or n == 7\n"),
    "negated_cmp": ({"n": "int"}, {"flag": "bool"}, "flag = not n > {p}\n"),
    "common_tail": ({"n": "int"}, {"acc": "int"}, "if n % 2 == {p} % 2:\n    acc = 1\n    print('tail')\nelse:\n    acc = 2\n    print('tail')\n"),
    "common_tail_in_def": ({"n": "int"}, {"acc": "int"},
                           "def branchy(v):\n    if v > {p}:\n        print('big')\n        print('tail')\n    else:\n        print('small')\n        print('tail')\nbranchy(n)\nacc = n\n"),
    "kwonly_camel": ({"xs": "list"}, {"out": "list"},
                     "def scale_all(values, *, scale_factor=2):\n    scaleFactor = scale_factor * {p}\n    return [v * scaleFactor + scale_factor for v in values]\nout = scale_all(xs)\n"),
    "varargs_camel": ({"s": "str"}, {"s": "str"},
                      "def join_all(*name_parts, **extra_opts):\n    nameParts = [part.upper() for part in name_parts]\n    extraOpts = sorted(extra_opts)\n"
                      "    return '-'.join(nameParts) + '/' + '-'.join(name_parts) + '/' + ','.join(extraOpts) + str(len(extra_opts) + {p})\ns = join_all(s, 'cd', zeta=1, alpha=2)\n"),
    "posonly_camel": ({"n": "int"}, {"acc": "int"},
                      "def mix(base_value, /, step_size={p}):\n    baseValue = base_value + 100\n    stepSize = step_size * 2\n    return baseValue * stepSize + base_value - step_size\nacc = mix(n)\n"),
    "dict_literal_assign_dup": ({}, {"d": "dict"}, "d = {{'a': 1, 'b': 2}}\nd['a'] = {p} + 10\nd['c'] = 3\n"),
    "dict_update_dup": ({}, {"d": "dict"}, "d = {{'a': 1, 'k': 5}}\nd.update({{'a': {p} + 20, 'z': 0}})\n"),
    "dict_dup_key_literal": ({}, {"d": "dict"}, "d = {{'a': 1, 'b': 2, 'a': {p} + 30}}\n"),
    "set_star_dup": ({"n": "int"}, {"out": "list"}, "out = [*{{n, n}}, {p}]\n"),
    "guarded_chain_comp": ({"xs": "list"}, {"out": "list"},
                           "out = [x for x in [x for x in xs if x != 1] if 12 % (x - 1) == {p} % 2]\n"),
    "default_if_chain_return": ({"n": "int"}, {"s": "str"},
                                "def label(v):\n    x = 'small'\n    if v > 7:\n        x = 'big'\n    elif v > {p} + 4:\n        x = 'mid'\n    return x\ns = label(n) + label(9) + label(6)\n"),
    "sorted_key": ({"xs": "list"}, {"out": "list"}, "out = sorted(list(xs), key=lambda v: -v)[:{p}]\n"),
    "range_le_stop": ({}, {"out": "list"}, "out = [i for i in range(6) if i <= 8 - {p}]\n"),
    "for_else_break": ({"xs": "list"}, {"acc": "int"}, "for x in xs:\n    if x == {p} + 5:\n        acc = x\n        break\nelse:\n    acc = -1\n"),
    "if_assign_default": ({"n": "int"}, {"acc": "int"}, "acc = 0\nif n > {p}:\n    acc = 1\n"),
    "closure_counter": ({"n": "int"}, {"acc": "int"},
                        "def make(step):\n    total = 0\n    def bump():\n        nonlocal total\n        total += step\n        return total\n    return bump\nb = make({p})\nb()\nacc = b() + n\n"),
    "str_build_loop": ({"xs": "list"}, {"s": "str"}, "s = ''\nfor x in xs:\n    s += str(x * {p})\n"),
    "any_all": ({"xs": "list"}, {"flag": "bool"}, "flag = any([x > {p} for x in xs]) and all([x > 0 for x in xs])\n"),
    "len_compare": ({"xs": "list"}, {"flag": "bool"}, "flag = len(xs) > 0 and len(out) == 0 or len(xs) == {p}\n"),
    "nested_if_same_tail": ({"n": "int"}, {"acc": "int"},
                            "def cls(v):\n    if v > {p}:\n        if v > 4:\n            r = 3\n        else:\n            r = 2\n        print('in')\n    else:\n        r = 1\n        print('in')\n    return r\nacc = cls(n) + cls(1)\n"),
    "early_continue": ({"xs": "list"}, {"acc": "int"},
                       "for x in xs:\n    if x > {p}:\n        acc += x\n        acc += 1\n        print(acc)\n"),
    "while_count": ({"n": "int"}, {"acc": "int"}, "k = 0\nwhile k < n:\n    k += {p}\nacc = k\n"),
    "while_true_break": ({"n": "int"}, {"acc": "int"}, "k = 0\nwhile True:\n    k += 1\n    if k > n + {p}:\n        break\nacc = k\n"),
    "func_early_return": ({"n": "int"}, {"acc": "int"},
                          "def pick(v):\n    if v > {p}:\n        result = v * 2\n    else:\n        result = v + 1\n    return result\nacc = pick(n)\n"),
    "func_if_return": ({"n": "int"}, {"flag": "bool"},
                       "def check(v):\n    if v == {p}:\n        return True\n    else:\n        return False\nflag = check(n)\n"),
    "func_unused_and_dead": ({"n": "int"}, {"acc": "int"},
                             "def helper(v):\n    unused = v + 1\n    return v * {p}\n    print('dead')\ndef never_called():\n    return 0\nacc = helper(n)\n"),
    "listcomp_filter_range": ({"n": "int"}, {"out": "list"}, "out = [i for i in range(0, n + 4, {p}) if i >= 2]\n"),
    "map_filter_lambda": ({"xs": "list"}, {"out": "list"}, "out = list(map(lambda v: v + {p}, filter(lambda v: v > 1, xs)))\n"),
    "sorted_reversed": ({"xs": "list"}, {"out": "list"}, "out = list(reversed(sorted(xs)))[:{p}]\n"),
    "sorted_first": ({"xs": "list"}, {"acc": "int"}, "acc = sorted(xs)[0] + {p}\n"),
    "in_list_literal": ({"n": "int"}, {"flag": "bool"}, "flag = n in [1, {p}, 5]\n"),
    "enumerate_unused": ({"xs": "list"}, {"acc": "int"}, "for idx, x in enumerate(xs):\n    acc += x + {p}\n"),
    "zip_unused": ({"xs": "list"}, {"acc": "int"}, "for a, _ in zip(xs, range({p}, 9)):\n    acc += a\n"),
    "str_join_loop": ({"xs": "list"}, {"s": "str"}, "parts = []\nfor x in xs:\n    parts.append(str(x + {p}))\ns = '-'.join(parts)\n"),
    "dict_literal_update": ({}, {"d": "dict"}, "d = {{}}\nd['x'] = {p}\nd['y'] = 2\nd.update({{'z': 3}})\n"),
    "list_literal_append": ({}, {"out": "list"}, "out = []\nout.append({p})\nout.append(7)\nout.extend([8, 9])\n"),
    "try_finally": ({"n": "int"}, {"acc": "int"}, "try:\n    acc = n // ({p} - 2)\nexcept ZeroDivisionError:\n    acc = -1\nfinally:\n    print('done')\n"),
    "assert_and_pointless": ({"n": "int"}, {"acc": "int"}, "assert n >= 0\nn + {p}\n[1, 2]\nacc = n\n"),
    "const_condition": ({"n": "int"}, {"acc": "int"}, "if {p} > 2:\n    acc = n\nelse:\n    acc = -n\nif 1 == 2:\n    print('never')\n"),
    "dup_functions": ({"n": "int"}, {"acc": "int"},
                      "def first_twin(v):\n    w = v + {p}\n    return w * 2\ndef second_twin(u):\n    t = u + {p}\n    return t * 2\nacc = first_twin(n) + second_twin(n)\n"),
    "class_static": ({"n": "int"}, {"acc": "int"},
                     "class Calc:\n    def double(self, v):\n        return v * {p}\n    def run(self, v):\n        return self.double(v) + 1\nacc = Calc().run(n)\n"),
    "constant_reuse": ({"n": "int"}, {"acc": "int"}, "acc = n * 1234 + {p}\nacc = acc - 1234\nacc = acc % 1234\nacc = acc + 1234\nacc = acc // 1234\n"),
    "camel_names": ({"n": "int"}, {"acc": "int"}, "myValue = n + {p}\nOtherValue = myValue * 2\nacc = OtherValue\n"),
    "if_elif_chain": ({"n": "int"}, {"s": "str"}, "if n == {p}:\n    s = 'a'\nelif n == {p} + 1:\n    s = 'b'\nelif n > 3:\n    s = 'c'\nelse:\n    s = 'd'\n"),
    "redundant_else_return": ({"n": "int"}, {"acc": "int"},
                              "def sign(v):\n    if v > {p}:\n        return 1\n    else:\n        print('low')\n        return -1\nacc = sign(n)\n"),
    "while_maybe_zero": ({"n": "int"}, {"acc": "int"},
                         "def scan(v):\n    while v > {p} + 3:\n        return 100\n    return v\nacc = scan(n)\n"),
    "comp_as_statement": ({"xs": "list"}, {"acc": "int"}, "def note(v):\n    print('note', v)\n    return v\n[note(x + {p}) for x in xs]\nacc = len(xs)\n"),
    "any_loop": ({"xs": "list"}, {"flag": "bool"}, "flag = False\nfor x in xs:\n    if x == {p}:\n        flag = True\n        break\n"),
    "min_max_loop": ({"xs": "list"}, {"acc": "int"}, "acc = xs[0]\nfor x in xs:\n    if x > acc:\n        acc = x\nacc += {p}\n"),
    "string_format": ({"n": "int", "s": "str"}, {"s": "str"}, "s = '%s-%d' % (s, n + {p})\ns = '{{}}!'.format(s)\n"),
    "set_ops": ({"xs": "list"}, {"out": "list"}, "out = sorted(set(xs) | {{{p}, 9}})\n"),
    "tuple_swap": ({"n": "int", "acc": "int"}, {"n": "int", "acc": "int"}, "n, acc = acc + {p}, n\n"),
    "overused_string": ({"s": "str"}, {"out": "list"},
                        "def paths(v):\n    a = 'some/path/to/something/cool' + v\n    b = 'some/path/to/something/cool' + v * {p}\n    c = 'some/path/to/something/cool'\n"
                        "    e = 'some/path/to/something/cool'\n    f = 'some/path/to/something/cool'\n    return [a, b, c, e, f, 'some/path/to/something/cool']\nout = paths(s)\n"),
    "if_flow_same_calls": ({"n": "int"}, {"out": "list"},
                           "out = []\ndef do_stuff(v):\n    out.append(v)\n    return v\nx_1 = 11\ny_1 = 12 + {p}\nif n > 3:\n    do_stuff(x_1)\n    do_stuff(y_1 - x_1 ** 2)\n"
                           "    out.append(do_stuff(y_1) - do_stuff(x_1))\nelse:\n    do_stuff(y_1)\n    do_stuff(x_1 - y_1 ** 2)\n    out.append(do_stuff(x_1) - do_stuff(y_1))\n"),
    "open_read_close": ({"s": "str"}, {"s": "str"},
                        "import os\nimport tempfile\nfd, tmp_path = tempfile.mkstemp()\nos.write(fd, (s * {p}).encode())\nos.close(fd)\nhandle = open(tmp_path)\ns = handle.read()\n"
                        "handle.close()\nos.unlink(tmp_path)\n"),
    "logging_format": ({"n": "int"}, {"acc": "int"},
                       "import logging\nimport sys\nlogging.basicConfig(stream=sys.stdout, level=logging.INFO, format='%(message)s')\n"
                       "logging.info('value: {{}} and {{}}'.format(n, {p}))\nlogging.warning(f'again: {{n}}')\nacc = n\n"),
    "zip_zip": ({"xs": "list"}, {"out": "list"}, "rows = [xs, [x + {p} for x in xs]]\nout = [list(r) for r in zip(*zip(*rows))]\n"),
    "subscript_loop": ({"xs": "list"}, {"out": "list"}, "out = [xs[i] for i in range(len(xs))]\nout.append({p})\n"),
    "merge_dups": ({"n": "int"}, {"acc": "int"},
                   "def first_fn(v):\n    return abs(v) + {p}\ndef second_fn(w):\n    return abs(w) + {p}\ndef third_fn(w):\n    return len(str(w)) + {p}\nacc = first_fn(n) * 100 + second_fn(-n) * 10 + third_fn(n)\n"),
    "underscore_reader": ({"xs": "list"}, {"acc": "int"}, "acc = 0\nfor x in xs:\n    _ = x * {p}\n    acc += _\n"),
    "static_method_first_line": ({"n": "int"}, {"acc": "int"},
                                 "class Tool:\n    @staticmethod\n    def twice(v):\n        return v * 2 + {p}\nacc = Tool.twice(n) + Tool().twice(1)\n"),
    "two_classes_same_method": ({"n": "int"}, {"acc": "int"},
                                "class Plain:\n    def __init__(self, base):\n        self.base = base\n    def helper(self, v):\n        return self.base + v\n"
                                "    def run(self, v):\n        return self.helper(v) * 2\nclass Utils:\n    @staticmethod\n    def helper(v):\n        return v + {p}\n"
                                "    def run(self, v):\n        return self.helper(v) * 3\nacc = Plain(n).run(1) * 100 + Utils().run(2)\n"),
    "chained_compare_branches": ({"n": "int"}, {"acc": "int"},
                                 "def pick(v):\n    if 0 < v < {p} + 4:\n        pass\n    else:\n        return -1\n    return v\nacc = pick(n) * 100 + pick(0) * 10 + pick(9)\n"),
    "chained_compare_loop": ({"xs": "list"}, {"out": "list"},
                             "out = []\nfor x in xs:\n    if {p} <= x <= 3:\n        out.append(x)\n        out.append(x * 2)\n        out.append(x * 3)\n"),
    "or_filter_range": ({}, {"out": "list"}, "out = [x for x in range(10) if x < {p} or x > 7]\n"),
    # a `while True` whose only way out is a break in the else clause of an inner loop
    "inner_else_break": ({"xs": "list"}, {"out": "list"},
                         "def drain(queue):\n    seen = []\n    while True:\n        for item in queue:\n            if item > {p} + 1:\n                break\n"
                         "            seen.append(item)\n        else:\n            break\n        queue = [q - 1 for q in queue]\n    seen.append(-1)\n    return seen\n"
                         "out = drain([abs(v) % 7 for v in xs])\n"),
    # a variable that only the test of the loop reads
    "while_flag_only_in_test": ({"n": "int"}, {"acc": "int"},
                                "x = abs(n) + 1\ndone = False\nwhile not done:\n    x = x * 3\n    done = x > 15 + {p}\nacc = x\n"),
    # a later loop binds the same variable again and reads the old value in its iterable
    "loop_variable_reused_in_iterable": ({}, {"out": "list"},
                                         "sq = []\nfor i in range(3 + {p}):\n    sq.append(i * i)\nfor i in range(i):\n    sq.append(-i)\nout = sq\n"),
    "strict_and_nonstrict_bound": ({}, {"out": "list", "acc": "int"},
                                   "out = [v for v in range(6) if v < {p} and v <= {p}]\nacc = sum(1 for v in range(6) if v < {p} + 2 or v <= {p} + 2)\n"),
    # slices of sorted(..) whose bound is no literal: a negated name or call means "all but the last n", not "the n smallest"
    "sorted_slice_negated_name": ({"xs": "list", "n": "int"}, {"out": "list"},
                                  "k = abs(n) % 2 + {p}\nout = sorted(xs)[:-k] + sorted(xs, reverse=True)[:-len([k])] + sorted(xs)[-k:] + sorted(xs)[:k]\n"),
    # a comprehension over a comprehension whose element does something: how often, and in which order, is it evaluated
    "effectful_comp_over_set_comp": ({"xs": "list"}, {"out": "list", "acc": "int"},
                                     "seen = []\n\n\ndef note(v):\n    seen.append(v)\n    return v % (3 + {p})\n\n\n"
                                     "first = {note(x) for x in {y % 5 for y in xs}}\nsecond = [note(x) for x in [y + 1 for y in xs]]\n"
                                     "third = {note(x) for x in {y for y in xs} if x > {p}}\nfourth = {note(x) for x in {y for y in xs}}\n"
                                     "out = sorted(first) + second + sorted(third) + sorted(fourth) + seen\nacc = len(seen)\n"),
    "with_nullcontext": ({"n": "int"}, {"acc": "int"}, "import contextlib\nwith contextlib.nullcontext(n + {p}) as got:\n    acc = got\n"),
}


def tla_templates() -> str:
    recs = []
    for name, (reads, writes, _) in sorted(T.items()):
        r = "{" + ", ".join(f'<<"{v}", "{t}">>' for v, t in sorted(reads.items())) + "}"
        w = "{" + ", ".join(f'<<"{v}", "{t}">>' for v, t in sorted(writes.items())) + "}"
        recs.append(f'[name |-> "{name}", reads |-> {r}, writes |-> {w}]')
    return "{" + ",\n  ".join(recs) + "}"


def programs(rep, tier: str, rng: random.Random, limit: int) -> List[Tuple[str, str]]:
    """[(key, program text)]: ProgGen.tla programs, enumerated by TLC (sampled down to `limit`)."""
    maxblocks = 2
    params = "{1, 2, 3}" if tier != "quick" else "{1, 2}"
    mc = "\n".join(["---- MODULE ProgGenMC ----", "EXTENDS ProgGen",
                    "MC_Templates == " + tla_templates(),
                    "MC_InitTypes == {" + ", ".join(f'<<"{v}", "{t}">>' for v, t in sorted(INIT.items())) + "}",
                    "====", ""])
    cfg = "\n".join(["CONSTANTS", "  Templates <- MC_Templates", f"  Params = {params}", f"  MaxBlocks = {maxblocks}",
                     "  InitTypes <- MC_InitTypes", "INIT Init", "NEXT Next", "INVARIANT WellTyped", "INVARIANT Dump",
                     "CHECK_DEADLOCK FALSE", ""])
    res = run_tlc("ProgGenMC", cfg, generated_files={"ProgGenMC.tla": mc}, timeout_s=1800, keep_stdout=False)
    rep.add_tlc(res, "ProgGen")
    if not res.records:
        raise MachineryError("ProgGen: no programs")
    recs = res.records
    rep.coverage["proggen_space"] = len(recs)
    if len(recs) > limit:
        # keep every single-block program, sample the pairs
        single = [r for r in recs if len(r["blocks"]) == 1]
        multi = [r for r in recs if len(r["blocks"]) > 1]
        recs = single + rng.sample(multi, max(0, limit - len(single)))
    out = []
    for r in recs:
        body = "".join(T[b["t"]][2].replace("{{", "\x00").replace("}}", "\x01").replace("{p}", str(b["p"]))
                       .replace("\x00", "{").replace("\x01", "}") for b in r["blocks"])
        key = "gen:" + "+".join(f"{b['t']}({b['p']})" for b in r["blocks"])
        out.append((key, PROLOGUE + body + EPILOGUE))
    return out
