------------------------------ MODULE Dataflow ------------------------------
(***************************************************************************)
(* Which names does a piece of code create, and which does it need?         *)
(*                                                                         *)
(* tracing.code_dependencies_outputs(code) answers that question for the     *)
(* rules that delete assignments (undefine_unused_variables), move           *)
(* statements out of loops (move_before_loop) and cut code out into          *)
(* functions (create_abstractions).  It returns                             *)
(*     created   names the code has surely bound when it is done,            *)
(*     maybe     names the code may have bound,                              *)
(*     required  names the code may read before it has bound them itself.    *)
(* The rules are only right if   created  is a SUBSET of the names bound on   *)
(* every execution that runs to the end,  maybe  a SUPERSET of the names      *)
(* bound on some execution, and  required  a SUPERSET of the names read       *)
(* before being bound on some execution.                                     *)
(*                                                                         *)
(* This module is the semantics those three sets are measured against.  A    *)
(* program is a block of statements over a few variables:                    *)
(*   [k |-> "asg", w, r]          w = f(r)        (r: set of variables read)  *)
(*   [k |-> "aug", w]             w += 1                                      *)
(*   [k |-> "use", r]             print(r)                                    *)
(*   [k |-> "break"], [k |-> "continue"], [k |-> "return"]                    *)
(*   [k |-> "if",    r, ww, body, orelse]  test reads r, goes either way; ww  *)
(*                                        = "" or a variable the test binds   *)
(*                                        itself:  if (ww := cond(r)):        *)
(*   [k |-> "while", r, body, orelse]      any number of iterations (0 too)   *)
(*   [k |-> "for",   w, r, body, orelse]   iterable reads r once, every       *)
(*                                        iteration binds w                  *)
(*   [k |-> "with",  w, r, body]           with f(r) as w:                    *)
(* An execution state is [st, w, n]: st = "run" | "brk" | "cnt" | "ret" (a    *)
(* break / continue looking for its loop, a return leaving the code), w =     *)
(* names bound so far BY THIS CODE, n =                                       *)
(* names read while not in w.  Exec(block, S) is the collecting semantics:    *)
(* the set of states in which block can end when started in a state of S.     *)
(* Both w and n only grow along an execution, so a loop is unrolled          *)
(* 2 * |Vars| + 1 times and nothing new can appear afterwards: the sets are   *)
(* exact for "every test may go either way, every loop may run any number of  *)
(* times".                                                                   *)
(***************************************************************************)
EXTENDS Integers, Sequences, FiniteSets, TLC, SequencesExt, Json

CONSTANTS Vars,        \* e.g. {"a", "b"}
          Reads,       \* the sets of variables a statement may read: subset of SUBSET Vars
          LeafKinds,   \* subset of {"asg", "aug", "use", "break", "continue", "return"}
          TestWrites,  \* what an if / while test may bind by := : subset of Vars \cup {""}
          Compounds,   \* subset of {"if", "while", "for", "with"}
          Depth,       \* 1: compound statements with leaf bodies; 2: one compound nested in another
          PairBodies,  \* BOOLEAN: bodies of two leaves as well as of one
          Pre,         \* BOOLEAN: an assignment may stand before the compound statement
          Post,        \* BOOLEAN: a use may stand behind it
          TwoLoops     \* BOOLEAN: also programs in which a simple for loop (one assignment in its body) stands in front
                       \*          of the compound statement: what the second statement reads of the first loop's variables

Leaves ==
    (IF "asg" \in LeafKinds THEN {[k |-> "asg", w |-> w, r |-> r] : w \in Vars, r \in Reads} ELSE {})
    \cup (IF "aug" \in LeafKinds THEN {[k |-> "aug", w |-> w] : w \in Vars} ELSE {})
    \cup (IF "use" \in LeafKinds THEN {[k |-> "use", r |-> {v}] : v \in Vars} ELSE {})
    \cup (IF "break" \in LeafKinds THEN {[k |-> "break"]} ELSE {})
    \cup (IF "continue" \in LeafKinds THEN {[k |-> "continue"]} ELSE {})
    \cup (IF "return" \in LeafKinds THEN {[k |-> "return"]} ELSE {})
Plain == {l \in Leaves : l.k \notin {"break", "continue", "return"}}

Bodies0 == {<<l>> : l \in Leaves} \cup (IF PairBodies THEN {<<l, m>> : l \in Plain, m \in Leaves} ELSE {})
OrElse0 == {<<>>} \cup {<<l>> : l \in Plain}

Comp(bodies, orelses) ==
    (IF "if" \in Compounds THEN {[k |-> "if", r |-> r, ww |-> ww, body |-> b, orelse |-> o] : r \in Reads, ww \in TestWrites, b \in bodies, o \in orelses} ELSE {})
    \cup (IF "while" \in Compounds THEN {[k |-> "while", r |-> r, ww |-> ww, body |-> b, orelse |-> o] : r \in Reads, ww \in TestWrites, b \in bodies, o \in orelses} ELSE {})
    \cup (IF "for" \in Compounds THEN {[k |-> "for", w |-> w, r |-> r, body |-> b, orelse |-> o] : w \in Vars, r \in Reads, b \in bodies, o \in orelses} ELSE {})
    \cup (IF "with" \in Compounds THEN {[k |-> "with", w |-> w, r |-> r, body |-> b, orelse |-> <<>>] : w \in Vars, r \in Reads, b \in bodies} ELSE {})

\* depth 1 compounds with single-leaf bodies: what gets nested at depth 2.  (The depth-2 sets take a parameter only so
\* that TLC does not build them at start-up when Depth = 1: definitions without parameters are evaluated eagerly.)
\* (an inner body may also be an assignment followed by break / continue: the flag idiom `found = True; break`)
Inner == Comp({<<l>> : l \in Leaves} \cup {<<l, x>> : l \in {y \in Plain : y.k = "asg"}, x \in Leaves \ Plain}, {<<>>})
C1 == Comp(Bodies0, OrElse0)
Bodies1(d) == {<<c>> : c \in Inner} \cup {<<c, l>> : c \in Inner, l \in Plain} \cup {<<l, c>> : l \in Plain, c \in Inner}
C2(d) == Comp(Bodies1(d), {<<>>})
Top(d) == IF d = 1 THEN C1 ELSE C2(d)

Pres == {<<>>} \cup (IF Pre THEN {<<l>> : l \in {x \in Plain : x.k = "asg"}} ELSE {})
Posts == {<<>>} \cup (IF Post THEN {<<l>> : l \in {x \in Plain : x.k = "use"}} ELSE {})
\* A seed fixes what stands around the compound statement and its kind and header; the programs of a seed are
\* enumerated in a second step, so that TLC's workers share the enumeration (initial states are generated by one thread)
Seeds == [pre : Pres, post : Posts, kind : Compounds, r : Reads]
\* (two-loop programs start with the initialisation the accumulating loop needs: v = <constant>)
FirstLoops == {[k |-> "for", w |-> w, r |-> {}, body |-> <<l>>, orelse |-> <<>>] :
                  w \in Vars, l \in {[k |-> "aug", w |-> v] : v \in Vars}}
ProgramsOf(seed) ==
    LET tops == {x \in Top(Depth) : x.k = seed.kind /\ x.r = seed.r} IN
    {seed.pre \o <<c>> \o seed.post : c \in tops}
    \cup (IF TwoLoops /\ seed.pre = <<>>
           THEN {<<[k |-> "asg", w |-> v, r |-> {}], f, c>> \o seed.post : v \in Vars, f \in FirstLoops, c \in tops}
           ELSE {})

\* break / continue only inside loops (a sub-sequence of a loop body may start with them, but the harness also runs the
\* programs, so they are kept inside)
RECURSIVE WF(_, _)
WF(block, inloop) ==
    \A i \in 1..Len(block) :
        LET s == block[i] IN
        CASE s.k \in {"break", "continue"} -> inloop
          [] s.k = "return" -> TRUE
          [] s.k = "if" -> WF(s.body, inloop) /\ WF(s.orelse, inloop)
          [] s.k = "with" -> WF(s.body, inloop)
          [] s.k \in {"while", "for"} -> WF(s.body, TRUE) /\ WF(s.orelse, inloop)
          [] OTHER -> TRUE

-----------------------------------------------------------------------------
St(st, w, n) == [st |-> st, w |-> w, n |-> n]
Read(s, r) == St(s.st, s.w, s.n \cup (r \ s.w))
Write(s, v) == St(s.st, s.w \cup {v}, s.n)
\* evaluating the test of an if / while statement: its reads, then what it binds itself
Test(s, stmt) == IF stmt.ww = "" THEN Read(s, stmt.r) ELSE Write(Read(s, stmt.r), stmt.ww)
MaxIter == 2 * Cardinality(Vars) + 1

RECURSIVE Exec(_, _), ExecStmt(_, _), Loop(_, _, _)

\* the states in which `block` can end, started in any state of S (states that are not running pass through)
Exec(block, S) ==
    IF block = <<>> THEN S
    ELSE LET running == {s \in S : s.st = "run"}
             after == UNION {ExecStmt(Head(block), s) : s \in running}
         IN (S \ running) \cup Exec(Tail(block), after)

\* k more iterations of the loop `s` may start; T = states in which the test / the iterator is about to be asked
\* result: the states in which the whole loop statement can end
Loop(s, T, k) ==
    LET tested == IF s.k = "while" THEN {Test(t, s) : t \in T} ELSE T
        \* the loop ends normally: its else clause runs
        done == Exec(s.orelse, tested)
        entered == IF s.k = "for" THEN {Write(t, s.w) : t \in tested} ELSE tested
        body == Exec(s.body, entered)
        broken == {St("run", b.w, b.n) : b \in {x \in body : x.st = "brk"}}          \* break: leaves the loop, skips else
        again == {St("run", b.w, b.n) : b \in {x \in body : x.st \in {"run", "cnt"}}}
        returned == {x \in body : x.st = "ret"}
    IN IF k = 0 THEN done
       ELSE done \cup broken \cup returned \cup Loop(s, again, k - 1)

ExecStmt(s, st) ==
    CASE s.k = "asg" -> {Write(Read(st, s.r), s.w)}
      [] s.k = "aug" -> {Write(Read(st, {s.w}), s.w)}
      [] s.k = "use" -> {Read(st, s.r)}
      [] s.k = "break" -> {St("brk", st.w, st.n)}
      [] s.k = "continue" -> {St("cnt", st.w, st.n)}
      [] s.k = "return" -> {St("ret", st.w, st.n)}
      [] s.k = "if" -> LET t == Test(st, s) IN Exec(s.body, {t}) \cup Exec(s.orelse, {t})
      [] s.k = "with" -> Exec(s.body, {Write(Read(st, s.r), s.w)})
      [] s.k = "while" -> Loop(s, {st}, MaxIter)
      [] s.k = "for" -> Loop(s, {Read(st, s.r)}, MaxIter)

Outcomes(p) == Exec(p, {St("run", {}, {})})
Normal(o) == {s \in o : s.st = "run"}
\* bound on EVERY execution that runs to the end (every name, if there is no such execution)
Created(o) == {v \in Vars : \A s \in Normal(o) : v \in s.w}
Maybe(o) == UNION {s.w : s \in o}
Needed(o) == UNION {s.n : s \in o}

VARIABLES seed, prog         \* prog = <<>> until the program of the behaviour is chosen
Init == seed \in Seeds /\ prog = <<>>
Next == \/ prog = <<>> /\ prog' \in {p \in ProgramsOf(seed) : WF(p, FALSE)} /\ UNCHANGED seed
        \/ prog # <<>> /\ UNCHANGED <<seed, prog>>
Spec == Init /\ [][Next]_<<seed, prog>>

\* a name that is needed is read somewhere, a name that is created is written somewhere
RECURSIVE Mentions(_)
Mentions(block) ==
    UNION {LET s == block[i] IN
           CASE s.k \in {"asg"} -> {s.w} \cup s.r
             [] s.k = "aug" -> {s.w}
             [] s.k = "use" -> s.r
             [] s.k \in {"break", "continue", "return"} -> {}
             [] s.k \in {"if", "while"} -> s.r \cup (IF s.ww = "" THEN {} ELSE {s.ww}) \cup Mentions(s.body) \cup Mentions(s.orelse)
             [] s.k \in {"for", "with"} -> {s.w} \cup s.r \cup Mentions(s.body) \cup Mentions(s.orelse)
           : i \in 1..Len(block)}
\* sanity of the semantics itself
Sane == prog = <<>> \/ LET o == Outcomes(prog) IN
        /\ (Normal(o) # {} => Created(o) \subseteq Maybe(o))
        /\ Maybe(o) \cup Needed(o) \subseteq Mentions(prog)

RECURSIVE Enc(_)
Enc(block) == [i \in 1..Len(block) |->
                 LET s == block[i] IN
                 CASE s.k = "asg" -> [k |-> "asg", w |-> s.w, r |-> SetToSeq(s.r)]
                   [] s.k = "aug" -> [k |-> "aug", w |-> s.w]
                   [] s.k = "use" -> [k |-> "use", r |-> SetToSeq(s.r)]
                   [] s.k \in {"break", "continue", "return"} -> [k |-> s.k]
                   [] s.k \in {"if", "while"} -> [k |-> s.k, r |-> SetToSeq(s.r), ww |-> s.ww, body |-> Enc(s.body), orelse |-> Enc(s.orelse)]
                   [] OTHER -> [k |-> s.k, w |-> s.w, r |-> SetToSeq(s.r), body |-> Enc(s.body), orelse |-> Enc(s.orelse)]]

Dump == prog = <<>> \/ LET o == Outcomes(prog) IN
        PrintT(<<"@@J", ToJson([prog |-> Enc(prog), created |-> SetToSeq(Created(o)), maybe |-> SetToSeq(Maybe(o)),
                                 needed |-> SetToSeq(Needed(o)), normal |-> (Normal(o) # {})])>>)
=============================================================================
