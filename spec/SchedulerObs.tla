---------------------------- MODULE SchedulerObs ----------------------------
(* Judge of observed outcomes.  When the real scheduler returns something   *)
(* else than Scheduler.tla computes, TLC decides whether the observed text   *)
(* is still admitted by the declarative clauses of C10 (only these gate an   *)
(* alarm; the step-wise model is an implementation-shaped refinement).       *)
(* For each observed case TLC searches for a set A of whole transactions     *)
(* (atomicity) that explains the output.                                     *)
EXTENDS Scheduler, Json, IOUtils

Cases == JsonDeserialize(IOEnv.OBS_FILE)

VARIABLE ci
obsvars == <<vars, ci>>

SeqToSet(s) == {s[j] : j \in 1..Len(s)}

Load(i) ==
    /\ yields' = Cases[i].yields
    /\ ignored' = SeqToSet(Cases[i].ignored)

ObsInit ==
    /\ ci = 1
    /\ yields = IF Len(Cases) >= 1 THEN Cases[1].yields ELSE <<>>
    /\ ignored = IF Len(Cases) >= 1 THEN SeqToSet(Cases[1].ignored) ELSE {}
    /\ pc = "done" /\ k = 1 /\ ng = 1 /\ present = {} /\ queue = <<>> /\ scheduled = {}
    /\ dropped = {} /\ order = <<>> /\ ai = 1 /\ work = <<>> /\ result = <<>> /\ rolled = FALSE

\* same-point insertions: their relative order is not fixed by the statement
RECURSIVE NegPrefix(_)
NegPrefix(s) == IF s = <<>> \/ Head(s) > 0 THEN 0 ELSE 1 + NegPrefix(Tail(s))
RECURSIVE Canon(_)
Canon(s) ==
    IF s = <<>> THEN <<>>
    ELSE IF Head(s) > 0 THEN <<Head(s)>> \o Canon(Tail(s))
    ELSE LET n == NegPrefix(s)
         IN SortSeq(SubSeq(s, 1, n), <) \o Canon(SubSeq(s, n + 1, Len(s)))

Visible(s, nows) == SelectSeq(s, LAMBDA x : x \notin nows)

Explains(A, c) ==
    LET sp == Splice(RwOf(A))
        nows == SeqToSet(c.nows)
    IN IF Parses(sp)
         THEN Canon(Visible(sp, nows)) = Canon(c.observed)
         ELSE c.observed = Visible(Orig, nows) /\ c.identical

Verdict(c) ==
    LET C1 == {A \in SUBSET AllKeys : NoOverlapIn(A) /\ Explains(A, c)}
        C2 == {A \in C1 : \A t \in AllKeys \ A : JustifiedWrt(t, A)}
        C3 == {A \in C2 : \A t \in A : ~KeyIgnored(t)}
    IN IF C1 = {} THEN "ResultIsSpliceOfWholeNonOverlappingTransactions"
       ELSE IF C2 = {} THEN "DropJustified"
       ELSE IF C3 = {} THEN "IgnoredTouched"
       ELSE "ok"

ObsNext ==
    /\ ci <= Len(Cases)
    /\ PrintT(<<"@@J", ToJson([i |-> ci, verdict |-> Verdict(Cases[ci])])>>)
    /\ ci' = ci + 1
    /\ IF ci + 1 <= Len(Cases) THEN Load(ci + 1) ELSE UNCHANGED <<yields, ignored>>
    /\ UNCHANGED <<pc, k, ng, present, queue, scheduled, dropped, order, ai, work, result, rolled>>
=============================================================================
