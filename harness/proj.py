"""Projections: the abstract state of a program text (independent of pyrefact)."""
from __future__ import annotations

import ast
import functools
import hashlib
import inspect
import re
import textwrap
from typing import List, Optional, Set, Tuple

IGNORE_LINE = re.compile(r"#\s*pyrefact:\s*ignore")          # the documented spelling
SKIP_FILE = re.compile(r"# pyrefact: skip_file")


def _parse(text: str) -> Optional[ast.Module]:
    for t in (text, textwrap.dedent(text)):
        try:
            return ast.parse(t)
        except (SyntaxError, ValueError, RecursionError, MemoryError):
            continue
    return None


@functools.lru_cache(maxsize=200000)
def valid(text: str) -> bool:
    return _parse(text) is not None


def _docstring_nodes(tree: ast.AST):
    """String expression statements that open a block: docstrings, and what black treats like them."""
    for node in ast.walk(tree):
        for field in ("body", "orelse", "finalbody"):
            body = getattr(node, field, None)
            if isinstance(body, list) and body:
                first = body[0]
                if isinstance(first, ast.Expr) and isinstance(first.value, ast.Constant) and isinstance(first.value.value, str):
                    yield first.value


def _normalise_docstrings(tree: ast.AST) -> None:
    # C11 tolerates whitespace changes inside docstrings (the code formatter normalises them by design)
    for const in list(_docstring_nodes(tree)):
        const.value = " ".join(const.value.split())


@functools.lru_cache(maxsize=200000)
def ast_digest(text: str) -> str:
    """Digest of the position-free syntax tree; whitespace inside docstrings is normalised (C11's exception)."""
    tree = _parse(text)
    if tree is None:
        return "invalid"
    _normalise_docstrings(tree)
    return hashlib.sha1(ast.dump(tree, include_attributes=False).encode("utf-8", "surrogatepass")).hexdigest()[:16]


def string_constants(text: str) -> Optional[List[str]]:
    """All str / bytes constant values (incl. f-string constant parts), docstrings excluded, in tree order."""
    tree = _parse(text)
    if tree is None:
        return None
    doc_ids = {id(c) for c in _docstring_nodes(tree)}
    out = []
    for node in ast.walk(tree):
        if isinstance(node, ast.Constant) and isinstance(node.value, (str, bytes)) and id(node) not in doc_ids:
            out.append(repr(node.value))
    return sorted(out)


def _targets(t) -> List[str]:
    if isinstance(t, ast.Name):
        return [t.id]
    if isinstance(t, (ast.Tuple, ast.List)):
        return [n for e in t.elts for n in _targets(e)]
    if isinstance(t, ast.Starred):
        return _targets(t.value)
    return []


def _bound_by_statement(stmt) -> List[str]:
    if isinstance(stmt, (ast.FunctionDef, ast.AsyncFunctionDef, ast.ClassDef)):
        return [stmt.name]
    if isinstance(stmt, ast.Assign):
        return [n for t in stmt.targets for n in _targets(t)]
    if isinstance(stmt, (ast.AnnAssign, ast.AugAssign)):
        if isinstance(stmt, ast.AnnAssign) and stmt.value is None:
            return []
        return _targets(stmt.target)
    return []


def surface(text: str) -> Optional[Set[str]]:
    """C07's surface: top-level defs / classes / assignment targets, and per top-level class the
    methods defined and attributes assigned in its body, as 'Class.name'."""
    tree = _parse(text)
    if tree is None:
        return None
    out: Set[str] = set()
    for stmt in tree.body:
        for n in _bound_by_statement(stmt):
            out.add(n)
        if isinstance(stmt, ast.ClassDef):
            for sub in stmt.body:
                for n in _bound_by_statement(sub):
                    out.add(f"{stmt.name}.{n}")
    return out


def _scope_bindings(body) -> Set[str]:
    """Names bound by ANY binding form in the scope made of `body` (compound statements entered, defs/classes not)."""
    out: Set[str] = set()
    stack = list(body)
    while stack:
        st = stack.pop()
        out.update(_bound_by_statement(st))
        if isinstance(st, (ast.FunctionDef, ast.AsyncFunctionDef, ast.ClassDef)):
            continue
        if isinstance(st, (ast.Import, ast.ImportFrom)):
            for a in st.names:
                out.add((a.asname or a.name).split(".")[0])
        if isinstance(st, (ast.For, ast.AsyncFor)):
            out.update(_targets(st.target))
        if isinstance(st, (ast.With, ast.AsyncWith)):
            for item in st.items:
                if item.optional_vars is not None:
                    out.update(_targets(item.optional_vars))
        for node in ast.walk(st) if not isinstance(st, (ast.FunctionDef, ast.AsyncFunctionDef, ast.ClassDef)) else ():
            if isinstance(node, ast.NamedExpr):
                out.update(_targets(node.target))
        for field in ("body", "orelse", "finalbody"):
            stack.extend(getattr(st, field, []) or [])
        for h in getattr(st, "handlers", []) or []:
            stack.extend(h.body)
        for c in getattr(st, "cases", []) or []:
            stack.extend(c.body)
    return out


def bound_surface(text: str) -> Optional[Set[str]]:
    """Liberal reading for the OUTPUT side of C07/C08: a name counts as still defined if any binding form in
    module scope (or, for 'Class.member', in the scope of that top-level class) binds it."""
    tree = _parse(text)
    if tree is None:
        return None
    out = set(_scope_bindings(tree.body))
    for stmt in ast.walk(tree):
        if isinstance(stmt, ast.ClassDef):
            for n in _scope_bindings(stmt.body):
                out.add(f"{stmt.name}.{n}")
    return out


def defined_names(text: str) -> Optional[Set[str]]:
    """Every name defined anywhere as def / class / assignment target (plus Class.member): for C08."""
    tree = _parse(text)
    if tree is None:
        return None
    out: Set[str] = set()
    for node in ast.walk(tree):
        if isinstance(node, ast.stmt):
            for n in _bound_by_statement(node):
                out.add(n)
        if isinstance(node, ast.ClassDef):
            for sub in node.body:
                for n in _bound_by_statement(sub):
                    out.add(f"{node.name}.{n}")
    return out


def ignored_lines(text: str) -> List[str]:
    """Physical lines carrying the documented ignore comment: indentation kept, trailing blanks dropped."""
    return [line.rstrip() for line in text.splitlines() if IGNORE_LINE.search(line)]


def has_skip_file(text: str) -> bool:
    return bool(SKIP_FILE.search(text))


def ws_equal(a: str, b: str) -> bool:
    strip = lambda s: re.sub(r"\s+", "", s)
    return strip(a) == strip(b)
