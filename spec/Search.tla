------------------------------- MODULE Search -------------------------------
(***************************************************************************)
(* Where a pattern occurs in a source (C12, second half): the scope walk of *)
(* core.walk_wildcard (expression / single statement patterns: every node   *)
(* of the tree) and core.walk_sequence (statement-sequence patterns: every  *)
(* window of the body / orelse lists of Module, FunctionDef, ClassDef, If,  *)
(* For, While, With - and of nothing else: try bodies, handlers, finally    *)
(* blocks are not walked).                                                 *)
(*                                                                         *)
(* A source is a sequence of items.  An item is a simple statement (an atom *)
(* "a", "b") or a compound statement [k, body, orelse, final] whose blocks   *)
(* are sequences of atoms:                                                 *)
(*   k in {"if","for","while"}: body + orelse                               *)
(*   k in {"with","def","class"}: body                                      *)
(*   k = "try": body, orelse = the except handler's body, final = finally   *)
(*   k = "defif": def f(): if c: body else: orelse   (depth 2)              *)
(* A pattern is a sequence of elements: a literal atom, a named wildcard     *)
(* "x"/"y" (any statement; one tree per name) or "_" (any statement).        *)
(***************************************************************************)
EXTENDS Integers, Sequences, FiniteSets, TLC, SequencesExt, Json

CONSTANTS
    Atoms,       \* {"a", "b"}
    Kinds,       \* compound kinds in use
    MaxBody,     \* max length of body / orelse blocks
    MaxTop,      \* max number of top-level items
    Patterns     \* set of patterns (sequences of elements)

VARIABLE src
vars == <<src>>

AtomItem(a) == [k |-> "atom", body |-> <<a>>, orelse |-> <<>>, final |-> <<>>]
Blocks(lo, hi) == UNION {[1..n -> Atoms] : n \in lo..hi}
HasOrelse(k) == k \in {"if", "for", "while", "defif"}

CompoundItems ==
    UNION {
      IF k = "try"
        THEN {[k |-> k, body |-> b, orelse |-> h, final |-> f] :
                 b \in Blocks(1, MaxBody), h \in Blocks(1, 1), f \in Blocks(0, 1)}
      ELSE IF HasOrelse(k)
        THEN {[k |-> k, body |-> b, orelse |-> o, final |-> <<>>] :
                 b \in Blocks(1, MaxBody), o \in Blocks(0, MaxBody)}
      ELSE {[k |-> k, body |-> b, orelse |-> <<>>, final |-> <<>>] : b \in Blocks(1, MaxBody)}
      : k \in Kinds}

Items == {AtomItem(a) : a \in Atoms} \cup CompoundItems

-----------------------------------------------------------------------------
(* The blocks of a source: <<path, items, walked>>.  Nested blocks hold     *)
(* atoms only; they are lifted to items so one matcher serves all blocks.   *)
Lift(b) == [j \in 1..Len(b) |-> AtomItem(b[j])]

WalkedBody(k) == k \in {"if", "for", "while", "with", "def", "class", "defif"}
WalkedOrelse(k) == k \in {"if", "for", "while", "defif"}

AllBlocks(s) ==
    {<<<<0, "top">>, s, TRUE>>}
    \cup {<<<<j, "body">>, Lift(s[j].body), WalkedBody(s[j].k)>> : j \in {i \in 1..Len(s) : s[i].k # "atom"}}
    \cup {<<<<j, "orelse">>, Lift(s[j].orelse), WalkedOrelse(s[j].k)>> : j \in {i \in 1..Len(s) : s[i].k # "atom" /\ s[i].orelse # <<>>}}
    \cup {<<<<j, "final">>, Lift(s[j].final), FALSE>> : j \in {i \in 1..Len(s) : s[i].k # "atom" /\ s[i].final # <<>>}}

IsWild(e) == e \in {"x", "y", "_"}
ElemOK(e, item) == IsWild(e) \/ (item.k = "atom" /\ item.body[1] = e)

WindowOK(P, blk, i) ==
    /\ \A j \in 1..Len(P) : ElemOK(P[j], blk[i + j - 1])
    /\ \A w \in {"x", "y"} :
          Cardinality({blk[i + j - 1] : j \in {q \in 1..Len(P) : P[q] = w}}) <= 1

\* occurrences as <<path, index in block>>
Occ1(P, s) ==
    UNION {{<<b[1], i>> : i \in {q \in 1..Len(b[2]) : ElemOK(P[1], b[2][q])}} :
              b \in AllBlocks(s)}

OccN(P, s) ==
    UNION {{<<b[1], i>> : i \in {q \in 1..(Len(b[2]) - Len(P) + 1) : WindowOK(P, b[2], q)}} :
              b \in {c \in AllBlocks(s) : c[3]}}

Occ(P, s) == IF Len(P) = 1 THEN Occ1(P, s) ELSE OccN(P, s)

-----------------------------------------------------------------------------
Init == src = <<>>
AddItem == /\ Len(src) < MaxTop
           /\ \E it \in Items : src' = Append(src, it)
Next == AddItem
Spec == Init /\ [][Next]_vars

\* design facts: a sequence pattern never reports a window of an unwalked block, and every
\* source "matches itself" at top level (pattern = its own atoms) when it has >= 2 atoms
NoUnwalked == \A P \in Patterns : Len(P) >= 2 =>
                 \A o \in Occ(P, src) : o[1][2] \notin {"final"} /\
                     (o[1][2] \in {"body", "orelse"} => src[o[1][1]].k # "try")

Dump == PrintT(<<"@@J", ToJson([src |-> src,
                                occ |-> SetToSeq({<<P, SetToSeq(Occ(P, src))>> : P \in Patterns})])>>)
=============================================================================
