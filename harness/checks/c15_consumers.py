"""C15, consumers: every constant expression planted as a condition of small programs.

Each program is formatted with format_code under the pipeline recorder and by every rule that
consumes constant evaluation in isolation; the observation (termination class + stdout) must not
change.  A change is attributed to C15 when the first stage after which the observation differs is
a consumer of constant evaluation (its source uses literal_value / is_blocking); other stages are
C01/C02's business and only counted here.
"""
from __future__ import annotations

import inspect
import multiprocessing as mp
import random
from typing import Dict, List

import blame
import execbox
import pipeline
from common import Report, import_pyrefact, seed

PRELUDE = "def f(*a):\n    print('f')\n    return 1\n\n\ndef mark():\n    print('m')\n    return 7\n\n\n"

TEMPLATES = {
    "if": "if {E}:\n    print(1)\nelse:\n    print(2)\n",
    "and": "print({E} and mark())\n",
    "or": "print({E} or mark())\n",
    "while": "n = 0\nwhile {E}:\n    print(1)\n    n += 1\n    if n > 1:\n        break\nprint(2)\n",
    "ifexp": "print(1 if {E} else 2)\n",
    "assert": "def g():\n    assert {E}\n    print(3)\n\n\ntry:\n    g()\nexcept AssertionError:\n    print(4)\n",
    "filter": "print([i for i in range(2) if {E}])\n",
    "not": "if not {E}:\n    print(1)\nprint(2)\n",
    "ifand": "if {E} and mark():\n    print(1)\nelse:\n    print(2)\n",
    "for_iter": ("def g():\n    for _i in {E}:\n        return 5\n    print(3)\n    return 6\n\n\n"
                 "try:\n    print(g())\nexcept TypeError:\n    print(4)\n"),
    "for_iter_else": ("def g():\n    for _i in {E}:\n        print(5)\n        break\n    else:\n        return 7\n    print(3)\n    return 6\n\n\n"
                      "try:\n    print(g())\nexcept TypeError:\n    print(4)\n"),
    "elif": "if mark() == 8:\n    print(0)\nelif {E}:\n    print(1)\nelse:\n    print(2)\n",
}


def consumer_stages(mods) -> List[str]:
    out = []
    for m, f in pipeline.all_rules(mods):
        fn = getattr(mods[m], f)
        fn = getattr(fn, "_fix_func", fn)
        try:
            src = inspect.getsource(fn)
        except (OSError, TypeError):
            continue
        if "literal_value" in src or "is_blocking" in src or "_is_exception" in src:
            out.append(f"{m}.{f}")
    return out


def _format_chunk(args):
    programs, stages = args
    mods = import_pyrefact()
    out = []
    for key, text in programs:
        res, err, events = pipeline.trace_format_code(mods, text)
        changed = [{"stage": e["stage"], "before": e["before"], "after": e["after"]} for e in events if e.get("changed")]
        raised = [e["stage"] for e in events if e.get("raised")]
        iso = []
        for st in stages:
            m, f = st.split(".")
            try:
                r = getattr(mods[m], f)(text)
                if r != text:
                    iso.append((st, r, None))
            except BaseException as exc:  # noqa: BLE001
                if isinstance(exc, KeyboardInterrupt):
                    raise
                iso.append((st, None, f"{type(exc).__name__}: {exc}"))
        out.append({"key": key, "text": text, "result": res, "error": err, "changed": changed, "raised": raised, "iso": iso})
    return out


def run(rep: Report, t: str, stats: Dict[str, int]):
    import c15
    from tlc import run_tlc
    mods = import_pyrefact()
    stages = consumer_stages(mods)
    rep.coverage["constant_evaluation_consumer_stages"] = stages
    rng = random.Random(seed() + 5)
    label, pool, seeds = c15.runs(t)[0]
    res = run_tlc("ConstEvalMC", c15.CFG, generated_files={"ConstEvalMC.tla": c15.gen_module(pool, seeds)},
                  timeout_s=3000, keep_stdout=False, heap_gb=12)
    rep.add_tlc(res, f"ConstEval consumers source ({label})")
    exprs = sorted({c15.render(r["e"]) for r in res.records if r["py"]["r"] != "excluded"})
    exprs = [e for e in exprs if "input(" not in e]
    n_expr = 600 if t == "quick" else 6000
    if len(exprs) > n_expr:
        exprs = rng.sample(exprs, n_expr)
    kinds = list(TEMPLATES)
    programs = []
    # the hand-written constants outside the model's grammar, in every consumer position
    for e in c15.EXTRA_EXPRS:
        for k in kinds + ["value"]:
            programs.append(((e, k), PRELUDE + (TEMPLATES[k] if k != "value" else "print({E})\n").replace("{E}", "(" + e + ")")))
    # iterator objects: only in positions that test or iterate them (their repr is an address)
    for e in c15.LAZY_EXPRS:
        for k in ("for_iter", "for_iter_else", "if", "not", "ifand", "ifexp", "while", "assert", "elif"):
            programs.append(((e, k), PRELUDE + TEMPLATES[k].replace("{E}", e)))
    # displays that are NOT constants although they look non-empty: truthiness depends on what is unpacked
    for e in ("[*extra]", "(*extra,)", "{*extra}", "[*extra, *more]", "{**table}"):
        for k in ("or", "and", "if", "ifexp", "not", "ifand"):
            programs.append(((e, k), PRELUDE + "extra = []\nmore = ()\ntable = {}\n" + TEMPLATES[k].replace("{E}", e)))
            programs.append(((e + " (non-empty)", k), PRELUDE + "extra = [0]\nmore = ()\ntable = {'k': 0}\n" + TEMPLATES[k].replace("{E}", e)))
    for e in exprs:
        ks = kinds if t != "quick" else rng.sample(kinds, 3)
        for k in ks:
            programs.append(((e, k), PRELUDE + TEMPLATES[k].replace("{E}", e)))
    n = 16
    chunks = [programs[i::n] for i in range(n)]
    with mp.get_context("fork").Pool(n) as pool_:
        parts = pool_.map(_format_chunk, [(c, stages) for c in chunks])
    results = [r for part in parts for r in part]
    runner = execbox.Runner(n=16, timeout=5)
    try:
        texts = [r["text"] for r in results] + [r["result"] for r in results if r["result"] is not None]
        for r in results:
            texts += [x[1] for x in r["iso"] if x[1] is not None]
        runner.observe_many(texts)
        obs = runner.cache
        suspects = [r for r in results if r["result"] is not None and obs[r["result"]] != obs[r["text"]]]
        runner.observe_many([c["after"] for r in suspects for c in r["changed"]])
        obs = runner.cache
    finally:
        runner.close()
    known = [e for e in rep.known_entries()]
    changed_n = 0
    other_stage = 0
    for r in results:
        stats["consumer_programs"] = stats.get("consumer_programs", 0) + 1
        key, text = r["key"], r["text"]
        base = obs[text]
        if r["result"] is not None and r["result"] != text:
            changed_n += 1
        if base[0] == "timeout":
            continue
        if r["error"] is not None:
            stage = r["raised"][0] if r["raised"] else "format_code"
            rep.violation(f"format_code raised {r['error']} (stage {stage}) on a program whose condition is {key[0]}",
                          {"expr": key[0], "consumer": key[1], "program": text, "error": r["error"], "stage": stage})
            continue
        # isolated consumer rules
        for st, out, err in r["iso"]:
            if err is not None:
                rep.violation(f"{st} raised {err} on a program whose condition is {key[0]}",
                              {"expr": key[0], "consumer": key[1], "program": text, "stage": st, "error": err})
            elif obs[out] != base:
                _report(rep, known, key, text, st, text, out, base, obs[out], "isolated rule")
        if obs[r["result"]] == base:
            continue
        ev = blame.first_breaking_stage([dict(c, changed=True) for c in r["changed"]], obs, base)
        if ev is None:
            continue
        if ev["stage"] not in stages:
            other_stage += 1
            continue
        _report(rep, known, key, text, ev["stage"], ev["before"], ev["after"], base, obs[ev["after"]], "format_code")
    stats["consumer_programs_changed"] = stats.get("consumer_programs_changed", 0) + changed_n
    stats["consumer_obs_changes_blamed_on_non_consumer_stage"] = other_stage
    if programs:
        rep.sample({"consumer_program": programs[0][1]}, limit=7)


def _report(rep, known, key, text, stage, before, after, base, now, how):
    sh = blame.shape(before, after)
    case = {"expr": key[0], "consumer": key[1], "program": text, "stage": stage, "how": how, "shape": sh,
            "stage_input": before, "stage_output": after, "obs_before": base, "obs_after": now}
    for entry in known:
        if blame.matches_signature(entry, stage, sh, text):
            rep.known(entry["id"], {"expr": key[0], "consumer": key[1], "stage": stage, "rewrite": f"{sh['old_src']} -> {sh['new_src']}"})
            return
    rep.violation(f"constant folding changed behaviour at {stage} ({how}): condition {key[0]} in consumer "
                  f"'{key[1]}': {sh['old_src']!r} -> {sh['new_src']!r}; obs {base} -> {now}", case)
