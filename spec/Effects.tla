------------------------------ MODULE Effects ------------------------------
(***************************************************************************)
(* Pointless statements (C16, second half).  A statement may be deleted as   *)
(* pointless only if executing it binds nothing, calls nothing user-defined  *)
(* or unknown - not even from inside a comprehension, conditional            *)
(* expression or f-string - and cannot alter control flow.                   *)
(*                                                                         *)
(* A case is  [form, ctx, callee]:                                          *)
(*   form    "expr"    an expression statement                              *)
(*           "assign"  x = <e>          "throwaway"  _ = <e>                 *)
(*           "attrset" obj.a = <e>      "itemset"    d[0] = <e>              *)
(*           "augassign" x += <e>       "annassign"  x: int = <e>            *)
(*           "del"     del x            "assert" / "raise" / "return" /      *)
(*           "yield"   control flow and generator statements                *)
(*   ctx     where the interesting sub-expression <c> sits inside <e>:       *)
(*           "top", "binop", "boolop", "compare", "call_arg", "comp_elt",    *)
(*           "comp_cond", "comp_iter", "dictcomp_key", "dictcomp_val",       *)
(*           "ifexp_test", "ifexp_branch", "fstring", "lambda_body",         *)
(*           "subscript", "attribute", "tuple", "dict_value", "starred",     *)
(*           "walrus"                                                        *)
(*   callee  what <c> is: "const" (a literal), "name" (a variable read),     *)
(*           "builtin" (len(xs)), "const_method" ("a".upper()),              *)
(*           "user_pure" / "user_impure" / "user_raises" (a call of a        *)
(*           function defined in the module), "unknown" (a call of an        *)
(*           undefined name), "method" (xs.append(1)), "walrus" ((w := 1))   *)
(***************************************************************************)
EXTENDS Integers, FiniteSets, TLC, Json

CONSTANTS Forms, Ctxs, Callees

VARIABLE c
vars == <<c>>

\* <c> is evaluated when the statement runs, except under a lambda
Evaluated(ctx) == ctx # "lambda_body"

CallsForbidden(callee) == callee \in {"user_pure", "user_impure", "user_raises", "unknown", "method"}
Binds(form, ctx, callee) == form \in {"assign", "attrset", "itemset", "augassign", "annassign", "del"}
                            \/ (callee = "walrus" /\ Evaluated(ctx))
Control(form) == form \in {"assert", "raise", "return", "yield"}

\* the statement: deleting is allowed only then
IdealPointless(form, ctx, callee) ==
    /\ ~Binds(form, ctx, callee)
    /\ ~Control(form)
    /\ ~(CallsForbidden(callee) /\ Evaluated(ctx))

\* which combinations make sense
Admissible(form, ctx, callee) ==
    /\ (form \in {"del", "raise", "return", "yield", "assert"} => ctx = "top")
    /\ (form = "del" => callee = "name")
    /\ (callee = "walrus" => ctx \in {"top", "call_arg", "comp_cond", "ifexp_test", "tuple"})
    /\ (ctx = "starred" => callee \in {"name", "builtin", "user_pure", "user_impure", "unknown"})

Init == c \in {[form |-> f, ctx |-> x, callee |-> k, pointless |-> IdealPointless(f, x, k)] :
                  f \in Forms, x \in Ctxs, k \in Callees}
        /\ Admissible(c.form, c.ctx, c.callee)
Next == UNCHANGED c
Spec == Init /\ [][Next]_vars
Dump == PrintT(<<"@@J", ToJson(c)>>)
=============================================================================
