"""C08 - preserved names survive, within a file and across files.

Preserve.tla (on top of Surface.tla): library modules (definition kinds x naming styles x used / unused, duplicate /
decorated flags) x preserve sets P x the way a client refers to the preserved definitions (directly by name,
from-import, module attribute, module alias).  MustSurvive = P.
  direct      format_code(lib, preserve=names(P)) - every definition of P is still bound under its name, and a program
              that uses the preserved names after the library text still runs with the same output;
  client      lib.py and client.py are written to a temp directory; the real format_files(.., preserved_filenames=
              [client.py]) (the code path of `pyrefact lib.py --preserve client.py`, which is also run through
              main.main for a share of the cases) formats the library; the client, run in a fresh interpreter, must
              print the same as before, and the names of P must still be bound.
"""
from __future__ import annotations

import json
import multiprocessing as mp
import os
import random
import re
import shutil
import subprocess
import sys
import tempfile
from pathlib import Path
from typing import Dict, List, Tuple

import blame
import proj
import render_surface
import workers
from common import Report, import_pyrefact, tier, seed
from tlc import MachineryError, run_tlc

PROP = "C08"


def case_texts(rec: dict):
    """lib text, the surface names of P, the plain names to put into a preserve set, the client text (or None)."""
    text, names, how = render_surface.render(rec)
    pres = sorted(rec["pres"])
    p_names = [names[i - 1] for i in pres]
    plain = set()
    for n in p_names:
        plain.update(n.split("."))            # 'Holder1.my_name_1': the class and the member
    # the duplicate of a preserved function is preserved too (two preserved functions that are duplicates of each other)
    twin = re.search(r"^def (twin_of_(\d+))\(a\):", text, re.M)
    if twin and rec["defs"][0]["kind"] in ("func",) and 1 in pres and rec["form"] in ("direct", "fromimport", "modattr"):
        p_names = p_names + [twin.group(1)]
        plain.add(twin.group(1))
        how = dict(how, **{twin.group(1): f"print({twin.group(1)}(2))"})
    form = rec["form"]
    if form == "direct":
        return text, p_names, plain, None
    if form == "factory":
        # the client never names the class: it gets instances from a factory function of the library, so only the
        # factory and the member names reach the preserve set
        members = [n for n in p_names if "." in n and not n.endswith("__init__")]
        if not members or len(members) != len(p_names):
            return text, p_names, plain, None
        lib = text.replace("print('end')\n", "")
        head, uses = [], []
        for n in members:
            cls, member = n.split(".")
            lib += f"\n\ndef make_{cls.lower()}():\n    return {cls}()\n"
            head.append(f"make_{cls.lower()}")
            call = how[n]
            m = re.search(r"\." + re.escape(member) + r"(\([^)]*\))?", call)
            uses.append(f"print(make_{cls.lower()}().{member}{m.group(1) or ''})")
        lib += "print('end')\n"
        client = "from lib import " + ", ".join(sorted(set(head))) + "\n\n" + "\n".join(uses) + "\nprint('client done')\n"
        return lib, p_names, plain, client
    prefix = {"fromimport": "", "modattr": "lib.", "alias": "l.", "fromalias": "", "star": ""}[form]
    tops = sorted({n.split(".")[0] for n in p_names})
    if form == "star" and any(t_.startswith("_") for t_ in tops):
        return text, p_names, plain, None          # a star import does not bring private names: falls back to the direct form
    head = {"fromimport": "from lib import " + ", ".join(tops) + "\n", "modattr": "import lib\n", "alias": "import lib as l\n",
            "fromalias": "from lib import " + ", ".join(f"{t_} as c_{t_.lstrip('_')}" for t_ in tops) + "\n", "star": "from lib import *\n"}[form]
    uses = []
    for n in p_names:
        u = how[n]
        top = n.split(".")[0]
        new_top = prefix + top if form != "fromalias" else "c_" + top.lstrip("_")
        if new_top != top:
            u = re.sub(r"(?<![A-Za-z0-9_.])" + re.escape(top) + r"(?![A-Za-z0-9_])", new_top, u)
        uses.append(u)
    client = head + "\n" + "\n".join(uses) + "\nprint('client done')\n"
    return text, p_names, plain, client


def _init():
    return import_pyrefact()


def _run_py(path: str, cwd: str) -> Tuple[int, str]:
    env = dict(os.environ, PYTHONPATH=cwd, PYTHONHASHSEED="0", PYTHONDONTWRITEBYTECODE="1")
    try:
        p = subprocess.run([sys.executable, "-I", "-c", f"import sys; sys.path.insert(0, {cwd!r}); import runpy; runpy.run_path({path!r}, run_name='__main__')"],
                           cwd=cwd, env=env, capture_output=True, text=True, timeout=30)
    except subprocess.TimeoutExpired:
        return 124, "timeout"
    return p.returncode, p.stdout + (p.stderr.strip().splitlines()[-1] if p.returncode and p.stderr.strip() else "")


def _case(mods, item):
    rec, via_cli = item
    lib, p_names, plain, client = case_texts(rec)
    main = mods["main"]
    res = {"lib": lib, "client": client, "must_survive": p_names}
    if client is None:
        try:
            out = main.format_code(lib, preserve=frozenset(plain))
        except BaseException as exc:  # noqa: BLE001
            if isinstance(exc, KeyboardInterrupt):
                raise
            res["crash"] = f"{type(exc).__name__}: {exc}"
            return res
        res["formatted"] = out
        res["preserve"] = sorted(plain)
        return res
    tmp = os.path.realpath(tempfile.mkdtemp(prefix="verif-c08-"))
    try:
        Path(tmp, "lib.py").write_text(lib)
        client_path = Path(tmp, "client.py")
        if via_cli == "dir":
            Path(tmp, "app").mkdir()
            Path(tmp, "app", "__main__.py").write_text("import app\n")
            client_path = Path(tmp, "app", "__init__.py")
        client_path.write_text(client)
        os.chdir(tmp)
        res["before"] = _run_py(str(client_path), tmp)
        res["preserve"] = sorted(main._used_names_in_file(client_path))
        mp.current_process()._config["daemon"] = False        # format_files starts a pool; this fork is a leaf of the harness
        try:
            if via_cli == "dir":
                # `pyrefact lib.py --preserve app` with the client as app/__init__.py next to an app/__main__.py
                import contextlib
                import io
                with contextlib.redirect_stdout(io.StringIO()), contextlib.redirect_stderr(io.StringIO()):
                    main.main([str(Path(tmp, "lib.py")), "--preserve", str(Path(tmp, "app")), "--n_cores", "1"])
            elif via_cli == "both":
                # `pyrefact project --preserve project`: both files are formatted, each one protected by the other
                both = [Path(tmp, "lib.py"), Path(tmp, "client.py")]
                main.format_files(both, preserved_filenames=both, n_cores=1, max_passes=2)
            elif via_cli:
                import contextlib
                import io
                with contextlib.redirect_stdout(io.StringIO()), contextlib.redirect_stderr(io.StringIO()):
                    main.main([str(Path(tmp, "lib.py")), "--preserve", str(Path(tmp, "client.py")), "--n_cores", "1"])
            else:
                main.format_files([Path(tmp, "lib.py")], preserved_filenames=[Path(tmp, "client.py")], n_cores=1, max_passes=2)
        except BaseException as exc:  # noqa: BLE001
            if isinstance(exc, KeyboardInterrupt):
                raise
            res["crash"] = f"{type(exc).__name__}: {exc}"
            return res
        res["formatted"] = Path(tmp, "lib.py").read_text()
        res["client_after"] = client_path.read_text()
        res["after"] = _run_py(str(client_path), tmp)
        return res
    finally:
        os.chdir("/")
        shutil.rmtree(tmp, ignore_errors=True)


def main(argv=None) -> int:
    rep = Report(PROP, "model_checking")
    import_pyrefact()
    t = tier()
    rng = random.Random(seed())
    known = rep.known_entries()
    kinds = '{"func", "async", "class", "var", "annvar", "augvar", "tuple", "chain", "method", "selfless", "static", "classmeth", "classattr", "initclass", "condinitclass"}'
    styles = '{"snake", "camel", "upper", "private"}' if t == "quick" else '{"snake", "camel", "upper", "private", "pascal"}'
    flags = "{<<FALSE, FALSE>>, <<TRUE, TRUE>>, <<TRUE, FALSE>>}" if t == "quick" else "{<<FALSE, FALSE>>, <<TRUE, FALSE>>, <<FALSE, TRUE>>}"
    mc = "\n".join(["---- MODULE PreserveMC ----", "EXTENDS Preserve", f"MC_Flags == {flags}", "====", ""])
    cfg = "\n".join(["CONSTANTS", f"  Kinds = {kinds}", f"  Styles = {styles}", "  MaxDefs = 2", "  Flags <- MC_Flags",
                     '  Forms = {"direct", "fromimport", "modattr", "alias", "fromalias", "star", "factory"}', "INIT InitP", "NEXT NextP", "INVARIANT PromiseIsExactlyP",
                     "INVARIANT DumpP", "CHECK_DEADLOCK FALSE", ""])
    res = run_tlc("PreserveMC", cfg, generated_files={"PreserveMC.tla": mc}, timeout_s=3000, keep_stdout=False, heap_gb=12)
    rep.add_tlc(res, "Preserve")
    if res.violated:
        raise MachineryError(f"Preserve.tla: {res.violated} fails")
    recs = res.records
    if not recs:
        raise MachineryError("Preserve: no cases")
    relevant = [r for r in recs if r["relevant"]]
    others = [r for r in recs if not r["relevant"]]
    n_rel, n_oth = (1000, 150) if t == "quick" else (25000, 3000)
    pick = rng.sample(relevant, min(n_rel, len(relevant))) + rng.sample(others, min(n_oth, len(others)))
    items = [(r, ("both" if i % 5 == 1 else "dir" if i % 5 == 2 else i % 5 == 0)) for i, r in enumerate(pick)]
    results = workers.run_tasks(_case, items, init=_init, procs=16, timeout=300, fork_per_task=True)
    n_run = n_changed = 0
    for (rec, via_cli), r in zip(items, results):
        if not isinstance(r, dict):
            raise MachineryError(f"case did not finish: {r} ({rec})")
        n_run += 1
        if "crash" in r:
            continue                      # C04
        out = r["formatted"]
        n_changed += out != r["lib"]
        problems = []
        bound = proj.bound_surface(out)
        if bound is None:
            continue                      # C03
        lost = [n for n in r["must_survive"] if n not in bound]
        if rec["form"] == "factory" and r["client"] is not None:
            # the class is not named outside the library and may be renamed; its members must survive as members
            lost = [n for n in r["must_survive"] if not any(b.endswith("." + n.split(".")[1]) for b in bound)]
        if lost:
            problems.append(f"preserved definitions {lost} are no longer bound under their names")
        if r["client"] is not None:
            if r.get("client_after") != r["client"] and via_cli != "both":
                problems.append("the preserved (client) file itself was modified")
            if r["before"][0] != 0:
                raise MachineryError(f"the generated client does not run: {r['before']}\n{r['lib']}\n{r['client']}")
            if r["after"] != r["before"]:
                problems.append(f"the client gives {r['after']} instead of {r['before']}")
        if not problems:
            continue
        sh = blame.shape(r["lib"], out)
        feats = [f"form-{rec['form']}"] + [f"kind-{rec['defs'][i - 1]['kind']}" for i in rec["pres"]] + [f"style-{rec['defs'][i - 1]['style']}" for i in rec["pres"]]
        sh = dict(sh, features=list(sh.get("features", [])) + feats)
        kf = next((e["id"] for e in known if blame.matches_signature(e, "format_code", sh, r["lib"])), None)
        case = {"case": rec, "via_command_line": via_cli, "library": r["lib"], "client": r["client"], "preserve_set": r.get("preserve"),
                "formatted_library": out, "must_survive": r["must_survive"], "shape": sh}
        if kf:
            rep.known(kf, {"library": r["lib"], "client": r["client"], "lost": lost})
        else:
            rep.violation("; ".join(problems) + f" (access form {rec['form']}, preserve set {r.get('preserve')})", case)
    lib, p_names, plain, client = case_texts(pick[0])
    rep.sample({"case": pick[0], "library": lib, "client": client, "must_survive": p_names})
    rep.coverage["evaluations"] = n_run
    rep.coverage["distinct_nontrivial"] = n_changed
    rep.coverage["traces_validated_against_impl"] = n_run
    rep.coverage["rule"] = ("Preserve.tla cases (library modules of <= 2 definitions over 13 binding kinds x naming styles x used/unused x duplicate / decorator "
                            "flags) x non-empty preserve sets x access forms (direct preserve argument, from-import, module attribute, module alias); client "
                            "forms go through the real format_files(preserved_filenames=..) and, for every fifth case, main.main(['lib.py', '--preserve', "
                            "'client.py']); the client runs in a fresh interpreter before and after; non-trivial = the library text changed")
    rep.assumptions += ["a preserved definition counts as surviving if any binding form in its scope still binds the name (proj.bound_surface)"]
    return rep.finish()


if __name__ == "__main__":
    sys.exit(main())
