------------------------------- MODULE Reach -------------------------------
(***************************************************************************)
(* Reachability in structured Python code (C16, first half).                *)
(*                                                                         *)
(* A shape is the body of a function: a block (sequence) of statements       *)
(*   [k |-> "mark"]                       an observable statement            *)
(*   [k |-> "if",    t, body, orelse]      t in {"T","F","U"}                 *)
(*   [k |-> "while", t, body, orelse]                                        *)
(*   [k |-> "for",   t, body, orelse]      t in {"empty","one","many","U",    *)
(*                                         "lazyempty","lazyone"}: the last   *)
(*                                         two are iterator OBJECTS (truthy    *)
(*                                         whether or not they yield anything) *)
(*   [k |-> "match", body, orelse]         match <unknown>: case True: body    *)
(*                                         case _: orelse  (either may run)    *)
(*   [k |-> "with",  body]                                                   *)
(*   [k |-> "try",   body, handler, final] `except Exception:` / `finally:`   *)
(*                                         the handler may be break / continue *)
(*   [k |-> "return"], [k |-> "raise"], [k |-> "break"], [k |-> "continue"]   *)
(*   [k |-> "assert", t]                                                     *)
(* "U" is a condition the analysis cannot know: every evaluation may go      *)
(* either way; a "U" iterable yields 0, 1 or 2 items.                        *)
(*                                                                         *)
(* The semantics is a transition system over a continuation stack; TLC      *)
(* explores every execution (every resolution of every unknown, zero / one / *)
(* two loop iterations), so  Reachable(p) == "some behaviour executes the    *)
(* statement at path p"  is decided by plain state exploration: every state  *)
(* in which a mark is about to execute is written out.  A statement may be   *)
(* deleted as unreachable only if its path is reported for NO behaviour.     *)
(*                                                                         *)
(* A statement is identified by its path: the index in its block, preceded   *)
(* by the path of the enclosing compound statement and the branch number     *)
(* (1 = body, 2 = orelse).                                                   *)
(***************************************************************************)
EXTENDS Integers, Sequences, FiniteSets, TLC, SequencesExt, Json

CONSTANTS
    Leaves,       \* leaf statement kinds used by the generator
    Tests,        \* {"T","F","U"}
    Iters,        \* {"empty","one","many","U"}
    Compounds,    \* compound kinds used: subset of {"if","while","for","with"}
    Depth,        \* nesting depth of the generated shapes (1 or 2)
    Tails,        \* what may follow the inner compound statement at depth 2: subset of {"mark","return","raise","break","continue"}
    InLoop,       \* BOOLEAN: also embed every shape in the body of a loop
    MaxIter       \* loop iterations explored (2)

Mark == [k |-> "mark"]
Leaf(l) == IF l \in {"assertT", "assertF", "assertU"}
             THEN [k |-> "assert", t |-> IF l = "assertT" THEN "T" ELSE IF l = "assertF" THEN "F" ELSE "U"]
             ELSE [k |-> l]

\* blocks: a statement, optionally followed by an observable statement
LeafStmts == {Leaf(l) : l \in Leaves}
Blocks0 == {<<s>> : s \in LeafStmts} \cup {<<s, Mark>> : s \in LeafStmts}
OrElse0 == {<<>>} \cup {<<Mark>>} \cup {<<Leaf(l)>> : l \in Leaves \cap {"return", "break", "raise"}}

Comp(bodies, orelses) ==
    (IF "if" \in Compounds THEN {[k |-> "if", t |-> t, body |-> b, orelse |-> o] : t \in Tests, b \in bodies, o \in orelses} ELSE {})
    \cup (IF "while" \in Compounds THEN {[k |-> "while", t |-> t, body |-> b, orelse |-> o] : t \in Tests, b \in bodies, o \in orelses} ELSE {})
    \cup (IF "for" \in Compounds THEN {[k |-> "for", t |-> t, body |-> b, orelse |-> o] : t \in Iters, b \in bodies, o \in orelses} ELSE {})
    \cup (IF "with" \in Compounds THEN {[k |-> "with", body |-> b, orelse |-> <<>>] : b \in bodies} ELSE {})
    \cup (IF "try" \in Compounds
           THEN {[k |-> "try", body |-> b, handler |-> hf[1], final |-> hf[2], orelse |-> <<>>] :
                    b \in bodies, hf \in {<<<<Mark>>, <<>>>>, <<<<>>, <<Mark>>>>, <<<<Mark>>, <<Mark>>>>, <<<<[k |-> "return"]>>, <<>>>>}
                                            \cup {<<<<[k |-> l]>>, <<>>>> : l \in Leaves \cap {"break", "continue"}}}
                \* try / except / else: the else clause runs only when the body completed normally
                \cup {[k |-> "try", body |-> b, handler |-> h, final |-> <<>>, orelse |-> o] :
                         b \in bodies, h \in {<<Mark>>, <<[k |-> "return"]>>}, o \in {<<[k |-> l]>> : l \in Leaves \cap {"return", "raise", "break"}} \cup {<<Mark>>}}
           ELSE {})
    \cup (IF "match" \in Compounds THEN {[k |-> "match", body |-> b, orelse |-> o] : b \in bodies, o \in orelses} ELSE {})

C1 == Comp(Blocks0, OrElse0)
\* depth 2: a compound whose body is a depth-1 compound followed by a mark
TailStmt(x) == IF x = "mark" THEN Mark ELSE [k |-> x]
Blocks1 == {<<c, TailStmt(x)>> : c \in C1, x \in Tails}
C2 == Comp(Blocks1, {<<>>, <<Mark>>})

TopStmts == IF Depth = 1 THEN C1 ELSE C2
Plain == {<<c, Mark>> : c \in TopStmts}
Looped == {<<[k |-> "for", t |-> "U", body |-> <<c, Mark>>, orelse |-> <<>>], Mark>> : c \in TopStmts}
Shapes == Plain \cup (IF InLoop THEN Looped ELSE {})

-----------------------------------------------------------------------------
(* continuation frames                                                      *)
(*   [f |-> "seq", stmts, path, idx]   the rest of a block; next statement has index idx *)
(*   [f |-> "loop", s, path, n]        a loop whose body is running (n = iterations started) *)
(*   [f |-> "try", s, path, stage]     a try statement whose body / handler is running      *)
(*   [f |-> "fin", pend]               a finally block is running; pend = what is resumed    *)
(*                                     afterwards: "none" | "ret" | "exc" | "break" | "continue" *)
VARIABLES shape, K, status     \* status: "run" | "ret" | "exc" | "end" | "cut"
vars == <<shape, K, status>>

SeqF(stmts, path, idx) == [f |-> "seq", stmts |-> stmts, path |-> path, idx |-> idx]
LoopF(s, path, n) == [f |-> "loop", s |-> s, path |-> path, n |-> n]
TryF(s, path, stage) == [f |-> "try", s |-> s, path |-> path, stage |-> stage]
FinF(pend) == [f |-> "fin", pend |-> pend]

\* well-formedness of the generated shapes: break / continue only inside loops
RECURSIVE WF(_, _)
WF(block, inloop) ==
    \A i \in 1..Len(block) :
        LET s == block[i] IN
        CASE s.k \in {"break", "continue"} -> inloop
          [] s.k \in {"if", "match"} -> WF(s.body, inloop) /\ WF(s.orelse, inloop)
          [] s.k = "with" -> WF(s.body, inloop)
          [] s.k = "try" -> WF(s.body, inloop) /\ WF(s.handler, inloop) /\ WF(s.final, inloop) /\ WF(s.orelse, inloop)
          [] s.k \in {"while", "for"} -> WF(s.body, TRUE) /\ WF(s.orelse, inloop)
          [] OTHER -> TRUE

Init == /\ shape \in {x \in Shapes : WF(x, FALSE)}
        /\ K = <<SeqF(shape, <<>>, 1)>>
        /\ status = "run"

Top == K[Len(K)]
Pop == SubSeq(K, 1, Len(K) - 1)

\* may the test be true / false
CanT(t) == t \in {"T", "U"}
CanF(t) == t \in {"F", "U"}
\* may a for loop start iteration number n (1-based)
CanIter(t, n) == CASE t \in {"empty", "lazyempty"} -> FALSE [] t \in {"one", "lazyone"} -> n = 1
                   [] t = "many" -> n <= MaxIter [] t = "U" -> n <= MaxIter
CanStop(t, n) == CASE t \in {"empty", "lazyempty"} -> TRUE [] t \in {"one", "lazyone"} -> n = 2
                   [] t = "many" -> n = MaxIter + 1 [] t = "U" -> TRUE

(* An abrupt completion (return, exception, break, continue) leaves the frames of the stack S one by one   *)
(* until a frame intercepts it: a try statement whose body raised runs its handler; a try statement with a   *)
(* finally clause runs that clause and resumes the completion afterwards; a loop takes break / continue.     *)
RECURSIVE Unwind(_, _)
Unwind(kind, S) ==
    IF S = <<>> THEN [K |-> <<>>, status |-> IF kind = "ret" THEN "ret" ELSE "exc"]
    ELSE LET fr == S[Len(S)]
             below == SubSeq(S, 1, Len(S) - 1)
         IN IF fr.f = "try"
              THEN IF kind = "exc" /\ fr.stage = "body" /\ fr.s.handler # <<>>
                     THEN [K |-> below \o <<TryF(fr.s, fr.path, "handler"), SeqF(fr.s.handler, fr.path \o <<3>>, 1)>>, status |-> "run"]
                   ELSE IF fr.s.final # <<>>
                     THEN [K |-> below \o <<FinF(kind), SeqF(fr.s.final, fr.path \o <<4>>, 1)>>, status |-> "run"]
                   ELSE Unwind(kind, below)
            ELSE IF fr.f = "loop" /\ kind = "break" THEN [K |-> below, status |-> IF below = <<>> THEN "end" ELSE "run"]
            ELSE IF fr.f = "loop" /\ kind = "continue" THEN [K |-> S, status |-> "run"]
            ELSE Unwind(kind, below)

\* a block is finished: pop its frame (a loop / try / finally frame below it takes the next decision)
BlockDone ==
    /\ status = "run" /\ K # <<>> /\ Top.f = "seq" /\ Top.stmts = <<>>
    /\ K' = Pop
    /\ status' = IF Len(K) = 1 THEN "end" ELSE "run"
    /\ UNCHANGED shape

\* the body of a loop has finished (or `continue`): go round again, or leave through the else branch
LoopNext ==
    /\ status = "run" /\ K # <<>> /\ Top.f = "loop"
    /\ LET s == Top.s
           n == Top.n + 1
           again == IF s.k = "while" THEN CanT(s.t) /\ n <= MaxIter ELSE CanIter(s.t, n)
           stop == IF s.k = "while" THEN CanF(s.t) ELSE CanStop(s.t, n)
       IN \/ /\ again
             /\ K' = Pop \o <<LoopF(s, Top.path, n), SeqF(s.body, Top.path \o <<1>>, 1)>>
             /\ status' = "run"
          \/ /\ stop
             /\ K' = Pop \o <<SeqF(s.orelse, Top.path \o <<2>>, 1)>>
             /\ status' = "run"
          \/ /\ ~again /\ ~stop       \* `while True` past the exploration bound: this behaviour is cut
             /\ K' = K /\ status' = "cut"
    /\ UNCHANGED shape

\* the body or the handler of a try statement completed normally: run the finally clause, if any
TryNext ==
    /\ status = "run" /\ K # <<>> /\ Top.f = "try"
    /\ K' = IF Top.stage = "body" /\ Top.s.orelse # <<>>
              THEN Pop \o <<TryF(Top.s, Top.path, "else"), SeqF(Top.s.orelse, Top.path \o <<2>>, 1)>>     \* exceptions of the else clause are not handled here
            ELSE IF Top.s.final # <<>> THEN Pop \o <<FinF("none"), SeqF(Top.s.final, Top.path \o <<4>>, 1)>> ELSE Pop
    /\ status' = "run"
    /\ UNCHANGED shape

\* a finally clause completed normally: resume what it interrupted
FinNext ==
    /\ status = "run" /\ K # <<>> /\ Top.f = "fin"
    /\ IF Top.pend = "none" THEN K' = Pop /\ status' = "run"
       ELSE LET r == Unwind(Top.pend, Pop) IN K' = r.K /\ status' = r.status
    /\ UNCHANGED shape

Exec ==
    /\ status = "run" /\ K # <<>> /\ Top.f = "seq" /\ Top.stmts # <<>>
    /\ LET s == Head(Top.stmts)
           me == Top.path \o <<Top.idx>>
           rest == Pop \o <<SeqF(Tail(Top.stmts), Top.path, Top.idx + 1)>>
           abrupt(kind) == LET r == Unwind(kind, Pop) IN K' = r.K /\ status' = r.status
       IN CASE s.k = "mark" -> K' = rest /\ status' = "run"
            [] s.k = "if" ->
                 \/ CanT(s.t) /\ K' = rest \o <<SeqF(s.body, me \o <<1>>, 1)>> /\ status' = "run"
                 \/ CanF(s.t) /\ K' = rest \o <<SeqF(s.orelse, me \o <<2>>, 1)>> /\ status' = "run"
            [] s.k = "match" ->
                 \/ K' = rest \o <<SeqF(s.body, me \o <<1>>, 1)>> /\ status' = "run"
                 \/ K' = rest \o <<SeqF(s.orelse, me \o <<2>>, 1)>> /\ status' = "run"
            [] s.k = "with" -> K' = rest \o <<SeqF(s.body, me \o <<1>>, 1)>> /\ status' = "run"
            [] s.k = "try" -> K' = rest \o <<TryF(s, me, "body"), SeqF(s.body, me \o <<1>>, 1)>> /\ status' = "run"
            [] s.k \in {"while", "for"} -> K' = rest \o <<LoopF(s, me, 0)>> /\ status' = "run"
            [] s.k = "return" -> abrupt("ret")
            [] s.k = "raise" -> abrupt("exc")
            [] s.k = "assert" ->
                 \/ CanT(s.t) /\ K' = rest /\ status' = "run"
                 \/ CanF(s.t) /\ abrupt("exc")
            [] s.k = "break" -> abrupt("break")        \* outside a loop (not generated): ends as an exception
            [] s.k = "continue" -> abrupt("continue")
    /\ UNCHANGED shape

Next == BlockDone \/ LoopNext \/ TryNext \/ FinNext \/ Exec
Spec == Init /\ [][Next]_vars

\* every state in which an observable statement is about to run reports its path
Report ==
    (status = "run" /\ K # <<>> /\ Top.f = "seq" /\ Top.stmts # <<>> /\ Head(Top.stmts).k = "mark")
        => PrintT(<<"@@J", ToJson([shape |-> shape, at |-> Top.path \o <<Top.idx>>])>>)

\* every well-formed shape is also announced once, so that shapes whose marks are all unreachable are known
Announce == (status = "run" /\ Len(K) = 1 /\ Top.idx = 1 /\ Top.path = <<>>)
                => PrintT(<<"@@J", ToJson([shape |-> shape, at |-> <<>>])>>)

=============================================================================
