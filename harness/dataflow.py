"""Dataflow.tla bound to tracing.code_dependencies_outputs and to the rules that rely on it.

A case of Dataflow.tla is a small structured program over the variables a, b with the exact sets
    created  (bound on every execution that runs to the end)
    maybe    (bound on some execution)
    needed   (read before being bound, on some execution)
computed by the collecting semantics of the spec.  Two bindings:

 contract   the program text is parsed and handed to the real tracing.code_dependencies_outputs; its three answers must be
            on the safe side of the model's:  created <= Created,  maybe >= Maybe,  required >= Needed.  A miss is not a
            property violation by itself (the properties speak about behaviour): it is recorded, with the program, as the
            place to look, and
 behaviour  the same program is made runnable (every test and every loop length is driven by an input vector, every
            assignment writes a value of its own, the variables are returned at the end) and goes through the rules that
            consume the analysis (undefine_unused_variables, move_before_loop, create_abstractions, ...) one by one and
            through format_code; it must print the same for every input vector.
"""
from __future__ import annotations

import ast
import itertools
import random
from typing import Dict, List, Tuple

from tlc import MachineryError, run_tlc

VARS = ["a", "b"]

PRELUDE = '''import contextlib


def span(n, *values):
    if values:
        print("span", *values)
    return range(n)


def ctx(*values):
    return contextlib.nullcontext(sum(values) + 7)


'''


def configs(t: str) -> List[Tuple[str, dict]]:
    full = dict(reads='{{}, {"a"}, {"b"}}', leaf='{"asg", "aug", "use", "break", "continue"}', comp='{"if", "while", "for", "with"}', tw='{""}')
    small = dict(reads='{{}, {"a"}}', leaf='{"asg", "use", "break"}', comp='{"if", "while", "for"}', tw='{""}')
    walrus = dict(reads='{{}, {"a"}}', leaf='{"asg", "use", "break", "return"}', comp='{"if", "while"}', tw='{"", "a", "b"}')
    two = dict(reads='{{}, {"a"}}', leaf='{"aug", "use"}', comp='{"for", "while"}', tw='{""}', two="TRUE")
    if t == "quick":
        return [("depth1", dict(full, depth=1, pairs="FALSE", pre="TRUE", post="TRUE")),
                ("two-loops", dict(two, depth=1, pairs="FALSE", pre="FALSE", post="TRUE")),
                ("depth2-small", dict(small, depth=2, pairs="FALSE", pre="FALSE", post="TRUE")),
                ("depth1-walrus-return", dict(walrus, depth=1, pairs="FALSE", pre="TRUE", post="TRUE"))]
    return [("depth1-pairs", dict(full, depth=1, pairs="TRUE", pre="TRUE", post="TRUE")),
            ("two-loops", dict(two, reads='{{}, {"a"}, {"b"}}', leaf='{"asg", "aug", "use", "break"}', comp='{"for", "while", "if"}', depth=1,
                               pairs="FALSE", pre="FALSE", post="TRUE")),
            ("depth2-small", dict(small, depth=2, pairs="FALSE", pre="TRUE", post="TRUE")),
            ("depth2-aug-continue", dict(reads='{{}, {"b"}}', leaf='{"asg", "aug", "continue", "break"}', comp='{"if", "while", "for"}', tw='{""}',
                                         depth=2, pairs="FALSE", pre="FALSE", post="TRUE")),
            ("depth1-walrus-return", dict(walrus, depth=1, pairs="TRUE", pre="TRUE", post="TRUE")),
            ("depth2-walrus-return", dict(walrus, depth=2, pairs="FALSE", pre="FALSE", post="TRUE"))]


def cases(rep, t: str) -> List[dict]:
    out = []
    for label, c in configs(t):
        mc = "\n".join(["---- MODULE DataflowMC ----", "EXTENDS Dataflow", 'MC_Vars == {"a", "b"}', f"MC_Reads == {c['reads']}",
                        f"MC_Leaf == {c['leaf']}", f"MC_Comp == {c['comp']}", f"MC_TW == {c['tw']}", "====", ""])
        cfg = "\n".join(["CONSTANTS", "  Vars <- MC_Vars", "  Reads <- MC_Reads", "  LeafKinds <- MC_Leaf", "  Compounds <- MC_Comp", "  TestWrites <- MC_TW",
                         f"  Depth = {c['depth']}", f"  PairBodies = {c['pairs']}", f"  Pre = {c['pre']}", f"  Post = {c['post']}",
                         f"  TwoLoops = {c.get('two', 'FALSE')}",
                         "INIT Init", "NEXT Next", "INVARIANT Sane", "INVARIANT Dump", "CHECK_DEADLOCK FALSE", ""])
        res = run_tlc("DataflowMC", cfg, generated_files={"DataflowMC.tla": mc}, timeout_s=3000, keep_stdout=False, heap_gb=12)
        rep.add_tlc(res, f"Dataflow {label}")
        if res.violated:
            raise MachineryError(f"Dataflow.tla: {res.violated} fails ({label})")
        for r in res.records:
            r["config"] = label
        out += res.records
    if not out:
        raise MachineryError("Dataflow: no cases")
    return out


class _Render:
    """Statement texts; every assignment gets a constant of its own so that values tell which assignment ran."""

    def __init__(self, runnable: bool, ret: str = "a, b"):
        self.k = 0
        self.runnable = runnable
        self.ret = ret

    def const(self) -> int:
        self.k += 10
        return self.k

    def test(self, s) -> str:
        call = f"cond({', '.join(s['r'])})"
        return f"({s['ww']} := {call})" if s.get("ww") else call

    def block(self, stmts, ind: int) -> List[str]:
        pad = " " * ind
        out: List[str] = []
        for s in stmts:
            k = s["k"]
            if k == "asg":
                out.append(pad + (f"{s['w']} = {' + '.join(s['r'])} + {self.const()}" if s["r"] else f"{s['w']} = {self.const()}"))
            elif k == "aug":
                out.append(pad + f"{s['w']} += {self.const()}")
            elif k == "use":
                out.append(pad + f"print({', '.join(s['r'])})")
            elif k in ("break", "continue"):
                out.append(pad + k)
            elif k == "return":
                out.append(pad + (f'return {self.ret}, "early"' if self.runnable else "return"))
            elif k == "if":
                out.append(pad + f"if {self.test(s)}:")
                out += self.block(s["body"], ind + 4)
                if s["orelse"]:
                    out.append(pad + "else:")
                    out += self.block(s["orelse"], ind + 4)
            elif k == "while":
                out.append(pad + f"while {self.test(s)}:")
                out += self.block(s["body"], ind + 4)
                if s["orelse"]:
                    out.append(pad + "else:")
                    out += self.block(s["orelse"], ind + 4)
            elif k == "for":
                out.append(pad + f"for {s['w']} in span({', '.join(['n'] + list(s['r']))}):")
                out += self.block(s["body"], ind + 4)
                if s["orelse"]:
                    out.append(pad + "else:")
                    out += self.block(s["orelse"], ind + 4)
            elif k == "with":
                out.append(pad + f"with ctx({', '.join(s['r'])}) as {s['w']}:")
                out += self.block(s["body"], ind + 4)
            else:
                raise KeyError(k)
        return out


def snippet(rec: dict) -> str:
    return "\n".join(_Render(False).block(rec["prog"], 0)) + "\n"


VECTORS = [list(v) for v in itertools.product((True, False), repeat=3)]


def program(rec: dict, ret: str = "a, b") -> str:
    """The case as a program that prints what the snippet computes for every resolution of its tests and loop lengths.
    Tests print the values they read; `ret` names the variables that are still needed when the snippet is done."""
    body = "\n".join(_Render(True, ret).block(rec["prog"], 4))
    return (PRELUDE + "def run(conds, n):\n    it = iter(conds)\n\n    def cond(*values):\n        if values:\n            print(\"test\", *values)\n"
            "        return next(it, False)\n\n"
            "    a = -1\n    b = -2\n" + body + f"\n    return {ret}\n\n\n"
            "for first in (True, False):\n    for second in (True, False):\n        for third in (True, False):\n"
            "            for n in (0, 1, 2):\n                print(run([first, second, third], n))\n")


MODULE_VECTORS = [([False, False, False], 0), ([True, False, True], 2), ([False, True, False], 1), ([True, True, True], 1)]
_HEADER = "VEC, N = {vec}, {n}\n"


def program_module(rec: dict, ret: str = "a, b") -> str:
    """The case as module-level code (the analysis is applied to module bodies and function bodies alike, the rules treat
    the two differently).  One input vector per text: with_vector() swaps it."""
    body = "\n".join(_Render(True, ret).block(rec["prog"], 0))
    return (_HEADER.format(vec=MODULE_VECTORS[0][0], n=MODULE_VECTORS[0][1]) + PRELUDE +
            "it = iter(VEC)\nn = N\n\n\ndef cond(*values):\n    if values:\n        print(\"test\", *values)\n    return next(it, False)\n\n\n"
            "a = -1\nb = -2\n" + body + f"\nprint({ret})\n")


def with_vector(text: str, k: int):
    """The same program under input vector k, or None when the header line is gone."""
    first, _, rest = text.partition("\n")
    if not first.startswith("VEC, N = "):
        return None
    return _HEADER.format(vec=MODULE_VECTORS[k][0], n=MODULE_VECTORS[k][1]) + rest


def has_return(block) -> bool:
    return any(s["k"] == "return" or has_return(s.get("body", [])) or has_return(s.get("orelse", [])) for s in block)


def contract(mods, rec: dict) -> Dict[str, List[str]]:
    """Where the real analysis is on the unsafe side of the model: {'created': [...], 'maybe': [...], 'required': [...]}."""
    text = snippet(rec)
    body = ast.parse(text).body
    created, maybe, required = mods["tracing"].code_dependencies_outputs(body)
    created, maybe, required = (set(x) & set(VARS) for x in (created, maybe, required))
    miss = {}
    if rec["normal"] and not created <= set(rec["created"]):
        miss["created"] = sorted(created - set(rec["created"]))          # called surely created, but some complete execution does not bind it
    if not maybe >= set(rec["maybe"]):
        miss["maybe"] = sorted(set(rec["maybe"]) - maybe)                # may be bound, the analysis says never
    if not required >= set(rec["needed"]):
        miss["required"] = sorted(set(rec["needed"]) - required)         # may be read before it is bound, the analysis says never
    return miss


def sample(recs: List[dict], rng: random.Random, n: int) -> List[dict]:
    return recs if len(recs) <= n else rng.sample(recs, n)
