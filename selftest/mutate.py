#!/usr/bin/env python3
"""Run checks against seeded changes in a scratch git worktree of /repo (never in /repo itself).

usage: mutate.py [--checks C10,C12] [--tier quick] [--skip-tests] DIFF...
Updates selftest/matrix.json: {diff: {check: "detected"|"missed"|"machinery", tests: "pass"|"fail"}}
Evidence and replay files of these runs go to a scratch directory, not to /verif/evidence.
"""
import argparse
import json
import os
import shutil
import subprocess
import sys
import tempfile
import time
from pathlib import Path

VERIF = Path(__file__).resolve().parent.parent
REPO = "/repo"


def sh(cmd, **kw):
    return subprocess.run(cmd, shell=True, capture_output=True, text=True, **kw)


def main():
    ap = argparse.ArgumentParser()
    ap.add_argument("--checks", default="")
    ap.add_argument("--tier", default="quick")
    ap.add_argument("--skip-tests", action="store_true")
    ap.add_argument("--show", type=int, default=1)
    ap.add_argument("diffs", nargs="+")
    a = ap.parse_args()
    matrix_path = VERIF / "selftest" / "matrix.json"
    for diff in a.diffs:
        diff = str(Path(diff).resolve())
        name = (Path(diff).parent.name if Path(diff).name == "patch.diff" else Path(diff).stem)
        meta = Path(diff).parent / "meta.json"
        checks = [c for c in a.checks.split(",") if c]
        if not checks and meta.exists():
            checks = [json.loads(meta.read_text()).get("property")]
        wt = tempfile.mkdtemp(prefix="verif-mut-")
        scratch = tempfile.mkdtemp(prefix="verif-mutout-")
        entry = {}
        try:
            os.rmdir(wt)
            p = sh(f"git -C {REPO} worktree add --detach {wt} HEAD")
            if p.returncode != 0:
                print(f"{name}: cannot create worktree: {p.stderr}")
                continue
            p = sh(f"git -C {wt} apply {diff}")
            if p.returncode != 0:
                print(f"{name}: patch does not apply: {p.stderr.strip()}")
                entry["apply"] = "failed"
                continue
            env = dict(os.environ, VERIF_REPO=wt, VERIF_EVIDENCE_DIR=scratch + "/evidence",
                       VERIF_REPLAY_DIR=scratch + "/replays", VERIF_TIER=a.tier)
            if not a.skip_tests:
                t = sh(f"cd {wt} && PYTHONPATH={wt} /venv/bin/python -m pytest -q -p no:cacheprovider --timeout=900 2>&1 | tail -1")
                entry["tests"] = "pass" if " passed" in t.stdout and "failed" not in t.stdout else "fail: " + t.stdout.strip()
            for c in checks:
                t0 = time.time()
                p = sh(f"cd {VERIF} && ./check {c}", timeout=10800, env=env)
                viol = [l for l in p.stdout.splitlines() if l.startswith("VIOLATION")]
                if p.returncode == 1 and viol:
                    entry[c] = "detected"
                elif p.returncode == 0:
                    entry[c] = "missed"
                else:
                    entry[c] = f"machinery(rc={p.returncode})"
                tail = (p.stderr.strip().splitlines() or [""])[-1][:200]
                print(f"{name}: {c} -> {entry[c]} ({time.time() - t0:.0f}s) tests={entry.get('tests')}")
                for l in viol[: a.show]:
                    print("    " + l[:260])
                if not viol and entry[c].startswith("machinery"):
                    print("    " + tail)
        finally:
            sh(f"git -C {REPO} worktree remove --force {wt}")
            shutil.rmtree(wt, ignore_errors=True)
            shutil.rmtree(scratch, ignore_errors=True)
            sh(f"git -C {REPO} worktree prune")
        matrix = json.loads(matrix_path.read_text()) if matrix_path.exists() else {}
        matrix.setdefault(name, {}).update(entry)
        matrix_path.write_text(json.dumps(matrix, indent=1, sort_keys=True) + "\n")
    return 0


if __name__ == "__main__":
    sys.exit(main())
