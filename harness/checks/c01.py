"""C01 - whole-pipeline refactoring preserves program behaviour.

Programs: ProgGen.tla (typed block grammar, enumerated by TLC) and the repository's example snippets under
the closing environments of Closing.tla (kept when the ORIGINAL terminates normally twice with identical
output).  Each (program, option vector) is formatted under the recorder; TLC validates clause FinalObs of
PipelineTrace.tla (observation of the returned program = observation of the input), together with
Returns / FinalValid.  A failing run is localised to the first stage after which the observation differs.
"""
from __future__ import annotations

import random
import sys
from typing import Dict, List, Tuple

import blame
import closing
import corpus
import execbox
import pipecheck
import proggen
from common import Report, import_pyrefact, tier, seed
from tlc import MachineryError

PROP = "C01"

FORBIDDEN = ("globals(", "locals(", "vars(", "dir(", "eval(", "exec(", "__name__", "__doc__", "inspect", "__file__",
             "id(", "hash(", "time.", "random.", "datetime", "os.environ", "sys.argv", "input(", "open(", "__dict__",
             "getsource", "traceback", "__code__", "breakpoint", "help(")


class Obs:
    """obs(text) with bulk prefetch; only ('ok', stdout) observations of programs inside the class count."""

    def __init__(self, runner: execbox.Runner):
        self.runner = runner

    def prefetch(self, texts):
        self.runner.observe_many([t for t in texts if t is not None])

    def __call__(self, text):
        return self.runner.observe(text)


def in_class(text: str) -> bool:
    return not any(f in text for f in FORBIDDEN)


def program_space(rep: Report, t: str, rng: random.Random, runner: execbox.Runner, n_gen: int, n_snip) -> List[Tuple[str, str]]:
    progs = proggen.programs(rep, t, rng, n_gen)
    snippets = list(corpus.repo_snippets())
    if n_snip is not None:
        snippets = rng.sample(snippets, min(n_snip, len(snippets)))
    variants = []
    for origin, text in snippets:
        if not in_class(text):
            continue
        for tag, prog in closing.closed_variants(text, rng):
            variants.append((f"snippet:{origin}[{tag}]", prog))
    if getattr(closing.kind_vectors, "stats", None) is not None:
        rep.add_tlc(closing.kind_vectors.stats, "Closing (kind vectors)")
    # programs of the other properties' generator specs that run and print (identifier scenarios, function pairs, libraries)
    import crossfeed
    cross = [(k, p) for k, p, o in crossfeed.inputs(rep, t, rng, per_space=100 if t == "quick" else 1200)
             if k.startswith(("rename:", "alpha:", "surface:", "boolalg:", "ranges:", "reach:")) and not o.get("safe")]
    cands = progs + variants + cross
    # inside the class of C01: terminates normally, twice, with identical output
    first = runner.observe_many([p for _, p in cands])
    runner.cache.clear()
    second = runner.observe_many([p for _, p in cands])
    kept_all = [((k, p), a) for (k, p), a, b in zip(cands, first, second)
                if a == b and a[0] == "ok" and " at 0x" not in a[1] and "<function" not in a[1] and "<class" not in a[1]]
    # at most `per_origin` environments per snippet, preferring those that call a function and print something
    per_origin, by_origin = (3 if t == "quick" else 8), {}
    kept = []
    for (k, p), a in sorted(kept_all, key=lambda x: (not x[1][1].strip(), ";" not in x[0][0])):
        origin = k.split("[")[0]
        if k.startswith("snippet:") and by_origin.get(origin, 0) >= per_origin:
            continue
        by_origin[origin] = by_origin.get(origin, 0) + 1
        kept.append((k, p))
    rep.coverage["program_candidates"] = len(cands)
    rep.coverage["programs_in_class"] = len(kept)
    rep.coverage["programs_with_output"] = sum(1 for (k, p), a in zip(cands, first) if a[0] == "ok" and a[1].strip())
    return kept


def option_vectors(t: str, rng: random.Random, text: str) -> List[dict]:
    import proj
    names = sorted(proj.defined_names(text) or [])
    some = frozenset(rng.sample(names, min(2, len(names)))) if names else frozenset()
    if t == "quick":
        return [{}, rng.choice([{"safe": True}, {"preserve": some}, {"keep_imports": True, "max_line_length": 60}])]
    return [{}, {"safe": True}, {"preserve": some}, {"preserve": frozenset(names)}, {"keep_imports": True},
            {"max_line_length": 60}, {"safe": True, "keep_imports": True, "max_line_length": 60}]


def main(argv=None) -> int:
    rep = Report(PROP, "exploration")
    import_pyrefact()
    t = tier()
    rng = random.Random(seed())
    runner = execbox.Runner(n=16, timeout=5)
    try:
        progs = program_space(rep, t, rng, runner, n_gen=800 if t == "quick" else 9000, n_snip=None)
        if t == "quick":
            always = ("gen:", "reach:directed:", "boolalg:pairs:")
            gen = [x for x in progs if x[0].startswith(always)]
            snip = [x for x in progs if not x[0].startswith(always)]
            progs = gen + rng.sample(snip, min(700, len(snip)))
        items = []
        for key, text in progs:
            for o in option_vectors(t, rng, text):
                tag = ",".join(f"{k}={sorted(v) if isinstance(v, frozenset) else v}" for k, v in sorted(o.items())) or "default"
                items.append((f"{key}|{tag}", text, o))
        obs = Obs(runner)
        runs = pipecheck.run_and_validate(rep, items, want=("obs",), obs=obs, label="C01 programs",
                                          timeout=60 if t == "quick" else 180)
        # localise failures: observation after every stage of the failing runs
        failing = [r for r in runs if r.result is not None and "FinalObs" in r.verdict["bad"]]
        runner.observe_many([e["after"] for r in failing for e in r.changed_events()])
        # an intermediate text may only lack an import that a later stage adds: judge it after that stage
        mods = import_pyrefact()
        patched = {}
        for r in failing:
            for e in r.changed_events():
                if runner.observe(e["after"])[0] == "exc:NameError" and e["after"] not in patched:
                    try:
                        patched[e["after"]] = mods["fixes"].add_missing_imports(e["after"])
                    except Exception:
                        pass
        runner.observe_many(list(patched.values()))
        blame_obs = dict(runner.cache)
        for text, fixed_text in patched.items():
            blame_obs[text] = runner.observe(fixed_text)
        changed = 0
        per_stage: Dict[str, int] = {}
        for r in runs:
            if r.result is not None and r.result != r.source:
                changed += 1
                for e in r.changed_events():
                    per_stage[e["stage"]] = per_stage.get(e["stage"], 0) + 1
        for r in failing:
            base = runner.observe(r.source)
            ev = blame.first_breaking_stage(r.changed_events(), blame_obs, base)
            if ev is None:
                stage, s_in, s_out = "format_code", r.source, r.result
            else:
                stage, s_in, s_out = ev["stage"], ev["before"], ev["after"]
            kf, sh = pipecheck.known_by_signature(rep, stage, s_in, s_out, r.source)
            case = {"input_id": r.key, "program": r.source, "options": r.opts_json(), "result": r.result,
                    "obs_before": base, "obs_after": runner.observe(r.result), "stage": stage, "stage_input": s_in,
                    "stage_output": s_out, "shape": sh}
            if kf:
                rep.known(kf, {"input_id": r.key, "stage": stage, "rewrite": f"{sh['old_src'][:80]} -> {sh['new_src'][:80]}"})
                continue
            rep.violation(f"behaviour changed at stage {stage}: {sh['old_src'][:90]!r} -> {sh['new_src'][:90]!r}; "
                          f"obs {base[0]}/{base[1][:40]!r} -> {case['obs_after'][0]}/{case['obs_after'][1][:40]!r}; input {r.key}", case)
    finally:
        runner.close()
    rep.coverage["evaluations"] = len(runs)
    rep.coverage["distinct_nontrivial"] = changed
    rep.coverage["traces_validated_against_impl"] = len(runs)
    rep.coverage["stage_firings"] = dict(sorted(per_stage.items()))
    rep.coverage["rule"] = ("programs = ProgGen.tla block programs and repository snippets under Closing.tla environments, kept when the "
                            "original terminates normally twice with identical stdout and uses no introspection; x option vectors; "
                            "non-trivial = format_code changed the text")
    for r in runs[:: max(1, len(runs) // 3)][:3]:
        rep.sample({"input_id": r.key, "program": r.source[:400], "options": r.opts_json()})
    rep.assumptions += ["observation = termination class + stdout of an isolated execution (PYTHONHASHSEED=0, 5 s limit)",
                        "programs that mention introspection / time / randomness / IO names are excluded by a textual filter"]
    return rep.finish()


if __name__ == "__main__":
    sys.exit(main())
