"""Child program of the C06 check: formats a list of texts in THIS interpreter, whose string-hash seed
(PYTHONHASHSEED) and heap layout (a seeded amount of pre-allocation before anything is imported) were
chosen by the parent.  Usage:  seedrun.py <items.json> <out.json> <perturbation> <procs>

items.json: [[key, text, opts, rule-or-null], ...]; out.json: [[key, status, output], ...].
Forked helper processes inherit the hash seed, so the work is spread over <procs> of them.
"""
import json
import os
import random
import sys


def _perturb(n: int):
    """Shift addresses of everything allocated later: objects of many size classes are kept alive."""
    rng = random.Random(n)
    keep = []
    for _ in range(n * 997 % 50_000):
        k = rng.randrange(6)
        if k == 0:
            keep.append(object())
        elif k == 1:
            keep.append([None] * rng.randrange(40))
        elif k == 2:
            keep.append({"k": rng.random()})
        elif k == 3:
            keep.append("x" * rng.randrange(200))
        elif k == 4:
            keep.append((rng.random(), rng.random()))
        else:
            keep.append(bytearray(rng.randrange(500)))
    # free a random half, so that the allocator's free lists differ as well
    rng.shuffle(keep)
    del keep[: len(keep) // 2]
    return keep


def main(argv):
    items_path, out_path, perturbation, procs = argv[1], argv[2], int(argv[3]), int(argv[4])
    ballast = _perturb(perturbation)  # noqa: F841 - kept alive on purpose
    sys.path.insert(0, os.path.dirname(os.path.abspath(__file__)))
    import workers
    from common import import_pyrefact

    items = json.load(open(items_path))

    def init():
        return import_pyrefact()

    def one(mods, item):
        key, text, opts, rule = item
        opts = dict(opts)
        if "preserve" in opts:
            opts["preserve"] = frozenset(opts["preserve"])
        try:
            if rule is None:
                out = mods["main"].format_code(text, **opts)
            else:
                mod, _, name = rule.partition(".")
                out = getattr(mods[mod], name)(text)
        except BaseException as exc:  # noqa: BLE001
            if isinstance(exc, KeyboardInterrupt):
                raise
            return [key, "raise", type(exc).__name__]
        return [key, "ok", out]

    raw = workers.run_tasks(one, items, init=init, procs=procs, timeout=300)
    out = []
    for item, r in zip(items, raw):
        if isinstance(r, list):
            out.append(r)
        else:
            out.append([item[0], "lost", str(r)[:80]])
    json.dump(out, open(out_path, "w"))
    return 0


if __name__ == "__main__":
    sys.exit(main(sys.argv))
