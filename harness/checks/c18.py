"""C18 - import normalisation keeps every referenced name bound to the same object.

Imports.tla: a package tree (base -> mid -> [top] -> client; flat modules or a package with absolute / relative
imports; __all__; re-exports by name, alias, star, module object; redefinition after import) with Python's import
rules; TLC enumerates the cases and computes Resolve = the origin of every name the client references.
  (C) the tree is written to disk and the client imported: the objects' own __module__ / __qualname__ must be what
      Resolve says (exit 2 otherwise);
  (A) the client is formatted (cwd = the tree, as the tool resolves modules through the working directory), imported
      next to the original in the same interpreter, and every referenced object must be the SAME object.
"""
from __future__ import annotations

import importlib
import json
import os
import random
import shutil
import sys
import tempfile
from pathlib import Path
from typing import Dict, List, Optional, Tuple

import blame
import workers
from common import Report, import_pyrefact, tier, seed
from tlc import MachineryError, run_tlc

PROP = "C18"
FUNCS = ("alpha", "beta", "gamma", "delta", "al", "bl", "first", "Path")


def modname(which: str, pkg: str) -> str:
    if which == "extra":
        return "extra"
    if pkg in ("flat", "flatshadow"):
        return which
    if pkg in ("subabs", "subrel"):            # mid is an ordinary module of the package, next to base
        return {"base": "pkg.impl", "mid": "pkg.lib", "top": "top"}[which]
    return {"base": "pkg.impl", "mid": "pkg", "top": "top"}[which]


def import_stmt(form: str, src: str, names: List[str], own: str, rel_src: Optional[str] = None) -> str:
    """The statements by which a library module takes `names` from module `src`."""
    target = rel_src or src
    if form == "from":
        return f"from {target} import {', '.join(names)}\n"
    if form == "alias":
        ren = {"alpha": "al", "al": "bl"}
        return "from {} import {}\n".format(target, ", ".join(f"{n} as {ren[n]}" if n in ren else n for n in names))
    if form == "swap":
        if "alpha" in names and "beta" in names:
            rest = [n for n in names if n not in ("alpha", "beta", "first")]
            return "from {} import {}\n".format(target, ", ".join(["alpha as first", "beta as alpha"] + rest))
        return f"from {target} import {', '.join(names)}\n"
    if form == "star":
        return f"from {target} import *\n"
    if form == "fromstar":
        return f"from {target} import {', '.join(names)}\nfrom extra import *\n"
    if form == "module":
        return f"import {src}\n"
    if form == "redef":
        out = f"from {target} import {', '.join(names)}\n"
        if "alpha" in names:
            out += f'\n\ndef alpha():\n    return "alpha@{own}"\n'
        return out
    raise KeyError(form)


def build_tree(rec: dict) -> Dict[str, str]:
    c = rec["case"]
    pkg = c["pkg"]
    files = {}
    base = ""
    if c["ball"] == "alpha":
        base += '__all__ = ["alpha"]\n\n\n'
    for n in ("alpha", "beta", "_hid", "Path"):
        base += f'def {n}():\n    return "{n}@base"\n\n\n'
    wanted_base = ["alpha", "beta", "Path"]
    mid_src = modname("base", pkg)
    rel = ".impl" if pkg in ("pkgrel", "subrel") else None
    mid = import_stmt(c["mid"], mid_src, wanted_base, "mid", rel) + '\n\ndef gamma():\n    return "gamma@mid"\n'
    # a dead module file next to the package of the same name: the import system takes the package
    stale = 'def alpha():\n    return "alpha@stale"\n\n\ndef gamma():\n    return "gamma@stale"\n\n\ndef omega():\n    return "omega@stale"\n'
    if pkg == "flat":
        files["base.py"], files["mid.py"] = base, mid
    elif pkg == "flatshadow":
        files["base.py"], files["mid/__init__.py"], files["mid.py"] = base, mid, stale
    elif pkg == "pkgshadow":
        files["pkg/impl.py"], files["pkg/__init__.py"], files["pkg.py"] = base, mid, stale
    elif pkg in ("subabs", "subrel"):
        files["pkg/impl.py"], files["pkg/lib.py"], files["pkg/__init__.py"] = base, mid, ""
    else:
        files["pkg/impl.py"], files["pkg/__init__.py"] = base, mid
    if c["variant"] == "twostars" or c["mid"] == "fromstar":
        files["extra.py"] = 'def beta():\n    return "beta@extra"\n\n\ndef zeta():\n    return "zeta@extra"\n'
    if c["top"] != "absent":
        wanted_mid = sorted(set(rec["midnames"]) & set(FUNCS))
        files["top.py"] = import_stmt(c["top"], modname("mid", pkg), wanted_mid, "top") + '\n\ndef delta():\n    return "delta@top"\n'
    return files


def client_text(rec: dict) -> Optional[str]:
    c = rec["case"]
    outer = modname(rec["outer"], c["pkg"])
    uses = sorted(c["uses"])
    form, variant = c["client"], c["variant"]
    if form == "from":
        names = list(uses)
        if variant == "unused":
            extra = sorted(set(rec["reachable"]) - set(uses))[:1]
            names = sorted(names + extra)
        imp = f"from {outer} import {', '.join(names)}\n"
        refs = uses
    elif form == "alias":
        names = list(uses)
        if variant == "unused":
            names = sorted(names + sorted(set(rec["reachable"]) - set(uses))[:1])
        imp = "from {} import {}\n".format(outer, ", ".join(f"{n[2:]} as {n}" for n in names))
        refs = uses
    elif form == "star":
        if variant in ("infunc", "unused"):
            return None
        imp = f"from {outer} import *\n"
        if variant == "twostars":
            imp = "from extra import *\n" + imp
        if variant == "basestar":
            imp = "from base import *\n" + imp
        refs = uses
    elif form == "module":
        if variant == "unused":
            return None
        imp = f"import os, {outer}\n" if variant == "stacked" else f"import {outer}\n"
        refs = [f"{outer}.{n}" for n in uses]
    elif form == "modalias":
        if variant in ("unused", "stacked"):
            return None
        imp = f"import {outer} as lib\n"
        refs = [f"lib.{n}" for n in uses]
    else:
        return None
    head = ""
    extra_use = ""
    if variant == "stacked":
        if form in ("from", "alias", "star"):
            head = "import os, sys\n"
        extra_use = "    print(os.sep, end='')\n" if form == "module" else ("    print(os.sep, sys.maxsize > 0, end='')\n" if head else "")
    if variant == "dup":
        imp = imp + imp
    body_refs = ", ".join(refs)
    if variant == "infunc":
        fn = "def use():\n" + "".join("    " + ln + "\n" for ln in imp.splitlines()) + extra_use + f"    return [{body_refs}]\n"
        return head + "\n\n" + fn + "\n\nprint([f.__name__ for f in use()])\n"
    fn = "def use():\n" + extra_use + f"    return [{body_refs}]\n"
    if variant == "late":
        return head + fn + "\n\n" + imp + "\nprint([f.__name__ for f in use()])\n"
    return head + imp + "\n\n" + fn + "\n\nprint([f.__name__ for f in use()])\n"


def _init():
    return import_pyrefact()


def _case(mods, rec):
    """Runs in a fresh fork: nothing of this case survives."""
    c = rec["case"]
    text = client_text(rec)
    if text is None:
        return {"skip": True}
    tmp = os.path.realpath(tempfile.mkdtemp(prefix="verif-c18-"))
    try:
        files = build_tree(rec)
        for rel, t in files.items():
            p = Path(tmp, rel)
            p.parent.mkdir(parents=True, exist_ok=True)
            p.write_text(t)
        os.chdir(tmp)
        sys.path.insert(0, tmp)
        importlib.invalidate_caches()
        Path(tmp, "client_a.py").write_text(text)
        import contextlib
        import io
        out_a = io.StringIO()
        try:
            with contextlib.redirect_stdout(out_a):
                mod_a = importlib.import_module("client_a")
                objs_a = mod_a.use()
        except BaseException as exc:  # noqa: BLE001
            return {"machinery": f"the generated client does not run: {type(exc).__name__}: {exc}", "client": text, "files": files}
        # ---- (C) Resolve against CPython
        uses = sorted(c["uses"])
        want = {name: (modname(m, c["pkg"]), n) for name, m, n in rec["resolve"]}
        got = {name: (getattr(o, "__module__", "?"), getattr(o, "__qualname__", "?")) for name, o in zip(uses, objs_a)}
        if got != want:
            return {"machinery": "Resolve of Imports.tla differs from CPython", "client": text, "files": files, "spec": want, "cpython": got}
        # ---- (A) the formatted client
        try:
            formatted = mods["main"].format_code(text, preserve=frozenset({"use"}))
        except BaseException as exc:  # noqa: BLE001
            if isinstance(exc, KeyboardInterrupt):
                raise
            return {"bad": f"format_code raised {type(exc).__name__}: {exc}", "client": text, "files": files, "formatted": None}
        res = {"client": text, "files": files, "formatted": formatted, "changed": formatted != text}
        if formatted == text:
            return res
        Path(tmp, "client_b.py").write_text(formatted)
        importlib.invalidate_caches()
        out_b = io.StringIO()
        try:
            with contextlib.redirect_stdout(out_b):
                mod_b = importlib.import_module("client_b")
                use_b = getattr(mod_b, "use", None) or getattr(mod_b, "_use")
                objs_b = use_b()
        except BaseException as exc:  # noqa: BLE001
            res["bad"] = f"the formatted client no longer runs: {type(exc).__name__}: {exc}"
            return res
        if len(objs_b) != len(objs_a) or any(a is not b for a, b in zip(objs_a, objs_b)):
            diff = [(u, f"{getattr(a, '__module__', '?')}.{getattr(a, '__qualname__', '?')}", f"{getattr(b, '__module__', '?')}.{getattr(b, '__qualname__', '?')}")
                    for u, a, b in zip(uses, objs_a, objs_b) if a is not b]
            res["bad"] = f"referenced names resolve to different objects after formatting: {diff}"
        elif out_a.getvalue() != out_b.getvalue():
            res["bad"] = f"the client prints {out_b.getvalue()!r} instead of {out_a.getvalue()!r}"
        return res
    finally:
        os.chdir("/")
        shutil.rmtree(tmp, ignore_errors=True)


# ------------------------------------------------------------------------------------------ the client's own imports (InitStd)
STD_STMT = {"import_os_path": "import os.path", "import_os_path_sep": "import os.path", "import_conc_futures": "import concurrent.futures", "import_xml_minidom": "import xml.dom.minidom",
            "import_xml_etree": "import xml.etree.ElementTree", "from_os_path": "from os import path", "from_sys_path": "from sys import path", "import_json_as_j": "import json as j",
            "import_json": "import json", "from_json_dumps": "from json import dumps as dump", "from_pickle_dumps": "from pickle import dumps as dump",
            "from_ospath_join": "from os.path import join", "from_shlex_join": "from shlex import join", "import_pickle_as_json": "import pickle as json",
            "import_email_mime_root": "import email.mime.text", "import_email_mime_mid": "import email.mime.text", "import_xml_dom_root": "import xml.dom.minidom"}
# the expression by which the client uses what a statement binds (one per statement)
STD_USE = {"import_os_path": "os.path.join", "import_os_path_sep": "os.sep", "import_conc_futures": "concurrent.futures.Future", "import_xml_minidom": "xml.dom.minidom.parseString",
           "import_xml_etree": "xml.etree.ElementTree.Element", "from_os_path": "path", "from_sys_path": "path", "import_json_as_j": "j.loads",
           "import_json": "json.loads", "from_json_dumps": "dump", "from_pickle_dumps": "dump", "from_ospath_join": "join", "from_shlex_join": "join",
           "import_pickle_as_json": "json.loads", "import_email_mime_root": "email.message_from_string", "import_email_mime_mid": "email.mime.__name__",
           "import_xml_dom_root": "xml.__name__"}


# (name bound, object) per statement, as in the catalogue of Imports.tla
STD_BIND = {"import_os_path": ("os", "mod:os"), "import_os_path_sep": ("os", "mod:os"), "import_conc_futures": ("concurrent", "mod:concurrent"), "import_xml_minidom": ("xml", "mod:xml"),
            "import_xml_etree": ("xml", "mod:xml"), "from_os_path": ("path", "mod:os.path"), "from_sys_path": ("path", "sys.path"),
            "import_json_as_j": ("j", "mod:json"), "import_json": ("json", "mod:json"), "from_json_dumps": ("dump", "json.dumps"),
            "from_pickle_dumps": ("dump", "pickle.dumps"), "from_ospath_join": ("join", "os.path.join"), "from_shlex_join": ("join", "shlex.join"),
            "import_pickle_as_json": ("json", "mod:pickle"), "import_email_mime_root": ("email", "mod:email"), "import_email_mime_mid": ("email", "mod:email"),
            "import_xml_dom_root": ("xml", "mod:xml")}


def std_expected(obj: str):
    import importlib as il
    if obj.startswith("mod:"):
        return il.import_module(obj[4:])
    mod, _, attr = obj.rpartition(".")
    return getattr(il.import_module(mod), attr)


def std_client(rec) -> str:
    stmts = [STD_STMT[i] for i in rec["stmts"]]
    refs = ", ".join(STD_USE[i] for i, _ in rec["resolve"])           # what the statements that RUN bind
    tail = f"\n\n\ndef use():\n    return [{refs}]\n\n\nprint([getattr(o, '__name__', type(o).__name__) for o in use()])\n"
    if rec["place"] == "branch_if":
        return f"import sys\n\nif len(sys.argv) < 50:\n    {stmts[0]}\nelse:\n    {stmts[1]}" + tail
    if rec["place"] == "branch_else":
        return f"import sys\n\nif len(sys.argv) > 50:\n    {stmts[0]}\nelse:\n    {stmts[1]}" + tail
    if rec["place"] == "try_ok":
        return f"try:\n    {stmts[0]}\nexcept ImportError:\n    {stmts[1]}" + tail
    if rec["place"] == "infunc":
        return "def use():\n" + "".join(f"    {s}\n" for s in stmts) + f"    return [{refs}]\n\n\nprint([getattr(o, '__name__', type(o).__name__) for o in use()])\n"
    if rec["place"] == "mixed" and len(stmts) > 1:
        return "\n".join(stmts[:-1]) + "\n\n\ndef use():\n" + f"    {stmts[-1]}\n    return [{refs}]\n\n\nprint([getattr(o, '__name__', type(o).__name__) for o in use()])\n"
    return "\n".join(stmts) + "\n\n\ndef use():\n" + f"    return [{refs}]\n\n\nprint([getattr(o, '__name__', type(o).__name__) for o in use()])\n"


def _std_case(mods, rec):
    text = std_client(rec)
    names = [i for i, _ in rec["resolve"]]
    tmp = os.path.realpath(tempfile.mkdtemp(prefix="verif-c18s-"))
    import contextlib
    import io
    try:
        os.chdir(tmp)
        sys.path.insert(0, tmp)
        Path(tmp, "client_a.py").write_text(text)
        try:
            with contextlib.redirect_stdout(io.StringIO()):
                objs_a = importlib.import_module("client_a").use()
        except AttributeError:
            return {"skip": True}        # a later statement rebinds the name to an object without that attribute: not a program that runs
        except BaseException as exc:  # noqa: BLE001
            return {"machinery": f"the generated client does not run: {type(exc).__name__}: {exc}", "client": text}
        # ---- (C): LastBinding against CPython.  The use expression goes on from the bound object by attribute access.
        want = {i: o for i, o in rec["resolve"]}
        for n, o in zip(names, objs_a):
            root = std_expected(want[n])
            tail = STD_USE[n].split(".")[1:]
            for a in tail:
                root = getattr(root, a)
            if root is not o:
                return {"machinery": f"LastBinding of Imports.tla differs from CPython for {n}", "client": text, "spec": want[n]}
        try:
            formatted = mods["main"].format_code(text, preserve=frozenset({"use"}))
        except BaseException as exc:  # noqa: BLE001
            if isinstance(exc, KeyboardInterrupt):
                raise
            return {"bad": f"format_code raised {type(exc).__name__}: {exc}", "client": text, "formatted": None}
        res = {"client": text, "formatted": formatted, "changed": formatted != text}
        if formatted == text:
            return res
        Path(tmp, "client_b.py").write_text(formatted)
        importlib.invalidate_caches()
        try:
            with contextlib.redirect_stdout(io.StringIO()):
                mod_b = importlib.import_module("client_b")
                objs_b = (getattr(mod_b, "use", None) or getattr(mod_b, "_use"))()
        except BaseException as exc:  # noqa: BLE001
            res["bad"] = f"the formatted client no longer runs: {type(exc).__name__}: {exc}"
            return res
        diff = [(STD_USE[n], repr(a)[:60], repr(b)[:60]) for n, a, b in zip(names, objs_a, objs_b) if a is not b]
        if len(objs_a) != len(objs_b) or diff:
            res["bad"] = f"referenced names resolve to different objects after formatting: {diff}"
        return res
    finally:
        os.chdir("/")
        shutil.rmtree(tmp, ignore_errors=True)


def std_part(rep: Report, t: str, rng: random.Random, known) -> Tuple[int, int]:
    cfg = "\n".join(["CONSTANTS", '  BaseAlls = {"none"}', '  MidForms = {"from"}', '  TopForms = {"absent"}', '  ClientForms = {"from"}',
                     '  Variants = {"plain"}', '  Pkgs = {"flat"}', "  MaxUses = 1", f"  MaxStd = {2 if t == 'quick' else 3}",
                     '  StdPlaces = {"top", "infunc", "mixed", "branch_if", "branch_else", "try_ok"}', "INIT InitStd", "NEXT Next", "INVARIANT DumpStd", "CHECK_DEADLOCK FALSE", ""])
    res = run_tlc("Imports", cfg, timeout_s=1800, keep_stdout=False)
    rep.add_tlc(res, "Imports (standard library statements)")
    recs = res.records
    if not recs:
        raise MachineryError("Imports: no standard library cases")
    results = workers.run_tasks(_std_case, recs, init=_init, procs=16, timeout=300, fork_per_task=True)
    n_run = n_changed = 0
    # sub-modules stay imported inside one interpreter: whether the formatted client still imports what it uses
    # only shows in a FRESH interpreter
    import execbox
    runner = execbox.default_runner()
    pairs = [(r["client"], r["formatted"]) for r in results if isinstance(r, dict) and r.get("changed") and "bad" not in r]
    texts = sorted({t for p in pairs for t in p})
    obs = dict(zip(texts, runner.observe_many(texts)))
    for r in results:
        if isinstance(r, dict) and r.get("changed") and "bad" not in r and obs[r["client"]][0] == "ok" and obs[r["formatted"]] != obs[r["client"]]:
            r["bad"] = f"in a fresh interpreter the formatted client gives {obs[r['formatted']]} instead of {obs[r['client']]}"
    for rec, r in zip(recs, results):
        if not isinstance(r, dict):
            raise MachineryError(f"case did not finish: {r} ({rec})")
        if "machinery" in r:
            raise MachineryError(f"{r['machinery']}: {json.dumps({k: v for k, v in r.items() if k != 'machinery'}, default=str)[:1500]}")
        if r.get("skip"):
            continue
        n_run += 1
        n_changed += bool(r.get("changed"))
        if "bad" not in r:
            continue
        sh = blame.shape(r["client"], r["formatted"]) if r.get("formatted") else {}
        # two statements that bind one name to DIFFERENT objects (the model's catalogue says which object)
        bound = {}
        for i in rec["stmts"]:
            bound.setdefault(STD_BIND[i][0], set()).add(STD_BIND[i][1])
        feats = [f"std-{i}" for i in rec["stmts"]] + [f"place-{rec['place']}"] + ([("same-name-bound-in-branches" if rec["place"] in ("branch_if", "branch_else", "try_ok") else "same-name-bound-twice")]
                                                                               if any(len(v) > 1 for v in bound.values()) else [])
        sh = dict(sh, features=list(sh.get("features", [])) + feats)
        kf = next((e["id"] for e in known if blame.matches_signature(e, "format_code", sh, r["client"])), None)
        case = {"statements": [STD_STMT[i] for i in rec["stmts"]], "place": rec["place"], "client": r["client"], "formatted": r.get("formatted"),
                "resolve": rec["resolve"]}
        if kf:
            rep.known(kf, case)
        else:
            rep.violation(f"{r['bad']} (client imports: {'; '.join(STD_STMT[i] for i in rec['stmts'])}; placed {rec['place']})", case)
    return n_run, n_changed


def main(argv=None) -> int:
    rep = Report(PROP, "model_checking")
    import_pyrefact()
    t = tier()
    rng = random.Random(seed())
    known = rep.known_entries()
    def cfg_for(pkgs, variants, clients):
        return "\n".join(["CONSTANTS", '  BaseAlls = {"none", "alpha"}', '  MidForms = {"from", "alias", "star", "module", "redef", "swap", "fromstar"}',
                          '  TopForms = {"absent", "from", "alias", "star", "module", "redef", "swap"}',
                          f"  ClientForms = {clients}", f"  Variants = {variants}", f"  Pkgs = {pkgs}",
                          f"  MaxUses = {2 if t == 'quick' else 3}", "  MaxStd = 1", '  StdPlaces = {"top"}', "INIT Init", "NEXT Next",
                          "INVARIANT OriginsAreDefinitions", "INVARIANT Dump", "CHECK_DEADLOCK FALSE", ""])
    all_variants = '{"plain", "dup", "infunc", "unused", "stacked", "late", "twostars", "basestar"}'
    all_clients = '{"from", "alias", "star", "module", "modalias"}'
    cfgs = [("Imports", cfg_for('{"flat", "pkgabs", "pkgrel", "subabs", "subrel"}', all_variants, all_clients)),
            # a dead module file next to the package of the same name: resolution must be that of the package
            ("Imports (shadowed packages)", cfg_for('{"flatshadow", "pkgshadow"}', '{"plain", "twostars"}' if t == "quick" else all_variants,
                                                    '{"from", "star", "module"}' if t == "quick" else all_clients))]
    recs, shadow = [], []
    for label, cfg in cfgs:
        res = run_tlc("Imports", cfg, timeout_s=3000, keep_stdout=False, heap_gb=12)
        rep.add_tlc(res, label)
        if res.violated:
            raise MachineryError(f"Imports.tla: {res.violated} fails")
        (shadow if "shadow" in label else recs).extend(res.records)
    if not recs:
        raise MachineryError("Imports: no cases")
    cap = 3500 if t == "quick" else 60000
    if len(recs) > cap:
        # the cases in which a star import has to provide a name the tool has its own guess for are all kept
        # ... and those in which a later star import of the re-exporting module overrides an explicit import (flat tree, plain client)
        over = [r for r in recs if r["case"]["mid"] == "fromstar" and "beta" in r["case"]["uses"] and r["case"]["pkg"] == "flat"
                and r["case"]["variant"] == "plain" and r["case"]["ball"] == "none"]
        over = over if len(over) <= cap // 8 else rng.sample(over, cap // 8)
        guess = [r for r in recs if "Path" in r["case"]["uses"] and "star" in (r["case"]["client"], r["case"]["mid"], r["case"]["top"])]
        guess = guess if len(guess) <= cap // 4 else rng.sample(guess, cap // 4)
        guess = guess + [r for r in over if all(r is not g for g in guess)]
        rep.coverage["override_cases_kept"] = len(over)
        chosen = {id(r) for r in guess}
        rest = [r for r in recs if id(r) not in chosen]
        recs = guess + rng.sample(rest, cap - len(guess))
        rep.coverage["cases_sampled"] = True
    cap_shadow = 600 if t == "quick" else 20000
    recs += shadow if len(shadow) <= cap_shadow else rng.sample(shadow, cap_shadow)
    results = workers.run_tasks(_case, recs, init=_init, procs=16, timeout=300, fork_per_task=True)
    n_run = n_changed = 0
    for rec, r in zip(recs, results):
        if not isinstance(r, dict):
            raise MachineryError(f"case did not finish: {r} ({rec['case']})")
        if r.get("skip"):
            continue
        if "machinery" in r:
            raise MachineryError(f"{r['machinery']}: {json.dumps({k: v for k, v in r.items() if k != 'machinery'}, default=str)[:1800]}")
        n_run += 1
        n_changed += bool(r.get("changed"))
        if "bad" not in r:
            continue
        case = {"case": rec["case"], "files": r["files"], "client": r["client"], "formatted": r.get("formatted"), "resolve": rec["resolve"]}
        sh = blame.shape(r["client"], r["formatted"]) if r.get("formatted") else {}
        feats = [f"mid-{rec['case']['mid']}", f"top-{rec['case']['top']}", f"client-{rec['case']['client']}", f"pkg-{rec['case']['pkg']}",
                 f"variant-{rec['case']['variant']}", f"ball-{rec['case']['ball']}"]
        sh = dict(sh, features=list(sh.get("features", [])) + feats)
        kf = next((e["id"] for e in known if blame.matches_signature(e, "format_code", sh, r["client"])), None)
        if kf:
            rep.known(kf, {"case": rec["case"], "client": r["client"], "formatted": r.get("formatted")})
        else:
            rep.violation(f"{r['bad']} (tree {rec['case']['pkg']}, mid takes names by '{rec['case']['mid']}', top by '{rec['case']['top']}', "
                          f"client by '{rec['case']['client']}', variant {rec['case']['variant']})", case)
    rep.sample({"case": recs[0]["case"], "client": client_text(recs[0]), "tree": build_tree(recs[0])})
    s_run, s_changed = std_part(rep, t, rng, known)
    rep.coverage["standard_library_cases"] = s_run
    rep.coverage["evaluations"] = n_run + s_run
    rep.coverage["distinct_nontrivial"] = n_changed + s_changed
    rep.coverage["traces_validated_against_impl"] = n_run + s_run
    rep.coverage["rule"] = ("Imports.tla cases (base/__all__ x 5 re-export forms in mid x 6 in top x 5 client import forms x 6 statement variants x flat / "
                            "package with absolute / relative imports x referenced-name subsets) materialised on disk; Resolve validated against CPython; "
                            "client formatted with cwd at the tree; object identity of every referenced name before / after; non-trivial = the text changed")
    rep.assumptions += ["object identity is compared inside one interpreter in which the library modules are imported once"]
    return rep.finish()


if __name__ == "__main__":
    sys.exit(main())
