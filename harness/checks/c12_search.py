"""C12 (search half): Search.tla occurrences replayed into pattern_matching.finditer / findall."""
from __future__ import annotations

import json
import multiprocessing as mp
from typing import Dict, List, Tuple

from common import Report, import_pyrefact
from tlc import MachineryError, run_tlc

PATTERNS_QUICK = [["a"], ["a", "b"], ["x", "b"], ["x", "x"], ["a", "_"], ["a", "b", "a"], ["x", "y"], ["x", "a", "x"]]
PATTERNS_THOROUGH = PATTERNS_QUICK + [["b"], ["_", "_"], ["x", "y", "x"], ["a", "a"], ["_", "b", "_"], ["x", "x", "x"]]


def render(src: List[dict]) -> Tuple[str, Dict[Tuple[int, str, int], int]]:
    """Source text and the 1-based line of every (item, field, index) occurrence position."""
    lines: List[str] = []
    where: Dict[Tuple[int, str, int], int] = {}

    def emit_block(j, field, blk, indent):
        for i, a in enumerate(blk, start=1):
            lines.append(" " * indent + a)
            where[(j, field, i)] = len(lines)

    for j, it in enumerate(src, start=1):
        k = it["k"]
        where[(0, "top", j)] = len(lines) + 1
        if k == "atom":
            lines.append(it["body"][0])
            continue
        # identical items must be identical trees (a wildcard repeated over two compound statements)
        head = {"if": "if c:", "for": "for i in r:", "while": "while c:", "with": "with w:",
                "def": "def f():", "class": "class K:", "try": "try:", "defif": "def f():"}[k]
        lines.append(head)
        ind = 4
        if k == "defif":
            lines.append("    if c:")
            ind = 8
        emit_block(j, "body", it["body"], ind)
        if k == "try":
            lines.append("except E:")
            emit_block(j, "orelse", it["orelse"], 4)
            if it["final"]:
                lines.append("finally:")
                emit_block(j, "final", it["final"], 4)
        elif it["orelse"]:
            lines.append(" " * (ind - 4) + "else:")
            emit_block(j, "orelse", it["orelse"], ind)
    return "\n".join(lines) + "\n", where


def pattern_text(P: List[str]) -> str:
    return "\n".join(("{{...}}" if e == "_" else "{{" + e + "}}") if e in ("x", "y", "_") else e for e in P)


def _chunk(records):
    mods = import_pyrefact()
    pm = mods["pattern_matching"]
    stats = {"search_cases": 0, "search_nontrivial": 0}
    bad = []
    for rec in records:
        src = rec["src"]
        text, where = render(src)
        for P, occ in rec["occ"]:
            stats["search_cases"] += 1
            if occ:
                stats["search_nontrivial"] += 1
            ptxt = pattern_text(P)
            expected = sorted(where[(o[0][0], o[0][1], o[1])] for o in occ)
            try:
                ms = list(pm.finditer(ptxt, text))
                got = sorted(m.lineno for m in ms)
                fa = pm.findall(ptxt, text)
            except Exception as exc:
                bad.append({"kind": "search-raised", "pattern": ptxt, "source": text, "error": repr(exc)})
                continue
            if got != expected or len(fa) != len(expected):
                bad.append({"kind": "search", "pattern": ptxt, "source": text, "expected_lines": expected,
                            "reported_lines": got, "findall": fa})
    return stats, bad


def search_cfg(t: str):
    pats = PATTERNS_QUICK if t == "quick" else PATTERNS_THOROUGH
    mc = "\n".join(["---- MODULE SearchMC ----", "EXTENDS Search",
                    "MC_Patterns == {" + ", ".join("<<" + ", ".join(f'"{e}"' for e in P) + ">>" for P in pats) + "}",
                    "====", ""])
    runs = []
    if t == "quick":
        runs.append(("top2-body2", '{"if", "while", "with", "try", "defif"}', 2, 2))
        runs.append(("top3-body1", '{"for", "def", "class", "try"}', 1, 3))
    else:
        runs.append(("top2-body2-all", '{"if", "for", "while", "with", "def", "class", "try", "defif"}', 2, 2))
        runs.append(("top3-body1-all", '{"if", "for", "while", "with", "def", "class", "try", "defif"}', 1, 3))
        runs.append(("top1-body3", '{"if", "for", "with", "try", "defif"}', 3, 1))
    out = []
    for label, kinds, maxbody, maxtop in runs:
        cfg = "\n".join(["CONSTANTS", '  Atoms = {"a", "b"}', f"  Kinds = {kinds}", f"  MaxBody = {maxbody}",
                         f"  MaxTop = {maxtop}", "  Patterns <- MC_Patterns", "INIT Init", "NEXT Next",
                         "INVARIANT NoUnwalked", "INVARIANT Dump", "CHECK_DEADLOCK FALSE", ""])
        out.append((label, mc, cfg))
    return out


def run(rep: Report, t: str, stats: dict, procs=16):
    for label, mc, cfg in search_cfg(t):
        res = run_tlc("SearchMC", cfg, generated_files={"SearchMC.tla": mc}, timeout_s=3000, keep_stdout=False, heap_gb=12)
        rep.add_tlc(res, f"Search {label}")
        if res.violated:
            rep.violation(f"Search.tla: {res.violated} fails ({label})", {"label": label, "trace": res.error_trace})
            continue
        if not res.records:
            raise MachineryError(f"Search {label}: no records")
        recs = res.records
        n = max(1, min(procs, len(recs) // 50 + 1))
        chunks = [recs[i::n] for i in range(n)]
        with mp.get_context("fork").Pool(n) as pool:
            parts = pool.map(_chunk, chunks)
        for st, bad in parts:
            for k, v in st.items():
                stats[k] = stats.get(k, 0) + v
            for case in bad:
                rep.violation(f"{case['kind']}: pattern={case['pattern']!r} expected lines {case.get('expected_lines')} "
                              f"reported {case.get('reported_lines', case.get('error'))}", case)
        for r in recs:
            if len(r["src"]) >= 2 and any(o for _, o in r["occ"]) and len(rep.coverage["samples"]) < 4:
                text, _ = render(r["src"])
                rep.sample({"search_source": text, "occurrences": r["occ"]})
                break
