---------------------------- MODULE SchedulerGen ----------------------------
(* Generator / oracle configuration of Scheduler: every terminal state of   *)
(* the bounded model is one scenario together with the outcome the          *)
(* specification computes for it; it is written out as one JSON record and  *)
(* replayed into processing.fix / processing.chain by harness/checks/c10.py *)
EXTENDS Scheduler, Json

CONSTANT EmitAlts    \* BOOLEAN: also write every admissible outcome (layouts whose validity only the parser can judge)

KeySeq(S) == SetToSortSeq(S, KeyLess)

Record ==
    [yields   |-> yields,
     ignored  |-> SetToSortSeq(ignored, LAMBDA a, b : a[1] < b[1]),
     result   |-> result,
     splice   |-> work,
     alts     |-> IF EmitAlts THEN SetToSeq(AdmissibleSplices) ELSE <<>>,
     rolled   |-> rolled,
     accepted |-> KeySeq(Accepted),
     dropped  |-> SetToSortSeq(dropped, LAMBDA a, b : KeyLess(a[1], b[1]) \/ (a[1] = b[1] /\ a[2] < b[2])),
     order    |-> [j \in 1..Len(order) |-> <<order[j].lo, order[j].hi, order[j].new>>],
     calls    |-> ExpectedCalls]

Dump == pc = "done" => PrintT(<<"@@J", ToJson(Record)>>)

\* vacuity witnesses: each must be violated (reachable) in a healthy run
NeverConflict == ~(\E d \in dropped : d[2] = "conflict")
=============================================================================
