"""Renderer of Surface.tla cases to Python modules."""
from __future__ import annotations

from typing import Dict, List, Tuple

STYLE = {
    "snake": lambda i: f"my_name_{i}",
    "camel": lambda i: f"myName{i}",
    "upper": lambda i: f"MY_NAME_{i}",
    "private": lambda i: f"_my_name_{i}",
    "dunderish": lambda i: f"__my_name_{i}",
    "pascal": lambda i: f"MyName{i}",
}


def render(case: dict) -> Tuple[str, List[str], Dict[str, str]]:
    """(module text, surface names of the definitions in order, {surface name: how to use it})."""
    lines: List[str] = []
    uses: List[str] = []
    names: List[str] = []
    deco = case.get("deco")
    if deco:
        lines += ["def deco(f):", "    return f", "", ""]
    first_func_body = None
    for i, d in enumerate(case["defs"], start=1):
        n = STYLE[d["style"]](i)
        k = d["kind"]
        d_ = ["@deco"] if deco and k in ("func", "async", "class") else []
        if k == "func":
            lines += d_ + [f"def {n}(a):", f"    b = a + {i}", f"    return b * 2", "", ""]
            first_func_body = first_func_body or (i, n)
            names.append(n)
            uses.append(f"print({n}(1))")
        elif k == "async":
            lines += d_ + [f"async def {n}(a):", f"    return a + {i}", "", ""]
            names.append(n)
            uses.append(f"print({n}(1).close())")
        elif k == "class":
            lines += d_ + [f"class {n}:", f"    value = {i}", "", ""]
            names.append(n)
            uses.append(f"print({n}.value)")
        elif k == "var":
            lines += [f"{n} = {i} + 1"]
            names.append(n)
            uses.append(f"print({n})")
        elif k == "annvar":
            lines += [f"{n}: int = {i}"]
            names.append(n)
            uses.append(f"print({n})")
        elif k == "augvar":
            lines += [f"{n} = 0", f"{n} += {i}"]
            names.append(n)
            uses.append(f"print({n})")
        elif k == "chain":
            lines += [f"first_{i} = {n} = {i} + 30"]
            names.append(n)
            uses.append(f"print({n})")
        elif k == "starred":
            lines += [f"head_{i}, *{n} = [{i}, 2, 3]"]
            names.append(n)
            uses.append(f"print({n})")
        elif k == "listtarget":
            lines += [f"[left_{i}, {n}] = [{i}, 2]"]
            names.append(n)
            uses.append(f"print({n})")
        elif k == "underscore":
            lines += [f"_ = {i} + 5"]
            names.append("_")
            uses.append("print(_)")
        elif k == "tuple":
            lines += [f"{n}, other_{i} = {i}, 2"]
            names.append(n)
            uses.append(f"print({n})")
        elif k == "condinitclass":
            # a class defined under a condition (not a statement of the module body), never instantiated by the library
            cls = f"Guarded{i}"
            lines += ["import sys", "", f"if len(sys.argv) < 50:", f"    class {cls}:", "        def __init__(self, start):", f"            self.total = start + {i}", "",
                      "        def __len__(self):", f"            return self.total", "", "else:", f"    {cls} = None", "", ""]
            names.append(f"{cls}.__init__")
            uses.append(f"print({cls}(3).total, len({cls}(4)))")
        elif k == "initclass":
            cls = f"Keeper{i}"
            lines += [f"class {cls}:", "    def __init__(self, start):", f"        self.total = start + {i}", "",
                      "    def __repr__(self):", f"        return f'{cls}({{self.total}})'", "", ""]
            names.append(f"{cls}.__init__")
            uses.append(f"print({cls}(3).total, repr({cls}(4)))")
        else:
            cls = f"Holder{i}"
            body = {
                "method": [f"    def {n}(self):", f"        return self.base + {i}"],
                "selfless": [f"    def {n}(self):", f"        return {i}"],
                "static": ["    @staticmethod", f"    def {n}(a):", f"        return a + {i}"],
                "classmeth": ["    @classmethod", f"    def {n}(cls):", f"        return cls.base + {i}"],
                "classattr": [f"    {n} = {i}"],
            }[k]
            lines += [f"class {cls}:", "    base = 1", ""] + body + ["", ""]
            names.append(f"{cls}.{n}")
            call = {"method": f"{cls}().{n}()", "selfless": f"{cls}().{n}()", "static": f"{cls}.{n}(1)",
                    "classmeth": f"{cls}.{n}()", "classattr": f"{cls}.{n}"}[k]
            uses.append(f"print({call})")
    if case.get("dup") and first_func_body:
        i, n = first_func_body
        lines += [f"def twin_of_{i}(a):", f"    b = a + {i}", f"    return b * 2", "", "", f"print(twin_of_{i}(2))"]
    how = {}
    for d, n, u in zip(case["defs"], names, uses):
        how[n] = u
        if d["used"]:
            lines.append(u)
    lines.append("print('end')")
    return "\n".join(lines) + "\n", names, how
