"""Generates /verif/MANIFEST.json from the table below (single source of truth for the interface)."""
from __future__ import annotations

import json
import subprocess
from pathlib import Path

VERIF = Path(__file__).resolve().parent.parent

ALL = [f"C{i:02d}" for i in range(1, 21)]

CHECKS = {
    "C03": dict(
        category="model_checking",
        technique="TLC trace validation of recorded format_code runs against PipelineTrace.tla (KeepValid per stage, FinalValid); isolated rules and sub/subn on corpora; FileWrite.tla write-guard model replayed into format_file",
        text=("Every stage of every recorded format_code run (Shapes.tla cases, repository snippets, fragments, stdlib modules) is "
              "checked by TLC to keep the text parsable; every rule is applied in isolation to every snippet; sub/subn results must "
              "parse; the write guard of format_file is model-checked (FileWrite.tla: NeverBreakValid, NoWriteIfEqual) and its "
              "decision table replayed on temp files with a formatter stub returning valid / invalid / identical text."),
        note="Trusted: CPython's parser as validity oracle, TLC, the recording wrappers. Coverage is corpus-driven, not exhaustive.",
        design_ref="DESIGN.md sections 3.2, 5 (C03)",
    ),
    "C04": dict(
        category="model_checking",
        technique="TLA+ design model of the fixpoint loops (Pipeline.tla: termination under fairness for every abstract rule set) + TLC trace validation of recorded runs (Returns, Budget, ExitOnRepeat, early returns) with a kill-able time limit",
        text=("Pipeline.tla proves (by exhaustive TLC search over all rule functions on a 3-document space, budgets scaled) that the "
              "loop structure terminates within its budget and leaves each loop exactly on the first repeat. Every real run over "
              "Shapes.tla cases (construct catalogue x position x newline x options), all repository snippets (plain, safe, "
              "fragment, no trailing newline, truncated), junk strings and stdlib modules is recorded and validated by TLC "
              "against the same actions: it must return, within the wall-clock limit, through the specified control structure, "
              "and hand invalid / blank / skip-file input back."),
        note="Trusted: TLC, the wall-clock limit as the meaning of 'bounded time', the recording wrappers. Input space is a cover, not exhaustive.",
        design_ref="DESIGN.md sections 3.2, 5 (C04)",
    ),
    "C10": dict(
        category="model_checking",
        technique="TLA+ model (Scheduler.tla) checked exhaustively by TLC; every TLC scenario replayed into processing.fix/chain; TLC trace validation of recorded real scheduler calls",
        text=("Scheduler.tla models _schedule_rewrites/_apply_rewrites step by step; TLC checks atomicity, non-overlap, "
              "justified drops, rollback, stable offsets and ignored-line integrity as invariants on every scenario of the "
              "bounded space (all ranges over a 2-line text, 2-3 yields, all transaction/group assignments, ignored lines, "
              "unparsable replacements) and each scenario's outcome is replayed into the real scheduler through the public "
              "fix/chain decorators. Outcomes that differ are judged by TLC against the declarative clauses. Real scheduler "
              "calls recorded while real rules run are validated against the same actions. Bounded, not a proof."),
        note=("Trusted: TLC, the rendering of abstract units to text (checked by token round trip), CPython's parser as "
              "the validity oracle. Bounds are stated in evidence (tlc_runs)."),
        design_ref="DESIGN.md sections 3.1, 5 (C10)",
    ),
    "C12": dict(
        category="model_checking",
        technique="TLA+ models (Matcher.tla, Search.tla) enumerated exhaustively by TLC; every case replayed into core.match_template / pattern_matching.finditer+findall",
        text=("Matcher.tla contains the declarative (regular-expression) reading of list patterns and an implementation-shaped "
              "model of the greedy count-vector search; TLC checks ImplMatch => IdealMatch and completeness without an outer "
              "repetition on the whole bounded space and writes both verdicts for every (template, node list) case; each case is "
              "replayed with a hand-built template and a compiled {{..}} pattern. Search.tla enumerates sources with occurrences "
              "in every container kind and the expected occurrence set is compared with finditer/findall. Bounded, exhaustive "
              "within the stated bounds."),
        note=("Trusted: TLC, the renderer of abstract cases to Python text. Known finding KF-C12-1 (greedy list matching) is "
              "identified as the TLC-computed Gap set and the code answering exactly what the Impl model answers."),
        design_ref="DESIGN.md sections 3.6, 5 (C12)",
    ),
    "C15": dict(
        category="model_checking",
        technique="TLA+ reference semantics of constant expressions (ConstEval.tla) enumerated by TLC, validated against CPython eval, replayed into core.literal_value; consumer programs traced through format_code",
        text=("ConstEval.tla holds Python's value semantics for a bounded expression grammar (PyEval) and an implementation-shaped "
              "model of literal_value (ImplEval); TLC checks NoWrongValue and ImplTotal on every expression and writes both "
              "outcomes; each expression is evaluated by CPython (spec validation), by core.literal_value (value must agree, "
              "raising/effectful expressions must be 'unknown', nothing may escape or be executed), and planted as a condition "
              "in consumer programs whose observable behaviour must survive format_code and every consuming rule."),
        note=("Trusted: TLC, CPython as the ground truth for the TLA+ semantics (checked on every case, exit 2 on disagreement), "
              "the execution sandbox. Cases the TLA+ semantics marks out-of-model are decided by CPython directly."),
        design_ref="DESIGN.md sections 3.7, 5 (C15)",
    ),
}

NOT_YET = "not claimed yet: the check for this property is still under construction (DESIGN.md section 5 describes the planned TLA+ model and binding)"


def build() -> dict:
    checks = []
    for pid in ALL:
        if pid not in CHECKS:
            continue
        c = CHECKS[pid]
        checks.append({
            "property_id": pid,
            "quick_cmd": f"./check {pid} --tier quick",
            "thorough_cmd": f"./check {pid} --tier thorough",
            "evidence_file": f"evidence/{pid}.json",
            "replay_cmd_template": f"./check {pid} --replay {{path}}",
            "engine": "tlc+replay",
            "level_claimed": {"category": c["category"], "text": c["text"], "design_ref": c["design_ref"]},
            "level_note": c["note"],
            "technique": c["technique"],
        })
    return {
        "version": 1,
        "setup_cmd": "./check setup",
        "hooks": {
            "guard": "PYREFACT_VERIF",
            "enable": ("PYREFACT_VERIF=1 (set by ./check): recording wrappers in /verif/harness/hooks.py are installed "
                       "around pyrefact module attributes at run time; /repo contains no hook code"),
            "baseline_off_cmd": "cd /repo && /venv/bin/python -m pytest -ra -q -p no:cacheprovider --timeout=900 --continue-on-collection-errors",
            "source_commits": [],
            "add_only": True,
        },
        "engines": [{
            "name": "tlc+replay",
            "path": "harness/",
            "serves_properties": sorted(CHECKS),
            "kind_free_text": ("explicit TLA+ specifications in spec/ checked with TLC 1.8; TLC-generated cases replayed into "
                               "the real code, and traces recorded from the real code validated by TLC against the specs"),
        }],
        "checks": checks,
        "not_applicable": [{"property_id": p, "reason": NA.get(p, NOT_YET)} for p in ALL if p not in CHECKS],
        "notes": ("Exit codes: 0 held, 1 VIOLATION, 2 machinery failure (never a property verdict). Genuine defects found: "
                  "known_findings.json. Seeded changes and the detection matrix: seeded/, selftest/matrix.json."),
    }


NA = {}


def main():
    m = build()
    (VERIF / "MANIFEST.json").write_text(json.dumps(m, indent=1) + "\n")
    code = ("import json,jsonschema;jsonschema.validate(json.load(open('/verif/MANIFEST.json')),"
            "json.load(open('/root/.vp/MANIFEST.schema.json')))")
    p = subprocess.run(["python3-vt", "-c", code], capture_output=True, text=True)
    print("MANIFEST.json written;", "valid" if p.returncode == 0 else "INVALID:\n" + p.stderr[-1500:])


if __name__ == "__main__":
    main()
