------------------------------- MODULE Layout -------------------------------
(***************************************************************************)
(* Input cover for the layout stages (C11).  A case is a literal of some     *)
(* kind whose content carries layout-sensitive features, placed in some      *)
(* surrounding code, formatted with some line length.                        *)
(*   Kinds    : "triple", "triple_single", "raw_triple", "bytes_triple",     *)
(*              "fstring_triple", "docstring", "single", "concat",           *)
(*              "comment" (a comment, not a literal: features there MAY be   *)
(*              normalised - the control group)                              *)
(*   Features : "tab", "trailing", "blanks3", "blanks2", "long", "backslash",*)
(*              "hash",                                                     *)
(*              "crlf_escape", "indent8", "linesep" (U+2028 and a form feed: *)
(*              line ends for str.splitlines, not for Python)                *)
(*   Places   : "module", "in_def", "after_decorator", "between_imports",    *)
(*              "call_arg", "dict_value", blank-line placements inside       *)
(*              brackets, "nested_last_stmt" / "after_import_in_def" (the    *)
(*              literal continues LEFT of its statement), "fsegment" (the    *)
(*              value also occurs as text segment of f-strings)              *)
(* The property of every layout stage s on every case c:                     *)
(*     Tree(s(c)) = Tree(c)   and   Strings(s(c)) = Strings(c)               *)
(* where Tree ignores positions and whitespace inside docstrings.  Which     *)
(* content features a literal kind can carry at all is decided here.         *)
(***************************************************************************)
EXTENDS Integers, FiniteSets, TLC, Json

CONSTANTS Kinds, Features, Places, LineLengths, MaxFeatures

VARIABLE case
vars == <<case>>

MultiLine(k) == k \in {"triple", "triple_single", "raw_triple", "bytes_triple", "fstring_triple", "docstring"}

\* a single-line literal cannot contain a run of blank lines or trailing blanks at a line end
Admissible(k, fs) ==
    /\ Cardinality(fs) <= MaxFeatures
    /\ (~MultiLine(k) /\ k # "comment" => fs \cap {"blanks3", "blanks2", "trailing", "indent8"} = {})
    /\ (k = "comment" => fs \cap {"blanks3", "blanks2", "backslash", "crlf_escape", "linesep"} = {})
    /\ ~({"blanks2", "indent8"} \subseteq fs)
    /\ (~MultiLine(k) => "blank1" \notin fs)
    /\ (k = "raw_triple" => "crlf_escape" \notin fs)
    /\ (k = "bytes_triple" => "linesep" \notin fs)          \* a bytes literal holds ASCII only

Init == case \in {[kind |-> k, feats |-> fs, place |-> p, len |-> n] :
                     k \in Kinds, fs \in {x \in SUBSET Features : TRUE}, p \in Places, n \in LineLengths}
        /\ Admissible(case.kind, case.feats)
        /\ (case.kind = "docstring" => case.place \in {"module", "in_def"})
Next == UNCHANGED case
Spec == Init /\ [][Next]_vars

\* does the property demand exact preservation of the literal's VALUE for this kind
ValueMustSurvive == case.kind \notin {"docstring", "comment"}

Dump == PrintT(<<"@@J", ToJson([kind |-> case.kind, feats |-> case.feats, place |-> case.place,
                                len |-> case.len, exact |-> ValueMustSurvive])>>)
=============================================================================
