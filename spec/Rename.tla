------------------------------- MODULE Rename -------------------------------
(***************************************************************************)
(* Which binding does an identifier occurrence belong to?  (C19)            *)
(*                                                                         *)
(* A SCENARIO is a small program skeleton: a tree of scopes (module,         *)
(* functions, classes, comprehensions) and an ordered list of identifier     *)
(* OCCURRENCES [slot, scope, role].  A slot (X, Y, Z) is a hole for an       *)
(* identifier; TLC fills the slots with every combination of identifiers of  *)
(* an adversarial pool (camelCase / snake_case / UPPER variants of one       *)
(* another, a builtin, "_", a generated-looking name).  Roles:               *)
(*   "store"     assignment / for target / with-as / import-as / def or      *)
(*               class name / augmented assignment target                   *)
(*   "param"     function parameter                                          *)
(*   "load"      a read                                                      *)
(*   "global" / "nonlocal"    a declaration in that scope                    *)
(*   "attr"      obj.<ident> where obj is an instance / the class whose      *)
(*               scope is given: belongs to the class-level binding          *)
(*   "kw"        f(<ident>=..) : belongs to the parameter of the function    *)
(*               whose scope is given                                        *)
(*                                                                         *)
(* Python's scoping (LEGB) decides the binding of an occurrence: the pair    *)
(* <<scope, identifier>> it resolves to.  Two occurrences belong together    *)
(* iff they resolve to the same pair - whatever the identifiers look like.   *)
(* The PARTITION of the occurrences by binding is what a renaming must keep: *)
(* merging two groups is a capture, splitting a group is a missed reference. *)
(* TLC enumerates the cases and writes the partition out; the harness        *)
(* renders the program, checks the partition against CPython's own symbol    *)
(* tables (exit 2 on disagreement), applies the renaming rules and compares  *)
(* the partition of the result, occurrence by occurrence.                    *)
(***************************************************************************)
EXTENDS Integers, Sequences, FiniteSets, TLC, SequencesExt, Json

CONSTANTS Scenarios,    \* set of [name, distinct, scopes, occ]; scopes: sequence of [id, parent, kind]; occ: sequence of [slot, scope, role]
          Pool,         \* identifiers
          Builtins      \* identifiers of the pool that are Python builtins

ScopeRec(sc, s) == CHOOSE r \in {sc.scopes[i] : i \in 1..Len(sc.scopes)} : r.id = s
Parent(sc, s) == ScopeRec(sc, s).parent
Kind(sc, s) == ScopeRec(sc, s).kind
Slots(sc) == {sc.occ[i].slot : i \in 1..Len(sc.occ)}
Occs(sc) == {sc.occ[i] : i \in 1..Len(sc.occ)}

\* ident is declared global / nonlocal in scope s
Declared(sc, a, s, ident, how) == \E o \in Occs(sc) : o.scope = s /\ o.role = how /\ a[o.slot] = ident
\* ident is a local of scope s: bound there and not declared otherwise
LocalIn(sc, a, s, ident) ==
    /\ \E o \in Occs(sc) : o.scope = s /\ o.role \in {"store", "param"} /\ a[o.slot] = ident
    /\ ~Declared(sc, a, s, ident, "global") /\ ~Declared(sc, a, s, ident, "nonlocal")

\* where a name read or written in scope s is bound.  `from` is the scope the lookup started in: class scopes are
\* only visible to code directly in them, not to functions nested in them.
RECURSIVE Up(_, _, _, _, _)
Up(sc, a, s, ident, start) ==
    IF s = "none" THEN <<"builtins", ident>>
    ELSE IF Kind(sc, s) = "module" THEN (IF LocalIn(sc, a, s, ident) THEN <<s, ident>> ELSE <<"builtins", ident>>)
    ELSE IF LocalIn(sc, a, s, ident) /\ (Kind(sc, s) # "class" \/ s = start) THEN <<s, ident>>
    ELSE Up(sc, a, Parent(sc, s), ident, start)

ModuleOf(sc) == (CHOOSE r \in {sc.scopes[i] : i \in 1..Len(sc.scopes)} : r.kind = "module").id
\* nearest enclosing FUNCTION scope (not s itself) in which ident is local
RECURSIVE EnclosingFunction(_, _, _, _)
EnclosingFunction(sc, a, s, ident) ==
    LET p == Parent(sc, s) IN
    IF p = "none" THEN <<"builtins", ident>>
    ELSE IF Kind(sc, p) = "function" /\ LocalIn(sc, a, p, ident) THEN <<p, ident>>
    ELSE EnclosingFunction(sc, a, p, ident)

Resolve(sc, a, o) ==
    LET ident == a[o.slot] IN
    CASE o.role = "attr" -> <<o.scope, ident>>                       \* the class-level binding of that class
      [] o.role = "kw" -> <<o.scope, ident>>                         \* the parameter of that function
      [] o.role = "global" -> <<ModuleOf(sc), ident>>
      [] o.role = "nonlocal" -> EnclosingFunction(sc, a, o.scope, ident)
      [] OTHER ->
           IF Declared(sc, a, o.scope, ident, "global") THEN <<ModuleOf(sc), ident>>
           ELSE IF Declared(sc, a, o.scope, ident, "nonlocal") THEN EnclosingFunction(sc, a, o.scope, ident)
           ELSE Up(sc, a, o.scope, ident, o.scope)

Assignments(sc) == [Slots(sc) -> Pool]
\* programs that Python accepts and that run: no name is parameter and global at once, nonlocal finds its function,
\* every read finds a binding (or a builtin), the slots of one parameter list differ
WellFormed(sc, a) ==
    /\ \A o \in Occs(sc) : o.role \in {"global", "nonlocal"} =>
            ~(\E p \in Occs(sc) : p.scope = o.scope /\ p.role = "param" /\ a[p.slot] = a[o.slot])
    /\ \A o \in Occs(sc) : o.role = "nonlocal" => EnclosingFunction(sc, a, o.scope, a[o.slot])[1] # "builtins"
    /\ \A o \in Occs(sc) : o.role = "global" => ~Declared(sc, a, o.scope, a[o.slot], "nonlocal")
    /\ \A o \in Occs(sc) : o.role = "load" => (Resolve(sc, a, o)[1] # "builtins" \/ a[o.slot] \in Builtins)
    /\ \A o, p \in Occs(sc) : (o.role = "param" /\ p.role = "param" /\ o.scope = p.scope /\ o.slot # p.slot) => a[o.slot] # a[p.slot]
    /\ \A o \in Occs(sc) : o.role = "kw" =>
            \E p \in Occs(sc) : p.scope = o.scope /\ p.role = "param" /\ a[p.slot] = a[o.slot]
    /\ (sc.distinct => \A s1, s2 \in Slots(sc) : s1 # s2 => a[s1] # a[s2])     \* scenarios that would recurse for ever otherwise

VARIABLES sc, a
Init == /\ sc \in Scenarios
        /\ a \in Assignments(sc)
        /\ WellFormed(sc, a)
Next == UNCHANGED <<sc, a>>
Spec == Init /\ [][Next]_<<sc, a>>

\* sanity of the resolver: a store in a scope without declarations binds in that very scope
StoresBindLocally == \A o \in Occs(sc) :
    (o.role \in {"store", "param"} /\ ~Declared(sc, a, o.scope, a[o.slot], "global") /\ ~Declared(sc, a, o.scope, a[o.slot], "nonlocal"))
        => Resolve(sc, a, o) = <<o.scope, a[o.slot]>>

Dump == PrintT(<<"@@J", ToJson([scenario |-> sc.name, assign |-> a,
                                 groups |-> [i \in 1..Len(sc.occ) |-> Resolve(sc, a, sc.occ[i])]])>>)
=============================================================================
