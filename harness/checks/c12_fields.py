"""C12 (third part): Fields.tla replayed into the matcher and the search.

(1) optional parts: for every form and every (pattern variant, code variant) of its optional slots the verdict
    of the specification is compared with core.match_template on the compiled pattern and with
    pattern_matching.findall / subn on a source that holds the code once.
(2) expression contexts: every source (sequence of hosts, each an expression context holding a chain of nested
    occurrences) must give exactly Total(source) occurrences, with the texts of the chains.
"""
from __future__ import annotations

import ast
import multiprocessing as mp
from typing import Dict, List, Optional, Tuple

from common import Report, import_pyrefact
from tlc import MachineryError, run_tlc

# form -> (text with <1> / <2> for the slots, variant texts per slot, wrapper of the code in a source)
# a variant text of None means: the {{..}} syntax cannot spell that variant in this slot
V = lambda absent, p, q, wild: {"absent": absent, "p": p, "q": q, "wild": wild}
FORMS: Dict[str, dict] = {
    "slice":        dict(text="v[1:<1><2>]", s1=V("", "p", "q", "{{x}}"), s2=V("", ":p", ":q", ":{{x}}")),
    "slice_lower":  dict(text="v[<1>:9]", s1=V("", "p", "q", "{{x}}")),
    "return":       dict(text="return<1>", s1=V("", " p", " q", " {{x}}"), wrap="def d():\n    {}\n"),
    "yield":        dict(text="yield<1>", s1=V("", " p", " q", " {{x}}"), wrap="def d():\n    {}\n"),
    "annassign":    dict(text="a: int<1>", s1=V("", " = p", " = q", " = {{x}}")),
    "def":          dict(text="def f(a<2>)<1>:\n    pass", s1=V("", " -> p", " -> q", " -> {{x}}"),
                         s2=V("", ": p", ": q", ": {{x}}")),
    "asyncdef":     dict(text="async def f(a)<1>:\n    pass", s1=V("", " -> p", " -> q", " -> {{x}}")),
    "def_wildname": dict(text="def {{n}}(self)<1>:\n    pass", s1=V("", " -> p", " -> q", " -> {{x}}"),
                         code="def f(self)<1>:\n    pass"),
    "raise":        dict(text="raise E<1>", s1=V("", " from p", " from q", " from {{x}}")),
    "raise_exc":    dict(text="raise<1>", s1=V("", " p", " q", " {{x}}")),
    "except":       dict(text="try:\n    pass\nexcept<1>:\n    pass", s1=V("", " p", " q", " {{x}}")),
    "except_as":    dict(text="try:\n    pass\nexcept E<1>:\n    pass", s1=V("", " as p", " as q", None)),
    "with":         dict(text="with a<1>:\n    pass", s1=V("", " as p", " as q", " as {{x}}")),
    "assert":       dict(text="assert c<1>", s1=V("", ", p", ", q", ", {{x}}")),
    "import":       dict(text="import os<1>", s1=V("", " as p", " as q", None)),
    "importfrom":   dict(text="from m import a<1>", s1=V("", " as p", " as q", None)),
    "relimport":    dict(text="from .<1> import a", s1=V("", "p", "q", None)),
    "vararg":       dict(text="def f(a<1>):\n    pass", s1=V("", ", *p", ", *q", None)),
    "kwarg":        dict(text="def f(a<1>):\n    pass", s1=V("", ", **p", ", **q", None)),
    "lambda_vararg": dict(text="lambda a<1>: 0", s1=V("", ", *p", ", *q", None)),
    "fstring_spec": dict(text="f'{v<1>}'", s1=V("", ":>3", ":<3", None)),
    "case_guard":   dict(text="match v:\n    case 1<1>:\n        pass", s1=V("", " if p", " if q", " if {{x}}")),
    "dict_unpack":  dict(text="{<1>m}", s1=V("**", "p: ", "q: ", None)),
    "kw_unpack":    dict(text="g(<1>m)", s1=V("**", "p=", "q=", None)),
    # the literal None IS a tree: a form of LiteralForms
    "none_literal": dict(text="g(<1>, 1)", s1=V("None", "0", "''", "{{x}}")),
    "none_false":   dict(text="g(k=<1>)", s1=V("None", "False", "...", "{{x}}")),
    "none_return":  dict(text="return <1>", s1=V("None", "p", "0", "{{x}}"), wrap="def d():\n    {}\n"),
}
TWO_SLOT = [f for f, d in FORMS.items() if "s2" in d]
LITERAL_FORMS = ["none_literal", "none_false", "none_return"]


def _fill(text: str, a: str, b: str) -> str:
    return text.replace("<1>", a).replace("<2>", b)


def pattern_and_code(c: dict) -> Optional[Tuple[str, str, str]]:
    d = FORMS[c["form"]]
    p1, n1 = d["s1"][c["p1"]], d["s1"][c["n1"]]
    if "s2" in d:
        p2, n2 = d["s2"][c["p2"]], d["s2"][c["n2"]]
    else:
        p2 = n2 = ""
    if p1 is None or p2 is None:
        return None
    text = d["text"]
    pattern = _fill(text, p1, p2)
    code = _fill(d.get("code", text), n1, n2)
    source = d["wrap"].format(code) if "wrap" in d else code + "\n"
    return pattern, code, source


CONTEXTS: Dict[str, str] = {
    "stmt": "$E", "assign": "y = $E", "callarg": "g($E)", "kwarg": "g(k=$E)", "starred": "g(*$E)", "dstar": "g(**$E)",
    "fstr": 'y = f"{$E}"', "fstr_spec": 'y = f"{v:{$E}}"', "fstr_conv": 'y = f"{$E!r:>{w}}"',
    "fstr_nested": "y = f\"{f'{$E}'}\"", "fstr_concat": 'y = "a" f"b{$E}" "c"', "fstr_eq": 'y = f"{$E=}"',
    "fstr_call": 'g(f"{$E}")', "fstr_second": 'y = f"{v} and {$E:>4}"',
    "lambda": "y = lambda: $E", "default": "def d(a=$E):\n    pass", "kwdefault": "def d(*, a=$E):\n    pass",
    "decorator": "@$E\ndef d():\n    pass", "annotation": "def d(a: $E):\n    pass", "returns": "def d() -> $E:\n    pass",
    "annassign": "y: $E = 1", "listcomp_elt": "y = [$E for i in r]", "comp_iter": "y = [i for i in $E]",
    "comp_if": "y = [i for i in r if $E]", "dictcomp_key": "y = {$E: 1 for i in r}", "genexp": "y = sum($E for i in r)",
    "subscript": "y = v[$E]", "slice": "y = v[$E:]", "attr": "y = $E.real", "await": "async def d():\n    await $E",
    "walrus": "if (y := $E):\n    pass", "ifexp": "y = 1 if $E else 2", "boolop": "y = a and $E", "compare": "y = a < $E < b",
    "classbase": "class K($E):\n    pass", "classkw": "class K(metaclass=$E):\n    pass", "with_item": "with $E as w:\n    pass",
    "for_iter": "for i in $E:\n    pass", "while_test": "while $E:\n    pass", "assert": "assert c, $E", "raise": "raise $E",
    "return": "def d():\n    return $E", "del": "del v[$E]", "except_type": "try:\n    pass\nexcept $E:\n    pass",
    "match_subject": "match $E:\n    case _:\n        pass", "case_guard": "match v:\n    case _ if $E:\n        pass",
    "elif": "if a:\n    pass\nelif $E:\n    pass", "finally": "try:\n    pass\nfinally:\n    $E",
    "nested_def": "def d():\n    def e():\n        $E", "handler_body": "try:\n    pass\nexcept E:\n    $E",
    "augassign": "y += $E", "tuple": "y = (a, $E)", "set": "y = {a, $E}", "dictvalue": "y = {a: $E}", "unary": "y = -$E",
    "binop": "y = a + $E", "yield_from": "def d():\n    yield from $E", "class_body": "class K:\n    x = $E",
}
CTX_QUICK_PAIRS = ["stmt", "callarg", "fstr", "fstr_spec", "fstr_nested", "lambda", "decorator", "comp_if", "handler_body",
                   "case_guard", "class_body", "default"]


def chain(hits: int) -> str:
    s = "bar(1)"
    for _ in range(hits):
        s = "foo(" + s + ")"
    return s


def render_ctx(src: List[dict]) -> Tuple[str, List[str]]:
    parts, expected = [], []
    for h in src:
        parts.append(CONTEXTS[h["ctx"]].replace("$E", chain(h["hits"])))
        for k in range(h["hits"], 0, -1):
            expected.append(chain(k))
    return "\n".join(parts) + "\n", expected


def _chunk(arg):
    records, api = arg
    mods = import_pyrefact()
    core, pm = mods["core"], mods["pattern_matching"]
    stats = {"field_cases": 0, "field_matches": 0, "field_skipped": 0, "ctx_sources": 0, "ctx_occurrences": 0}
    bad = []
    for rec in records:
        if rec["mode"] == "opt":
            c = rec["c"]
            pcs = pattern_and_code(c)
            if pcs is None:
                stats["field_skipped"] += 1
                continue
            pattern, code, source = pcs
            ideal = rec["ideal"]
            stats["field_cases"] += 1
            stats["field_matches"] += ideal
            case = {"form": c["form"], "case": c, "pattern": pattern, "source": source, "ideal": ideal}
            try:
                ast.parse(source)
            except SyntaxError as exc:
                bad.append(dict(case, kind="machinery", error=f"rendered source does not parse: {exc}"))
                continue
            if api == "find":
                try:
                    found = pm.findall(pattern, source)
                except Exception as exc:
                    bad.append(dict(case, kind="fields-findall-raised", error=repr(exc)))
                    continue
                if len(found) != ideal:
                    bad.append(dict(case, kind="fields-verdict", found=found))
                continue
            try:
                out, n = pm.subn(pattern, "REPLACED", source)
            except Exception as exc:
                bad.append(dict(case, kind="fields-subn-raised", error=repr(exc)))
                continue
            if n != ideal or (ideal == 0 and out != source) or (ideal == 1 and "REPLACED" not in out):
                bad.append(dict(case, kind="fields-subn", count=n, result=out))
        else:
            text, expected = render_ctx(rec["src"])
            stats["ctx_sources"] += 1
            stats["ctx_occurrences"] += len(expected)
            case = {"source": text, "pattern": "foo({{x}})", "expected": sorted(expected)}
            if len(expected) != rec["total"]:
                bad.append(dict(case, kind="machinery", error="renderer and Total() disagree"))
                continue
            try:
                ast.parse(text)
            except SyntaxError as exc:
                bad.append(dict(case, kind="machinery", error=f"rendered source does not parse: {exc}"))
                continue
            if api == "subn":
                if any(h["hits"] > 1 for h in rec["src"]):
                    continue
                try:
                    out, n = pm.subn("foo({{x}})", "done({{x}})", text)
                except Exception as exc:
                    bad.append(dict(case, kind="ctx-subn-raised", error=repr(exc)))
                    continue
                if n != len(expected) or out != text.replace("foo(", "done("):
                    bad.append(dict(case, kind="ctx-subn", count=n, found=out))
                continue
            try:
                found = pm.findall("foo({{x}})", text)
                ms = list(pm.finditer("foo({{x}})", text))
            except Exception as exc:
                bad.append(dict(case, kind="ctx-raised", error=repr(exc)))
                continue
            if sorted(found) != sorted(expected) or len(ms) != len(expected):
                bad.append(dict(case, kind="ctx-occurrences", found=sorted(found)))
    return stats, bad


def fields_cfgs(t: str):
    s = lambda xs: "{" + ", ".join(f'"{x}"' for x in xs) + "}"
    runs = [("opt+ctx1", list(CONTEXTS), 1, 3 if t != "quick" else 2),
            ("ctx2", CTX_QUICK_PAIRS if t == "quick" else list(CONTEXTS), 2, 2 if t == "quick" else 1)]
    if t != "quick":
        runs.append(("ctx3", CTX_QUICK_PAIRS, 3, 1))
    out = []
    for label, ctxs, hosts, nest in runs:
        cfg = "\n".join(["CONSTANTS", f"  Forms = {s(FORMS)}", f"  TwoSlot = {s(TWO_SLOT)}", f"  LiteralForms = {s(LITERAL_FORMS)}", f"  Contexts = {s(ctxs)}",
                         f"  MaxHosts = {hosts}", f"  MaxNest = {nest}", "INIT Init", "NEXT Next",
                         "INVARIANT ImplIsIdeal", "INVARIANT Reflexive", "INVARIANT WildNeedsTree", "INVARIANT Dump",
                         "CHECK_DEADLOCK FALSE", ""])
        out.append((label, cfg))
    return out


def run(rep: Report, t: str, stats: dict, procs=16, api="find"):
    seen_opt = False
    for label, cfg in fields_cfgs(t):
        res = run_tlc("Fields", cfg, timeout_s=3000, keep_stdout=False, heap_gb=8)
        rep.add_tlc(res, f"Fields {label}")
        if res.violated:
            rep.violation(f"Fields.tla: {res.violated} fails ({label})", {"label": label, "trace": res.error_trace})
            continue
        recs = [r for r in res.records if r["mode"] == "ctx" or not seen_opt]
        seen_opt = True
        if not recs:
            raise MachineryError(f"Fields {label}: no records")
        n = max(1, min(procs, len(recs) // 40 + 1))
        chunks = [recs[i::n] for i in range(n)]
        with mp.get_context("fork").Pool(n) as pool:
            parts = pool.map(_chunk, [(c, api) for c in chunks])
        for st, bad in parts:
            for k, v in st.items():
                stats[k] = stats.get(k, 0) + v
            for case in bad:
                if case["kind"] == "machinery":
                    raise MachineryError(f"Fields: {case['error']}: {case}")
                rep.violation(f"{case['kind']}: pattern={case['pattern']!r} source={case['source']!r} "
                              f"expected={case.get('ideal', case.get('expected'))} "
                              f"got={case.get('found', case.get('count', case.get('error')))}", case)
    if stats.get("field_cases", 0) < 300 or stats.get("field_matches", 0) < 60:
        raise MachineryError(f"Fields: too few cases replayed: {stats}")
