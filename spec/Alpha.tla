-------------------------------- MODULE Alpha --------------------------------
(***************************************************************************)
(* When are two function definitions interchangeable?  (duplicate function   *)
(* merge: C02, C19, C01)                                                     *)
(*                                                                         *)
(* A function is [params, body]; params is a sequence of distinct names,     *)
(* body an expression over names:                                           *)
(*     [k |-> "var", n]            a name: a parameter if it is in params,    *)
(*                                 otherwise a FREE name (a global of the     *)
(*                                 module or a builtin)                       *)
(*     [k |-> "bin", op, l, r]     l op r,  op in {"+", "-"}                  *)
(*     [k |-> "call", f, a]        f(a),  f a free name                       *)
(* Two functions may be merged only if they are the same function up to the  *)
(* names of their PARAMETERS, position by position: Norm replaces every       *)
(* parameter occurrence by its position and leaves free names alone;          *)
(* AlphaEq == same arity /\ Norm(f) = Norm(g).  A free name is never          *)
(* renamed: len(x) and sum(x) are different functions, and so are             *)
(* `lambda a: b` (b global) and `lambda b: b`.                                *)
(* ShapeEq (same tree when every name is forgotten) marks the pairs on which  *)
(* a merging rule can go wrong; TLC writes out every pair with both verdicts  *)
(* and the harness replays them into abstractions.hash_node,                  *)
(* fixes.remove_duplicate_functions and format_code with execution as oracle. *)
(***************************************************************************)
EXTENDS Integers, Sequences, FiniteSets, TLC, Json

CONSTANTS Names,      \* names usable as variables: parameters or globals of the module
          Callees,    \* free names that are called
          Ops,
          ParamLists  \* the parameter lists considered

Var(n) == [k |-> "var", n |-> n]
Atoms == {Var(n) : n \in Names}
E1 == Atoms \cup {[k |-> "bin", op |-> o, l |-> a, r |-> b] : o \in Ops, a \in Atoms, b \in Atoms}
            \cup {[k |-> "call", f |-> c, a |-> a] : c \in Callees, a \in Atoms}
Bodies == E1 \cup {[k |-> "bin", op |-> o, l |-> a, r |-> b] : o \in Ops, a \in (E1 \ Atoms), b \in Atoms}
Funcs == [params : ParamLists, body : Bodies]

Pos(ps, n) == IF \E i \in 1..Len(ps) : ps[i] = n THEN CHOOSE i \in 1..Len(ps) : ps[i] = n ELSE 0
RECURSIVE Norm(_, _)
Norm(ps, e) ==
    CASE e.k = "var" -> IF Pos(ps, e.n) > 0 THEN [k |-> "param", i |-> Pos(ps, e.n)] ELSE [k |-> "free", n |-> e.n]
      [] e.k = "bin" -> [k |-> "bin", op |-> e.op, l |-> Norm(ps, e.l), r |-> Norm(ps, e.r)]
      [] e.k = "call" -> [k |-> "call", f |-> e.f, a |-> Norm(ps, e.a)]
RECURSIVE Shape(_)
Shape(e) ==
    CASE e.k = "var" -> [k |-> "var"]
      [] e.k = "bin" -> [k |-> "bin", op |-> e.op, l |-> Shape(e.l), r |-> Shape(e.r)]
      [] e.k = "call" -> [k |-> "call", a |-> Shape(e.a)]

AlphaEq(f, g) == Len(f.params) = Len(g.params) /\ Norm(f.params, f.body) = Norm(g.params, g.body)
ShapeEq(f, g) == Len(f.params) = Len(g.params) /\ Shape(f.body) = Shape(g.body)

VARIABLES f, g
Init == f \in Funcs /\ g \in Funcs /\ ShapeEq(f, g)
Next == UNCHANGED <<f, g>>
Spec == Init /\ [][Next]_<<f, g>>

\* alpha equivalence is an equivalence that refines shape equality
Refines == AlphaEq(f, g) => ShapeEq(f, g)
Symmetric == AlphaEq(f, g) = AlphaEq(g, f)
Dump == PrintT(<<"@@J", ToJson([f |-> f, g |-> g, eq |-> AlphaEq(f, g)])>>)
=============================================================================
