---------------------------- MODULE ConstEvalGen ----------------------------
(* Case generator / oracle for ConstEval: every expression of the bounded   *)
(* grammar is one state; TLC computes Python's outcome and the outcome of    *)
(* the implementation-shaped model, checks the design facts below and        *)
(* writes the case out for replay into core.literal_value and for            *)
(* validation of PyEval itself against CPython's eval.                       *)
EXTENDS ConstEval

CONSTANTS
    Pool,        \* operand pool: set of expressions
    Seeds        \* set of skeletons <<kind, ...>>

VARIABLES seed, e
gvars == <<seed, e>>

NoExpr == [k |-> "none"]

Un(op, a) == [k |-> "un", op |-> op, a |-> a]
Bin(op, a, b) == [k |-> "bin", op |-> op, a |-> a, b |-> b]
CmpE(ops, args) == [k |-> "cmp", ops |-> ops, args |-> args]
BoolE(op, args) == [k |-> "bool", op |-> op, args |-> args]
Ife(c, a, b) == [k |-> "ife", c |-> c, a |-> a, b |-> b]
Call(f, args) == [k |-> "call", f |-> f, args |-> args]
Meth(recv, m, args) == [k |-> "meth", recv |-> recv, m |-> m, args |-> args]
Lit(v) == [k |-> "lit", v |-> v]

Instances(s) ==
    CASE s[1] = "lit"   -> Pool
      [] s[1] = "un"    -> {Un(s[2], a) : a \in Pool}
      [] s[1] = "bin"   -> {Bin(s[2], a, b) : a \in Pool, b \in Pool}
      [] s[1] = "cmp1"  -> {CmpE(<<s[2]>>, <<a, b>>) : a \in Pool, b \in Pool}
      [] s[1] = "cmp2"  -> {CmpE(<<s[2], s[3]>>, <<a, b, c>>) : a \in Pool, b \in Pool, c \in Pool}
      [] s[1] = "bool2" -> {BoolE(s[2], <<a, b>>) : a \in Pool, b \in Pool}
      [] s[1] = "bool3" -> {BoolE(s[2], <<a, b, c>>) : a \in Pool, b \in Pool, c \in Pool}
      [] s[1] = "ife"   -> {Ife(c, a, b) : c \in Pool, a \in Pool, b \in Pool}
      [] s[1] = "call0" -> {Call(s[2], <<>>)}
      [] s[1] = "call1" -> {Call(s[2], <<a>>) : a \in Pool}
      [] s[1] = "call2" -> {Call(s[2], <<a, b>>) : a \in Pool, b \in Pool}
      [] s[1] = "meth0" -> {Meth(s[2], s[3], <<>>)}
      [] s[1] = "meth1" -> {Meth(s[2], s[3], <<a>>) : a \in Pool}

Init == seed \in Seeds /\ e = NoExpr
Next == /\ e = NoExpr
        /\ e' \in Instances(seed)
        /\ UNCHANGED seed
Spec == Init /\ [][Next]_gvars

\* design facts (model checked): the implementation-shaped evaluator never yields a WRONG value,
\* never a value for an expression that raises or has an effect, and never crashes or executes
NoWrongValue ==
    e # NoExpr =>
        LET p == PyEval(e)
            m == ImplEval(e)
        IN (m.r = "val" /\ p.r \notin {"oom", "excluded"}) => (p.r = "val" /\ p.v = m.v)

ImplTotal ==
    e # NoExpr => ImplEval(e).r \in {"val", "unknown", "oom", "excluded"}

Dump == e # NoExpr => PrintT(<<"@@J", ToJson([e |-> e, py |-> PyEval(e), impl |-> ImplEval(e)])>>)
=============================================================================
