"""C13 - match objects and the re-like API are geometrically coherent.

Geometry.tla: a source text is a sequence of cells (characters with a character length, a UTF-8 length and two
notions of 'ends a line'); TLC enumerates the layouts (special characters in earlier lines and earlier on the node's
line, three line-end conventions, indentation, node shapes incl. decorated definitions), computes IdealSpan and the
line / column of the span start, and compares the model of core.get_charnos with it (Gap).
  (C) every layout is rendered; IdealSpan must be the complete node text according to CPython
      (ast.get_source_segment / decorator line) and the cell counts must equal the text (exit 2 otherwise);
  (A) every layout is replayed into finditer / findall / search / match / fullmatch and the command line finder.
The second generator of the spec (InitApi) enumerates modules of 1..3 statements x pattern kinds with the ideal
answers of match / fullmatch / number of matches.
"""
from __future__ import annotations

import ast
import contextlib
import io
import json
import multiprocessing as mp
import os
import random
import shutil
import sys
import tempfile
from pathlib import Path
from typing import Dict, List, Optional, Tuple

from common import Report, import_pyrefact, tier, seed
from tlc import MachineryError, run_tlc

PROP = "C13"

CELL = {"u2": "\u00e9", "u3": "\u20ac", "u4": "\U0001F600", "ff": "\x0c", "vt": "\x0b", "fs": "\x1c", "gs": "\x1d", "rs": "\x1e",
        "nel": "\x85", "ls": "\u2028", "ps": "\u2029", "none": ""}
EOL = {"lf": "\n", "crlf": "\r\n", "cr": "\r", "none": ""}


def node_text(kind: str, eol: str, ind: int) -> str:
    e, pad = EOL[eol], " " * ind
    if kind == "call":
        return "f(1)"
    if kind == "ucall":
        return 'f("\u00e9")'
    if kind == "multi":
        return f"f({e}{pad}    1{e}{pad})"
    if kind == "paren":
        return "f(1)"
    head = {"deco": "@d", "decosp": "@ d", "decoparen": "@(d)", "decocall": "@d(1)", "cls": "@d"}.get(kind)
    if kind == "decoasync":
        return f"@d{e}{pad}async def g():{e}{pad}    pass"
    if kind == "deco2":
        return f"@d{e}{pad}@e{e}{pad}def g():{e}{pad}    pass"
    if kind == "cls":
        return f"{head}{e}{pad}class G:{e}{pad}    pass"
    return f"{head}{e}{pad}def g():{e}{pad}    pass"


def render(l: dict) -> Tuple[str, str]:
    """(text, node text) of a Geometry.tla layout."""
    out = []
    for f in l["fill"]:
        out.append(("\x0c" if f["sp"] == "ffline" else f's = "{CELL[f["sp"]]}"') + EOL[f["eol"]])
    if l["indent"]:
        out.append("if c:" + EOL[l["eol"]])
    out.append(" " * l["indent"])
    if l["pre"] != "absent":
        out.append(f't = "{CELL[l["pre"]]}"; ')
    node = node_text(l["node"], l["eol"], l["indent"])
    out.append(("(" + node + ")") if l["node"] == "paren" else node)
    if l["trail"]:
        out.append("; g(2)")
    out.append(EOL[l["feol"]])
    return "".join(out), node


def pattern_for(kind: str):
    if kind in ("call", "ucall", "multi", "paren"):
        return "f({{x}})", "f({{x}})"
    if kind == "cls":
        return ast.ClassDef, None
    if kind == "decoasync":
        return ast.AsyncFunctionDef, None
    return ast.FunctionDef, None


def cpython_segment(text: str, kind: str) -> Optional[str]:
    """The complete text of the node according to CPython."""
    tree = ast.parse(text)
    want = (ast.ClassDef if kind == "cls" else ast.Call if kind in ("call", "ucall", "multi", "paren") else
            ast.AsyncFunctionDef if kind == "decoasync" else ast.FunctionDef)
    nodes = [n for n in ast.walk(tree) if isinstance(n, want) and (not isinstance(n, ast.Call) or getattr(n.func, "id", "") == "f")]
    if len(nodes) != 1:
        return None
    node = nodes[0]
    seg = ast.get_source_segment(text, node)
    if getattr(node, "decorator_list", None):
        # the definition starts at the `@` that begins the line of its first decorator
        first = min(node.decorator_list, key=lambda d: (d.lineno, d.col_offset))
        lines = ast._splitlines_no_ff(text)
        line = lines[first.lineno - 1]
        at = line.index("@")
        start = sum(len(x) for x in lines[: first.lineno - 1]) + at
        end_lines = lines[: node.end_lineno - 1]
        end = sum(len(x) for x in end_lines) + len(lines[node.end_lineno - 1].encode()[: node.end_col_offset].decode())
        seg = text[start:end]
    return seg


def py_line_col(text: str, offset: int) -> Tuple[int, int]:
    before = text[:offset].replace("\r\n", "\n").replace("\r", "\n")
    return before.count("\n") + 1, len(before) - (before.rfind("\n") + 1)


def cli_lines(pm, pattern: str, text: str, tmpdir: str) -> List[str]:
    path = Path(tmpdir, "case.py")
    path.write_bytes(text.encode("utf-8"))
    buf = io.StringIO()
    with contextlib.redirect_stdout(buf):
        pm.main(["find", pattern, str(path)])
    return buf.getvalue().split("\n")


def _layout_chunk(args):
    recs, with_cli = args
    mods = import_pyrefact()
    pm = mods["pattern_matching"]
    tmpdir = tempfile.mkdtemp(prefix="verif-c13-")
    st = {"layouts": 0, "gap_layouts": 0, "cli": 0}
    machinery, bad = [], []
    try:
        for rec in recs:
            l = rec["layout"]
            text, node = render(l)
            st["layouts"] += 1
            # ---- (C) the spec against CPython and against the rendered text
            if len(text) != rec["chars"] or len(text.encode("utf-8")) != rec["bytes"]:
                machinery.append({"why": "cell counts differ from the rendered text", "layout": l, "text": text})
                continue
            try:
                seg = cpython_segment(text, l["node"])
            except SyntaxError as exc:
                machinery.append({"why": f"rendered layout is not valid Python: {exc}", "layout": l, "text": text})
                continue
            ideal = text[rec["start"]:rec["end"]]
            if seg is None or seg != ideal or ideal != node:
                machinery.append({"why": "IdealSpan is not the node text CPython reports", "layout": l, "text": text, "ideal": ideal, "cpython": seg})
                continue
            if py_line_col(text, rec["start"]) != (rec["line"], rec["col"]):
                machinery.append({"why": "IdealLine/IdealCol differ from the Python line rule", "layout": l, "text": text})
                continue
            if rec["gap"]:
                st["gap_layouts"] += 1
            # ---- (A) the implementation
            pattern, cli_pattern = pattern_for(l["node"])
            try:
                ms = list(pm.finditer(pattern, text))
                fa = pm.findall(pattern, text)
                se = pm.search(pattern, text)
                [(m.string, m.lineno, m.col_offset, m.start, m.end) for m in ms]      # the accessors must not raise either
            except Exception as exc:  # noqa: BLE001
                bad.append({"kind": "raised", "what": f"finditer/findall/search or a Match accessor raised {type(exc).__name__}: {exc}", "layout": l,
                            "source": text, "gap": rec["gap"]})
                continue
            problems = []
            if len(ms) != 1:
                problems.append(f"finditer reports {len(ms)} matches of a pattern that occurs once: {[tuple(m.span) for m in ms]}")
            for m in ms[:1]:
                s, e = m.span
                if not (0 <= s <= e <= len(text)):
                    problems.append(f"span {(s, e)} outside the source of length {len(text)}")
                if m.string != text[s:e]:
                    problems.append("m.string is not the source slice of its span")
                if (s, e) != (rec["start"], rec["end"]):
                    problems.append(f"span {(s, e)} = {text[s:e]!r} is not the complete node text {ideal!r} at {(rec['start'], rec['end'])}")
                want_lc = py_line_col(text, s)
                if (m.lineno, m.col_offset) != want_lc:
                    problems.append(f"lineno/col_offset {(m.lineno, m.col_offset)} are not those of the span start {want_lc}")
            if fa != [m.string for m in ms]:
                problems.append("findall differs from the texts of finditer")
            if (se is None) != (not ms) or (ms and (tuple(se.span), se.source) != (tuple(ms[0].span), ms[0].source)):
                problems.append("search is not the first finditer result")
            if with_cli and cli_pattern and ms:
                st["cli"] += 1
                try:
                    lines = cli_lines(pm, cli_pattern, text, tmpdir)
                except BaseException as exc:  # noqa: BLE001
                    if isinstance(exc, KeyboardInterrupt):
                        raise
                    lines = [f"raised {type(exc).__name__}: {exc}"]
                want = [f"{Path(tmpdir, 'case.py')}:{m.lineno}:{m.col_offset}: {(m.string.splitlines() or [''])[0]}" for m in ms]
                got = [x for x in lines if x]
                # the file is read back through universal newlines: compare locations, which are what the statement is about
                loc = lambda x: x.split(": ")[0]
                if [loc(x) for x in got] != [loc(x) for x in want]:
                    problems.append(f"command line finder prints {got}, finditer gives {want}")
            if problems:
                bad.append({"kind": "span", "what": "; ".join(problems[:3]), "layout": l, "source": text, "gap": rec["gap"],
                            "impl_model": [rec["implstart"], rec["implend"]], "got": [tuple(m.span) for m in ms]})
    finally:
        shutil.rmtree(tmpdir, ignore_errors=True)
    return st, machinery, bad


# ---------------------------------------------------------------------------------------------
STMT = {"binf": "f(5) + 2", "callf": "f(1)", "callg": "g(2)", "assignf": "x = f(3)", "def": "def h():\n    f(4)", "deco": "@d\ndef k():\n    pass"}
PAT = {"callf": "f({{x}})", "assign": "{{a}} = {{b}}", "funcdef": ast.FunctionDef, "seq": "f({{x}})\ng({{y}})", "absent": "q({{x}})"}


def _api_chunk(recs):
    mods = import_pyrefact()
    pm = mods["pattern_matching"]
    st = {"api_cases": 0, "api_with_matches": 0}
    machinery, bad = [], []
    for rec in recs:
        c = rec["case"]
        stmts = [STMT[k] for k in c["stmts"]]
        lead = {"none": "", "blank": "\n", "comment": "# c\n"}[c["lead"]]
        text = lead + "\n".join(stmts) + EOL[c["feol"]]
        pattern = PAT[c["pat"]]
        st["api_cases"] += 1
        # statement offsets
        offs, pos = [], len(lead)
        for s in stmts:
            offs.append((pos, pos + len(s)))
            pos += len(s) + 1
        body = (offs[0][0], offs[-1][1])
        try:
            ms = list(pm.finditer(pattern, text))
            fa = pm.findall(pattern, text)
            se = pm.search(pattern, text)
            ma = pm.match(pattern, text)
            fu = pm.fullmatch(pattern, text)
            [(m.string, m.lineno, m.col_offset, m.start, m.end) for m in ms]
        except Exception as exc:  # noqa: BLE001
            bad.append({"what": f"the API raised {type(exc).__name__}: {exc}", "case": c, "source": text})
            continue
        problems = []
        spans = sorted(tuple(m.span) for m in ms)
        # ideal spans from the model: whole statements, or the call inside the statement
        ideal = []
        for m in rec["matches"]:
            a, b = offs[m["from"] - 1][0], offs[m["to"] - 1][1]
            if not m["whole"]:
                inner = text.index("f(", a)
                a, b = inner, text.index(")", inner) + 1
            ideal.append((a, b))
        if sorted(ideal) != spans:
            problems.append(f"finditer spans {spans}, the matches of the pattern are at {sorted(ideal)}")
        if ms:
            st["api_with_matches"] += 1
        if fa != [m.string for m in ms]:
            problems.append("findall differs from the texts of finditer, in order")
        if (se is None) != (not ms) or (ms and tuple(se.span) != tuple(ms[0].span)):
            problems.append("search is not the first finditer result")
        if (ma is not None) != rec["match"]:
            problems.append(f"match() {'succeeds' if ma is not None else 'fails'} although {'no' if not rec['match'] else 'a'} match starts at the first statement")
        elif ma is not None and (ma.span.start != body[0] or tuple(ma.span) not in spans):
            problems.append(f"match() returns span {tuple(ma.span)}, which is not a match starting at the first statement")
        if (fu is not None) != rec["full"]:
            problems.append(f"fullmatch() {'succeeds' if fu is not None else 'fails'} although {'no' if not rec['full'] else 'a'} match spans the whole module body")
        elif fu is not None and tuple(fu.span) != body:
            problems.append(f"fullmatch() returns span {tuple(fu.span)}, the module body is {body}")
        for m in ms:
            if (m.lineno, m.col_offset) != py_line_col(text, m.span.start):
                problems.append("lineno/col_offset are not those of the span start")
                break
        if problems:
            bad.append({"what": "; ".join(problems[:3]), "case": c, "source": text})
    return st, machinery, bad


def main(argv=None) -> int:
    rep = Report(PROP, "model_checking")
    import_pyrefact()
    t = tier()
    rng = random.Random(seed())
    stats: Dict[str, int] = {}
    known = rep.known_entries()
    api_consts = ['  StmtKinds = {"callf", "callg", "assignf", "def", "deco", "binf"}', '  PatKinds = {"callf", "assign", "funcdef", "seq", "absent"}',
                  f"  MaxStmts = {3 if t == 'quick' else 4}"]
    if t == "quick":
        geo = ['  Specials = {"none", "u2", "u4", "ff", "ls", "nel"}', '  Eols = {"lf", "crlf", "cr"}', '  FinalEols = {"lf", "crlf", "cr", "none"}',
               '  NodeKinds = {"call", "ucall", "multi", "paren", "deco", "decosp", "decoparen", "decocall", "deco2", "cls", "decoasync"}',
               "  MaxFillers = 1", "  Indents = {0, 4}"]
    else:
        geo = ['  Specials = {"none", "u2", "u3", "u4", "ff", "vt", "fs", "nel", "ls", "ps"}', '  Eols = {"lf", "crlf", "cr"}',
               '  FinalEols = {"lf", "crlf", "cr", "none"}',
               '  NodeKinds = {"call", "ucall", "multi", "paren", "deco", "decosp", "decoparen", "decocall", "deco2", "cls", "decoasync"}',
               "  MaxFillers = 2", "  Indents = {0, 4}"]
    cfg = "\n".join(["CONSTANTS", *geo, *api_consts, "INIT Init", "NEXT Next", "INVARIANT Dump", "INVARIANT AlgorithmRight", "CHECK_DEADLOCK FALSE", ""])
    res = run_tlc("Geometry", cfg, timeout_s=3000, keep_stdout=False, heap_gb=12)
    rep.add_tlc(res, "Geometry layouts")
    if res.violated:
        rep.violation(f"Geometry.tla: {res.violated} fails: the offset algorithm transcribed from core.get_charnos disagrees with the definition "
                      "of a span on an ordinary layout", {"trace": res.error_trace})
    recs = res.records
    if not recs:
        raise MachineryError("Geometry: no layouts")
    rep.coverage["old_algorithm_gap_layouts"] = sum(1 for r in recs if r["oldgap"])
    if t == "quick" and len(recs) > 14000:
        recs = rng.sample(recs, 14000)
        rep.coverage["layouts_sampled"] = True
    n = 16
    with mp.get_context("fork").Pool(n) as pool:
        parts = pool.map(_layout_chunk, [(recs[i::n], True) for i in range(n)])
    for st, machinery, bad in parts:
        for k, v in st.items():
            stats[k] = stats.get(k, 0) + v
        if machinery:
            raise MachineryError(f"Geometry.tla disagrees with CPython / its renderer: {json.dumps(machinery[:2], default=str)[:1500]}")
        for case in bad:
            kf = None
            if case.get("gap") and case.get("got") and len(case["got"]) == 1 and list(case["got"][0]) == case["impl_model"]:
                # the model of the algorithm predicts exactly this deviation
                kf = next((e["id"] for e in known if e.get("class", {}).get("kind") == "model-gap"
                           and case["layout"]["node"] in e["class"].get("node_kinds", [])), None)
            if kf:
                rep.known(kf, {"layout": case["layout"], "source": case["source"]})
            else:
                rep.violation(f"layout {json.dumps(case['layout'], sort_keys=True)}: {case['what']}", case)
    rep.sample({"layout": recs[0]["layout"], "source": render(recs[0]["layout"])[0], "ideal_span": [recs[0]["start"], recs[0]["end"]]})

    cfg = "\n".join(["CONSTANTS", *geo[:0], '  Specials = {"none"}', '  Eols = {"lf"}', '  FinalEols = {"lf"}', '  NodeKinds = {"call"}', "  MaxFillers = 0",
                     "  Indents = {0}", *api_consts, "INIT InitApi", "NEXT Next", "INVARIANT DumpApi", "INVARIANT ApiCoherent", "CHECK_DEADLOCK FALSE", ""])
    res = run_tlc("Geometry", cfg, timeout_s=1800, keep_stdout=False)
    rep.add_tlc(res, "Geometry API cases")
    if res.violated:
        raise MachineryError(f"Geometry.tla: {res.violated} fails on the API generator")
    arecs = res.records
    with mp.get_context("fork").Pool(n) as pool:
        parts = pool.map(_api_chunk, [arecs[i::n] for i in range(n)])
    for st, machinery, bad in parts:
        for k, v in st.items():
            stats[k] = stats.get(k, 0) + v
        for case in bad:
            rep.violation(f"module {case['source']!r} with pattern kind {case['case']['pat']}: {case['what']}", case)
    rep.coverage["evaluations"] = stats.get("layouts", 0) + stats.get("api_cases", 0)
    rep.coverage["distinct_nontrivial"] = stats.get("layouts", 0) + stats.get("api_with_matches", 0)
    rep.coverage["traces_validated_against_impl"] = stats.get("layouts", 0) + stats.get("api_cases", 0)
    rep.coverage["detail"] = stats
    rep.coverage["rule"] = ("every Geometry.tla layout (special cells x line ends x indentation x node shapes) replayed into finditer / findall / search "
                            "and the command line finder, span / text / line / column compared with the spec's IdealSpan (validated against "
                            "ast.get_source_segment); every API case (modules of 1..3 statements x 5 pattern kinds) replayed into finditer / findall / "
                            "search / match / fullmatch and compared with the ideal answers")
    rep.assumptions += ["CPython's ast positions and ast.get_source_segment are the ground truth for 'complete node text' (exit 2 on disagreement with the spec)"]
    return rep.finish()


if __name__ == "__main__":
    sys.exit(main())
