-------------------------------- MODULE Pool --------------------------------
(***************************************************************************)
(* format_files: module passes over a directory tree, each pass dispatched  *)
(* to a pool of worker processes (C06; also the pass bookkeeping of C09 and  *)
(* the write guard of C03).                                                 *)
(*                                                                         *)
(* One action per step of the implementation that another process can       *)
(* observe through the file system:                                         *)
(*   SelectPass   main.format_files: which folders still change / have      *)
(*                passes left -> sorted task list of this pass               *)
(*   Take(w)      an idle pool worker takes the next task (chunksize 1)      *)
(*   Read(w)      format_file: open(filename, "r").read()                    *)
(*   Deps(w)      format_code -> tracing.trace_origin: the sources of other  *)
(*                modules are opened and read from disk (star imports,       *)
(*                re-exported names), found through the working directory    *)
(*   Truncate(w)  open(filename, "w") - the file is empty from here ...      *)
(*   Write(w)     ... until the stream is closed                             *)
(*   Finish(w)    the result (changed?) is handed back to the parent         *)
(*   Account      per-folder bookkeeping after pool.starmap returned         *)
(*                                                                         *)
(* File contents are abstract: [n |-> own formatting steps applied,          *)
(* seen |-> what the formatter ever saw of other files, v |-> valid Python]. *)
(* Fmt is injective in everything the real formatter can depend on, so the   *)
(* model is at least as schedule-sensitive as any real format_code.          *)
(*                                                                         *)
(* ParEqSeq: the final tree and the change report equal those of the         *)
(* sequential run (one task after the other in sorted order).  TLC proves it *)
(* for every interleaving when no task reads a file that the same pass       *)
(* rewrites (DepsOf empty) and produces the racing schedules otherwise;      *)
(* terminal states are written out with one witness schedule each (the       *)
(* schedule is hidden from TLC's VIEW, the assignment of tasks to workers,   *)
(* the completion order and everything read are not), and every witness is   *)
(* replayed into the real format_files through a controllable pool.          *)
(***************************************************************************)
EXTENDS Integers, Sequences, FiniteSets, TLC, SequencesExt, Json

CONSTANTS
    NFiles,      \* files are 1..NFiles, numbered in sorted path order
    FolderOf,    \* <<folder of file 1, ...>>  (folders are numbers)
    DepsOf,      \* <<set of files whose text the formatting of file i reads, ...>>
    Fix,         \* <<own formatting steps until file i is a fixed point, ...>>
    Breaks,      \* files whose formatting yields invalid text (the write guard must refuse it)
    NWorkers,
    MaxPasses,
    EmitTerminal \* BOOLEAN: write terminal states out for the replay

Files == 1..NFiles
Workers == 1..NWorkers
Folders == {FolderOf[f] : f \in Files}
Trunc == [n |-> -1, seen |-> {}, v |-> TRUE]        \* a file between open(.., "w") and close
Initial(f) == [n |-> 0, seen |-> {}, v |-> TRUE]

ViewOf(c) == c.n                                      \* what a reader can tell apart (-1: empty file)
Fmt(f, own, obs) ==
    [n |-> IF own.n < Fix[f] THEN own.n + 1 ELSE own.n,
     seen |-> own.seen \cup {<<g, obs[g]>> : g \in DepsOf[f]},
     v |-> IF f \in Breaks /\ own.n < Fix[f] THEN FALSE ELSE own.v]
\* the write guard of format_file
Writes(own, out) == out # own /\ (out.v \/ ~own.v)

Sorted(S) == SetToSortSeq(S, LAMBDA a, b : a < b)

VARIABLES
    passNo, phase,   \* phase: "select" | "run" | "done"
    book,            \* folder -> [changes, left]
    todo, queue,     \* tasks of this pass (sorted sequence), not yet taken
    wk,              \* worker -> [st, f, own, obs, out]
    results,         \* file -> "none" | TRUE | FALSE   (this pass)
    disk,
    hist,            \* per finished pass: [assign, order, seen] - observable part of the schedule
    assign, order,   \* this pass: <<file, worker>> in take order; files in completion order
    sched            \* witness schedule: <<kind, worker>>; NOT in the VIEW

vars == <<passNo, phase, book, todo, queue, wk, results, disk, hist, assign, order, sched>>
view == <<passNo, phase, book, todo, queue, wk, results, disk, hist, assign, order>>

Idle == [st |-> "idle", f |-> 0, own |-> Trunc, obs |-> <<>>, out |-> Trunc]

Init ==
    /\ passNo = 0 /\ phase = "select"
    /\ book = [d \in Folders |-> [changes |-> TRUE, left |-> MaxPasses]]
    /\ todo = <<>> /\ queue = <<>>
    /\ wk = [w \in Workers |-> Idle]
    /\ results = [f \in Files |-> "none"]
    /\ disk = [f \in Files |-> Initial(f)]
    /\ hist = <<>> /\ assign = <<>> /\ order = <<>> /\ sched = <<>>

Selected(bk) == {f \in Files : bk[FolderOf[f]].changes /\ bk[FolderOf[f]].left > 0}

SelectPass ==
    /\ phase = "select"
    /\ IF passNo >= MaxPasses \/ Selected(book) = {}
         THEN /\ phase' = "done"
              /\ UNCHANGED <<passNo, todo, queue, results, sched>>
         ELSE /\ phase' = "run" /\ passNo' = passNo + 1
              /\ todo' = Sorted(Selected(book)) /\ queue' = Sorted(Selected(book))
              /\ results' = [f \in Files |-> "none"]
              /\ sched' = Append(sched, <<"pass", 0>>)
    /\ assign' = <<>> /\ order' = <<>>
    /\ UNCHANGED <<book, wk, disk, hist>>

Take(w) ==
    /\ phase = "run" /\ wk[w].st = "idle" /\ queue # <<>>
    /\ wk' = [wk EXCEPT ![w] = [Idle EXCEPT !.st = "taken", !.f = Head(queue)]]
    /\ queue' = Tail(queue)
    /\ assign' = Append(assign, <<Head(queue), w>>)
    /\ sched' = Append(sched, <<"take", w>>)
    /\ UNCHANGED <<passNo, phase, book, todo, results, disk, hist, order>>

\* reading the own file; a task without dependencies computes its output right away
Read(w) ==
    /\ wk[w].st = "taken"
    /\ LET f == wk[w].f
           own == disk[f]
       IN wk' = [wk EXCEPT ![w] = IF DepsOf[f] = {}
                                    THEN [@ EXCEPT !.st = "formatted", !.own = own, !.out = Fmt(f, own, <<>>)]
                                    ELSE [@ EXCEPT !.st = "read", !.own = own]]
    /\ sched' = Append(sched, <<"read", w>>)
    /\ UNCHANGED <<passNo, phase, book, todo, queue, results, disk, hist, assign, order>>

\* the formatter opens the other modules it needs; what it sees is whatever is on disk now
Deps(w) ==
    /\ wk[w].st = "read"
    /\ LET f == wk[w].f
           obs == [g \in DepsOf[f] |-> ViewOf(disk[g])]
       IN wk' = [wk EXCEPT ![w] = [@ EXCEPT !.st = "formatted", !.obs = obs, !.out = Fmt(f, wk[w].own, obs)]]
    /\ sched' = Append(sched, <<"deps", w>>)
    /\ UNCHANGED <<passNo, phase, book, todo, queue, results, disk, hist, assign, order>>

Truncate(w) ==
    /\ wk[w].st = "formatted" /\ Writes(wk[w].own, wk[w].out)
    /\ disk' = [disk EXCEPT ![wk[w].f] = Trunc]
    /\ wk' = [wk EXCEPT ![w].st = "truncated"]
    /\ sched' = Append(sched, <<"trunc", w>>)
    /\ UNCHANGED <<passNo, phase, book, todo, queue, results, hist, assign, order>>

Write(w) ==
    /\ wk[w].st = "truncated"
    /\ disk' = [disk EXCEPT ![wk[w].f] = wk[w].out]
    /\ wk' = [wk EXCEPT ![w].st = "written"]
    /\ sched' = Append(sched, <<"write", w>>)
    /\ UNCHANGED <<passNo, phase, book, todo, queue, results, hist, assign, order>>

Finish(w) ==
    /\ \/ wk[w].st = "written"
       \/ wk[w].st = "formatted" /\ ~Writes(wk[w].own, wk[w].out)
    /\ results' = [results EXCEPT ![wk[w].f] = (wk[w].st = "written")]
    /\ order' = Append(order, wk[w].f)
    /\ wk' = [wk EXCEPT ![w] = Idle]
    /\ sched' = Append(sched, <<"finish", w>>)
    /\ UNCHANGED <<passNo, phase, book, todo, queue, disk, hist, assign>>

\* pool.starmap has returned: results are matched to the task list by position
AccountBook(bk, td, res) ==
    [d \in Folders |->
        [changes |-> \E i \in 1..Len(td) : FolderOf[td[i]] = d /\ res[td[i]] = TRUE,
         left |-> bk[d].left - 1]]

Account ==
    /\ phase = "run" /\ queue = <<>> /\ \A w \in Workers : wk[w].st = "idle"
    /\ book' = AccountBook(book, todo, results)
    /\ phase' = "select"
    /\ hist' = Append(hist, [assign |-> assign, order |-> order])
    /\ sched' = Append(sched, <<"account", 0>>)
    /\ UNCHANGED <<passNo, todo, queue, wk, results, disk, assign, order>>

Done == phase = "done" /\ UNCHANGED vars

Next == SelectPass \/ Account \/ Done
        \/ \E w \in Workers : Take(w) \/ Read(w) \/ Deps(w) \/ Truncate(w) \/ Write(w) \/ Finish(w)
Spec == Init /\ [][Next]_vars

-----------------------------------------------------------------------------
(* the sequential reference: one task after the other, in sorted order      *)
RECURSIVE SeqTasks(_, _, _)
SeqTasks(d, res, fs) ==
    IF fs = <<>> THEN [disk |-> d, res |-> res]
    ELSE LET f == Head(fs)
             own == d[f]
             obs == [g \in DepsOf[f] |-> ViewOf(d[g])]
             out == Fmt(f, own, obs)
             w == Writes(own, out)
         IN SeqTasks(IF w THEN [d EXCEPT ![f] = out] ELSE d, [res EXCEPT ![f] = w], Tail(fs))

RECURSIVE SeqPasses(_, _, _)
SeqPasses(d, bk, p) ==
    IF p >= MaxPasses \/ Selected(bk) = {} THEN [disk |-> d, report |-> \E x \in Folders : bk[x].changes]
    ELSE LET td == Sorted(Selected(bk))
             r == SeqTasks(d, [f \in Files |-> "none"], td)
         IN SeqPasses(r.disk, AccountBook(bk, td, r.res), p + 1)

SeqResult == SeqPasses([f \in Files |-> Initial(f)], [d \in Folders |-> [changes |-> TRUE, left |-> MaxPasses]], 0)
Report == \E d \in Folders : book[d].changes

ParEqSeqNow == disk = SeqResult.disk /\ Report = SeqResult.report
ParEqSeq == phase = "done" => ParEqSeqNow

-----------------------------------------------------------------------------
(* further invariants                                                      *)
TypeOK ==
    /\ passNo \in 0..MaxPasses /\ phase \in {"select", "run", "done"}
    /\ \A d \in Folders : book[d].left \in 0..MaxPasses
    /\ \A w \in Workers : wk[w].st \in {"idle", "taken", "read", "formatted", "truncated", "written"}

\* a file is formatted by at most one worker at a time, and only a worker holding it writes it
OneWriter == \A a, b \in Workers : (a # b /\ wk[a].st # "idle" /\ wk[b].st # "idle") => wk[a].f # wk[b].f
TruncatedOnlyWhileWriting ==
    \A f \in Files : disk[f] = Trunc => \E w \in Workers : wk[w].f = f /\ wk[w].st = "truncated"
\* the write guard: text that was valid never becomes invalid on disk
NeverBreakValid == \A f \in Files : disk[f].v
\* a folder is formatted again only while it still changes and has passes left; passes are bounded
PassBudget == \A i \in 1..Len(hist) : i <= MaxPasses
\* at the end every folder has converged or used up its passes
Settled == phase = "done" => \A d \in Folders : ~book[d].changes \/ book[d].left = 0 \/ passNo = MaxPasses
\* without same-pass dependencies the final text of a file is its fixed point if the budget allowed it
ReachedFix == (phase = "done" /\ \A f \in Files : DepsOf[f] = {})
                 => \A f \in Files : disk[f].n = (IF Fix[f] < MaxPasses THEN Fix[f] ELSE MaxPasses) \/ f \in Breaks

Terminal ==
    (EmitTerminal /\ phase = "done") =>
        PrintT(<<"@@J", ToJson([sched |-> sched, hist |-> hist, eq |-> ParEqSeqNow, report |-> Report,
                                disk |-> [f \in Files |-> [n |-> disk[f].n, seen |-> SetToSeq(disk[f].seen)]],
                                seqdisk |-> [f \in Files |-> [n |-> SeqResult.disk[f].n, seen |-> SetToSeq(SeqResult.disk[f].seen)]],
                                seqreport |-> SeqResult.report])>>)

=============================================================================
