#!/usr/bin/env python3
"""Verify seeded changes produced by independent sub-agents and keep the confirmed ones under /verif/seeded/.

usage: collect_seeds.py /tmp/seed_C10 [...]
For each <dir>/seed_i: in a fresh scratch worktree of /repo HEAD: patch applies, pinned tests pass with it,
demo.py exits 1 with it and 0 without it.  Confirmed seeds are copied to /verif/seeded/<PROP>-<i>/.
"""
import json
import os
import shutil
import subprocess
import sys
import tempfile
from pathlib import Path

VERIF = Path(__file__).resolve().parent.parent


def sh(cmd, **kw):
    return subprocess.run(cmd, shell=True, capture_output=True, text=True, **kw)


def main():
    for d in sys.argv[1:]:
        d = Path(d)
        prop = d.name.split("_")[-1]
        for seed in sorted(d.glob("seed_*")):
            # later rounds continue the numbering of what is already stored for the property
            taken = {int(x.name.split("-")[-1]) for x in (VERIF / "seeded").glob(f"{prop}-*") if x.name.split("-")[-1].isdigit()}
            number = int(seed.name.split("_")[-1])
            if d.name.startswith(("seed2_", "seed3_", "seed4_")):
                number = max(taken | {0}) + 1
            name = f"{prop}-{number}"
            dest = VERIF / "seeded" / name
            wt = tempfile.mkdtemp(prefix="verif-seedchk-")
            os.rmdir(wt)
            try:
                if sh(f"git -C /repo worktree add --detach {wt} HEAD").returncode != 0:
                    print(f"{name}: cannot create worktree"); continue
                env = f"PYTHONPATH={wt} PYTHONHASHSEED=0"
                base = sh(f"cd {wt} && {env} timeout 600 /venv/bin/python {seed}/demo.py")
                ap = sh(f"git -C {wt} apply {seed}/patch.diff")
                if ap.returncode != 0:
                    print(f"{name}: patch does not apply to current HEAD: {ap.stderr.strip()[:200]}"); continue
                tests = sh(f"cd {wt} && {env} /venv/bin/python -m pytest -q -p no:cacheprovider --timeout=900 2>&1 | tail -1")
                mut = sh(f"cd {wt} && {env} timeout 600 /venv/bin/python {seed}/demo.py")
                ok = base.returncode == 0 and mut.returncode == 1 and " passed" in tests.stdout and "failed" not in tests.stdout
                print(f"{name}: demo unchanged rc={base.returncode}, demo changed rc={mut.returncode}, tests: {tests.stdout.strip()} -> {'CONFIRMED' if ok else 'REJECTED'}")
                if not ok:
                    print("   base:", (base.stdout + base.stderr)[-300:].replace("\n", " | "))
                    continue
                dest.mkdir(parents=True, exist_ok=True)
                shutil.copy(seed / "patch.diff", dest / "patch.diff")
                shutil.copy(seed / "demo.py", dest / "demo.py")
                meta = json.loads((seed / "meta.json").read_text())
                meta["property"] = prop
                meta["confirmed"] = {"base_commit": sh("git -C /repo rev-parse --short HEAD").stdout.strip(),
                                     "ran": ["git apply patch.diff in a scratch worktree of /repo HEAD",
                                             "pinned pytest suite with the change: " + tests.stdout.strip(),
                                             "demo.py with the change: exit 1", "demo.py without the change: exit 0"]}
                (dest / "meta.json").write_text(json.dumps(meta, indent=1) + "\n")
            finally:
                sh(f"git -C /repo worktree remove --force {wt}")
                shutil.rmtree(wt, ignore_errors=True)
                sh("git -C /repo worktree prune")


if __name__ == "__main__":
    main()
