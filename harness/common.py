"""Shared plumbing of the checks: tiers, seeds, evidence, replay files, known findings."""
from __future__ import annotations

import hashlib
import json
import os
import subprocess
import sys
import time
from pathlib import Path
from typing import Any, Dict, List, Optional

VERIF = Path(__file__).resolve().parent.parent
REPO = Path(os.environ.get("VERIF_REPO", "/repo"))
EVIDENCE_DIR = Path(os.environ.get("VERIF_EVIDENCE_DIR") or VERIF / "evidence")
REPLAY_DIR = Path(os.environ.get("VERIF_REPLAY_DIR") or VERIF / "replays")
KNOWN_FINDINGS = VERIF / "known_findings.json"

EXIT_OK, EXIT_VIOLATION, EXIT_MACHINERY = 0, 1, 2


def tier() -> str:
    t = os.environ.get("VERIF_TIER", "quick")
    return t if t in ("quick", "thorough") else "quick"


def seed() -> int:
    try:
        return int(os.environ.get("VERIF_SEED", "0"))
    except ValueError:
        return 0


def digest(obj: Any) -> str:
    if not isinstance(obj, (str, bytes)):
        obj = json.dumps(obj, sort_keys=True, default=str)
    if isinstance(obj, str):
        obj = obj.encode("utf-8", "surrogatepass")
    return hashlib.sha1(obj).hexdigest()[:16]


class Report:
    """Collects what a check run covered and found; writes evidence and prints verdict lines."""

    def __init__(self, prop: str, level: str):
        self.prop = prop
        self.level = level
        self.t0 = time.time()
        self.tier = tier()
        self.seed = seed()
        self.coverage: Dict[str, Any] = {
            "evaluations": 0, "distinct_nontrivial": 0, "rule": "", "samples": [],
            "states": 0, "transitions": 0, "traces_validated_against_impl": 0,
        }
        self.assumptions: List[str] = []
        self.violations: List[dict] = []
        self.known_hits: Dict[str, dict] = {}
        self.notes: List[str] = []
        self._known = load_known_findings(prop)

    # -- TLC accounting -----------------------------------------------------------
    def add_tlc(self, res, label: str) -> None:
        self.coverage["states"] += int(res.distinct)
        self.coverage["transitions"] += int(res.generated)
        runs = self.coverage.setdefault("tlc_runs", [])
        runs.append({"label": label, "distinct": res.distinct, "generated": res.generated,
                     "depth": res.depth, "wall_s": round(res.wall_s, 2), "cmd": res.cmd,
                     "coverage": dict(sorted(res.coverage.items())) if res.coverage else {}})

    def sample(self, case: Any, limit: int = 5) -> None:
        if len(self.coverage["samples"]) < limit:
            self.coverage["samples"].append(case)

    # -- findings -----------------------------------------------------------------
    def known_entries(self) -> List[dict]:
        return self._known

    def known(self, entry_id: str, witness: Any) -> None:
        hit = self.known_hits.setdefault(entry_id, {"count": 0, "witness": witness})
        hit["count"] += 1
        if os.environ.get("VERIF_DUMP_KNOWN"):          # debugging aid: every case classed as known, one JSON line each
            with open(os.environ["VERIF_DUMP_KNOWN"], "a") as fh:
                fh.write(json.dumps({"id": entry_id, "witness": witness}, default=str) + "\n")

    def violation(self, what: str, case: Any) -> str:
        """Record a violation; returns the replay path."""
        REPLAY_DIR.mkdir(exist_ok=True)
        d = REPLAY_DIR / self.prop
        d.mkdir(exist_ok=True)
        path = d / f"{digest(case)}.json"
        if len(self.violations) < int(os.environ.get("VERIF_MAX_REPLAYS", "200")):
            try:
                path.write_text(json.dumps({"property": self.prop, "what": what, "case": case,
                                            "tier": self.tier, "seed": self.seed}, indent=1, default=str))
            except OSError:
                pass
        self.violations.append({"what": what, "replay": str(path)})
        return str(path)

    # -- finish ---------------------------------------------------------------------
    def finish(self) -> int:
        wall = time.time() - self.t0
        cov = self.coverage
        cov["known_findings_hit"] = {k: v["count"] for k, v in self.known_hits.items()}
        if self.notes:
            cov["notes"] = self.notes
        ev = {
            "property_id": self.prop,
            "tier": self.tier,
            "seed": self.seed,
            "level": self.level,
            "coverage": cov,
            "assumptions": self.assumptions,
            "wall_s": round(wall, 2),
            "violations": len(self.violations),
        }
        EVIDENCE_DIR.mkdir(exist_ok=True)
        path = EVIDENCE_DIR / f"{self.prop}.json"
        path.write_text(json.dumps(ev, indent=1, default=str) + "\n")
        validate_evidence(path)
        for eid, hit in sorted(self.known_hits.items()):
            entry = next((e for e in self._known if e["id"] == eid), {})
            w = json.dumps(hit["witness"], default=str)
            if len(w) > 300:
                w = w[:300] + "..."
            print(f"KNOWN-FINDING: property={self.prop} {eid} {entry.get('what', '')} "
                  f"({hit['count']} cases, e.g. {w})")
        seen = set()
        for v in self.violations:
            if v["replay"] in seen:
                continue
            seen.add(v["replay"])
            if len(seen) <= 25:
                print(f"VIOLATION property={self.prop} replay={v['replay']}  # {v['what'][:300]}")
        if len(seen) > 25:
            print(f"... {len(seen) - 25} further violations not printed (see evidence)")
        status = "FAIL" if self.violations else "ok"
        print(f"[{self.prop}] {status}: tier={self.tier} seed={self.seed} evaluations={cov.get('evaluations')} "
              f"nontrivial={cov.get('distinct_nontrivial')} states={cov.get('states')} "
              f"traces={cov.get('traces_validated_against_impl')} wall={wall:.1f}s")
        return EXIT_VIOLATION if self.violations else EXIT_OK


def load_known_findings(prop: Optional[str] = None) -> List[dict]:
    if not KNOWN_FINDINGS.exists():
        return []
    data = json.loads(KNOWN_FINDINGS.read_text())
    out = [e for e in data.get("findings", []) if e.get("status", "open") == "open"]
    if prop:
        out = [e for e in out if e.get("property") == prop or prop in e.get("also", [])]
    return out


def validate_evidence(path: Path) -> None:
    """Validate against the schema with jsonschema from the tooling venv (best effort, never fatal to a verdict)."""
    schema = "/root/.vp/EVIDENCE.schema.json"
    if not os.path.exists(schema):
        schema = str(VERIF / "harness" / "EVIDENCE.schema.json")
    if not os.path.exists(schema):
        return
    code = (
        "import json,sys,jsonschema;"
        "jsonschema.validate(json.load(open(sys.argv[1])), json.load(open(sys.argv[2])))"
    )
    for py in ("python3-vt", "/opt/veriftools/pyvenv/bin/python"):
        try:
            p = subprocess.run([py, "-c", code, str(path), schema], capture_output=True, text=True, timeout=60)
        except (OSError, subprocess.TimeoutExpired):
            continue
        if p.returncode != 0:
            raise RuntimeError(f"evidence file {path} does not validate:\n{p.stderr[-2000:]}")
        return


def import_pyrefact():
    """Import pyrefact from the working tree of /repo (never an installed copy)."""
    repo = str(REPO)
    if sys.path[0] != repo:
        sys.path.insert(0, repo)
    import importlib
    mods = {}
    for name in ("core", "processing", "fixes", "pattern_matching", "main", "parsing", "tracing",
                 "symbolic_math", "abstractions", "object_oriented", "performance",
                 "performance_numpy", "performance_pandas", "constants", "formatting", "style"):
        mods[name] = importlib.import_module("pyrefact." + name)
    core_file = mods["core"].__file__
    if not os.path.realpath(core_file).startswith(os.path.realpath(repo)):
        raise RuntimeError(f"pyrefact imported from {core_file}, expected {repo}")
    import logging
    try:
        mods["main"].logger.set_level(100)
    except Exception:
        logging.disable(logging.CRITICAL)
    return mods
