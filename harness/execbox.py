"""Isolated execution of small Python programs: the observation `obs` of a program text.

obs(text) = (status, stdout) with status in {"ok", "exc:<Type>", "exit:<code>", "timeout", "killed", "syntax"}.
A few persistent server processes (fresh interpreters, isolated mode, empty cwd, PYTHONHASHSEED=0) fork
one child per program; the child has CPU / address-space limits and an alarm.  Results are memoised per text.
"""
from __future__ import annotations

import atexit
import json
import os
import select
import shutil
import struct
import subprocess
import sys
import tempfile
import threading
from concurrent.futures import ThreadPoolExecutor
from typing import Dict, List, Optional, Sequence, Tuple

SERVER = r'''
import sys, os, json, signal, resource, struct, io, select, time

def run(req):
    t = int(req.get("timeout", 5))
    r_out, w_out = os.pipe()
    r_st, w_st = os.pipe()
    pid = os.fork()
    if pid == 0:
        code = 0
        try:
            os.close(r_out); os.close(r_st)
            os.dup2(w_out, 1)
            dn = os.open(os.devnull, os.O_RDWR)
            os.dup2(dn, 0); os.dup2(dn, 2)
            resource.setrlimit(resource.RLIMIT_CPU, (t, t + 1))
            try:
                resource.setrlimit(resource.RLIMIT_AS, (2 << 30, 2 << 30))
            except Exception:
                pass
            resource.setrlimit(resource.RLIMIT_FSIZE, (1 << 20, 1 << 20))
            signal.alarm(t + 1)
            sys.stdout = io.TextIOWrapper(io.FileIO(1, "wb", closefd=False), encoding="utf-8", errors="replace", write_through=False)
            sys.stdin = io.TextIOWrapper(io.FileIO(0, "rb", closefd=False))
            sys.argv = ["prog"]
            for p in req.get("path", []):
                sys.path.insert(0, p)
            status = "ok"
            try:
                co = compile(req["src"], "<prog>", "exec")
            except (SyntaxError, ValueError):
                status = "syntax"
                co = None
            if co is not None:
                g = {"__name__": "__main__", "__builtins__": __builtins__}
                try:
                    exec(co, g)
                except SystemExit as e:
                    status = "exit:%r" % (e.code,)
                except BaseException as e:
                    status = "exc:" + type(e).__name__
            try:
                sys.stdout.flush()
            except Exception:
                pass
            os.write(w_st, status.encode())
        except BaseException:
            code = 3
        finally:
            os._exit(code)
    os.close(w_out); os.close(w_st)
    out = bytearray(); st = bytearray()
    fds = {r_out: out, r_st: st}
    deadline = time.time() + t + 3
    killed = False
    while fds:
        left = deadline - time.time()
        if left <= 0:
            try: os.kill(pid, signal.SIGKILL)
            except OSError: pass
            killed = True
            break
        ready, _, _ = select.select(list(fds), [], [], left)
        for fd in ready:
            chunk = os.read(fd, 65536)
            if not chunk:
                del fds[fd]
            else:
                buf = fds[fd]
                if len(buf) < (1 << 20):
                    buf.extend(chunk)
    for fd in (r_out, r_st):
        try: os.close(fd)
        except OSError: pass
    _, wst = os.waitpid(pid, 0)
    status = st.decode() if st else None
    if killed:
        status = "timeout"
    elif status is None:
        sig = wst & 0x7f
        status = "timeout" if sig in (signal.SIGALRM, signal.SIGXCPU) else "killed:%d" % sig
    return {"status": status, "stdout": out.decode("utf-8", "replace")}

def main():
    inp = sys.stdin.buffer; outp = sys.stdout.buffer
    # the protocol channel must not be the child's stdout: move it away from fd 1
    proto = os.dup(1)
    outp = os.fdopen(proto, "wb")
    dn = os.open(os.devnull, os.O_WRONLY)
    os.dup2(dn, 1)
    while True:
        hdr = inp.read(4)
        if len(hdr) < 4:
            break
        n = struct.unpack(">I", hdr)[0]
        req = json.loads(inp.read(n))
        res = run(req)
        data = json.dumps(res).encode()
        outp.write(struct.pack(">I", len(data)) + data)
        outp.flush()

main()
'''


class _Server:
    def __init__(self, python: str, cwd: str):
        env = {"PYTHONHASHSEED": "0", "PATH": "/usr/bin:/bin", "LC_ALL": "C.UTF-8", "HOME": cwd}
        self.proc = subprocess.Popen([python, "-I", "-c", SERVER], stdin=subprocess.PIPE, stdout=subprocess.PIPE,
                                     stderr=subprocess.DEVNULL, cwd=cwd, env=env)
        self.lock = threading.Lock()

    def request(self, req: dict) -> dict:
        data = json.dumps(req).encode()
        with self.lock:
            self.proc.stdin.write(struct.pack(">I", len(data)) + data)
            self.proc.stdin.flush()
            hdr = self.proc.stdout.read(4)
            if len(hdr) < 4:
                raise RuntimeError("execution server died")
            n = struct.unpack(">I", hdr)[0]
            return json.loads(self.proc.stdout.read(n))

    def close(self):
        try:
            self.proc.stdin.close()
            self.proc.wait(timeout=5)
        except Exception:
            self.proc.kill()


class Runner:
    def __init__(self, python: str = "/venv/bin/python", n: int = 16, timeout: int = 5, path: Sequence[str] = ()):
        self.cwd = tempfile.mkdtemp(prefix="verif-exec-")
        self.servers = [_Server(python, self.cwd) for _ in range(n)]
        self.pool = ThreadPoolExecutor(n)
        self.timeout = timeout
        self.path = list(path)
        self.cache: Dict[str, Tuple[str, str]] = {}
        self._rr = 0
        atexit.register(self.close)

    def _one(self, idx: int, text: str) -> Tuple[str, str]:
        srv = self.servers[idx % len(self.servers)]
        res = srv.request({"src": text, "timeout": self.timeout, "path": self.path})
        return (res["status"], res["stdout"])

    def observe_many(self, texts: Sequence[str]) -> List[Tuple[str, str]]:
        todo = [t for t in dict.fromkeys(texts) if t not in self.cache]
        futs = [(t, self.pool.submit(self._one, i, t)) for i, t in enumerate(todo)]
        for t, f in futs:
            self.cache[t] = f.result()
        return [self.cache[t] for t in texts]

    def observe(self, text: str) -> Tuple[str, str]:
        return self.observe_many([text])[0]

    def close(self):
        for s in self.servers:
            s.close()
        self.servers = []
        try:
            self.pool.shutdown(wait=False)
        except Exception:
            pass
        shutil.rmtree(self.cwd, ignore_errors=True)


_default: Optional[Runner] = None


def default_runner() -> Runner:
    global _default
    if _default is None or not _default.servers:
        _default = Runner()
    return _default
