------------------------------ MODULE Effects ------------------------------
(***************************************************************************)
(* Pointless statements (C16, second half).  A statement may be deleted as   *)
(* pointless only if executing it binds nothing, calls nothing user-defined  *)
(* or unknown - not even from inside a comprehension, conditional            *)
(* expression or f-string - and cannot alter control flow.                   *)
(*                                                                         *)
(* A case is  [form, ctx, callee]:                                          *)
(*   form    "expr"    an expression statement                              *)
(*           "assign"  x = <e>          "throwaway"  _ = <e>                 *)
(*           "attrset" obj.a = <e>      "itemset"    d[0] = <e>              *)
(*           "augassign" x += <e>       "annassign"  x: int = <e>            *)
(*           "del"     del x            "assert" / "raise" / "return" /      *)
(*           "yield"   control flow and generator statements                *)
(*           "for_body" for _ in xs: <e>      "for_else"  for .. : pass else: <e> *)
(*           "for_iter" for _ in <e>: pass    "for_bind"  for k in xs: <e>    *)
(*           "if_test"  if <e>: pass          "if_body" / "if_else"           *)
(*   ctx     where the interesting sub-expression <c> sits inside <e>:       *)
(*           "top", "binop", "boolop", "compare", "call_arg", "comp_elt",    *)
(*           "comp_cond", "comp_iter", "dictcomp_key", "dictcomp_val",       *)
(*           "ifexp_test", "ifexp_branch", "fstring", "lambda_body",         *)
(*           "subscript", "attribute", "tuple", "dict_value", "starred",     *)
(*           "walrus", "slice_lower", "slice_step", "index", "call_kwarg",    *)
(*           "call_star", "format_spec", "unary", "not", "chained_compare",   *)
(*           "set_elt", "dict_key", "genexp_elt", "comp_iter2",               *)
(*           "lambda_default", "subscript_value", "nested_ifexp"              *)
(*   callee  what <c> is: "const" (a literal), "name" (a variable read),     *)
(*           "builtin" (len(xs)), "const_method" ("a".upper()),              *)
(*           "user_pure" / "user_impure" / "user_raises" (a call of a        *)
(*           function defined in the module), "unknown" (a call of an        *)
(*           undefined name), "method" (xs.append(1)), "walrus" ((w := 1)),  *)
(*           "user_cond_raise" (if bad: raise .. else: return v),            *)
(*           "user_branch_effect" (if c: print(..); return 1 else: return 2), *)
(*           "user_calls_impure" (return impure(v)), "user_global_write",     *)
(*           "ctor_plain" / "ctor_impure" (a class of the module is           *)
(*           instantiated), "shadowed_builtin" (the module defines its own    *)
(*           sorted()), "map_impure" (list(map(impure, xs))),                 *)
(*           "sorted_key_impure" (sorted(xs, key=impure)), "next_user_gen"    *)
(*           (next(g) for a generator of the module), "user_lambda"           *)
(***************************************************************************)
EXTENDS Integers, FiniteSets, TLC, Json

CONSTANTS Forms, Ctxs, Callees

VARIABLE c
vars == <<c>>

\* <c> is evaluated when the statement runs, except under a lambda
Evaluated(ctx) == ctx # "lambda_body"

\* the sub-expression calls something user-defined or unknown, directly or through a builtin that calls back
CallsForbidden(callee) == callee \in {"user_pure", "user_impure", "user_raises", "unknown", "method",
                                      "user_cond_raise", "user_branch_effect", "user_calls_impure", "user_global_write",
                                      "ctor_plain", "ctor_impure", "shadowed_builtin", "map_impure", "sorted_key_impure",
                                      "next_user_gen", "user_lambda",
                                      \* a generator of the module CONSUMED by a builtin: its body runs (creating it alone runs nothing)
                                      "gen_consumed_list", "gen_consumed_any", "gen_consumed_sum", "gen_delegating_consumed"}
Binds(form, ctx, callee) == form \in {"assign", "attrset", "itemset", "augassign", "annassign", "del", "for_bind"}
                            \/ (callee = "walrus" /\ Evaluated(ctx))
Control(form) == form \in {"assert", "raise", "return", "yield"}

\* the statement: deleting is allowed only then
IdealPointless(form, ctx, callee) ==
    /\ ~Binds(form, ctx, callee)
    /\ ~Control(form)
    /\ ~(CallsForbidden(callee) /\ Evaluated(ctx))

\* which combinations make sense
Admissible(form, ctx, callee) ==
    /\ (form \in {"del", "raise", "return", "yield", "assert"} => ctx = "top")
    /\ (form = "del" => callee = "name")
    /\ (callee = "walrus" => ctx \in {"top", "call_arg", "comp_cond", "ifexp_test", "tuple"})
    /\ (ctx = "starred" => callee \in {"name", "builtin", "user_pure", "user_impure", "unknown"})
    /\ (ctx = "call_star" => callee \in {"name", "builtin", "user_pure", "user_impure", "unknown", "map_impure"})
    /\ (form \in {"for_body", "for_else", "for_iter", "for_bind", "if_test", "if_body", "if_else"}
            => ctx \in {"top", "call_arg", "comp_elt", "ifexp_branch", "fstring"} /\ callee # "walrus")
    /\ (form = "for_iter" => callee \notin {"const"})

Init == c \in {[form |-> f, ctx |-> x, callee |-> k, pointless |-> IdealPointless(f, x, k)] :
                  f \in Forms, x \in Ctxs, k \in Callees}
        /\ Admissible(c.form, c.ctx, c.callee)
Next == UNCHANGED c
Spec == Init /\ [][Next]_vars
Dump == PrintT(<<"@@J", ToJson(c)>>)
=============================================================================
