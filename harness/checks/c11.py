"""C11 - layout stages never change program structure or string contents.

Layout.tla enumerates literal kinds x content features x placements x line lengths; each rendered module is
 (a) formatted by format_code under the recorder: TLC validates clause KeepAst of PipelineTrace.tla on every
     layout stage event (tab expansion, rmspace, blank-line limiting, line wrapping, whitespace minimisation);
 (b) passed through every layout stage in isolation (tree digest and list of string constants must not change).
Rule-free corpus files (runs in which only layout stages changed the text) are validated the same way.
"""
from __future__ import annotations

import random
import re
import sys
import textwrap

import pipecheck
import proj
import ptrace
from common import Report, import_pyrefact, tier, seed
from tlc import MachineryError, run_tlc

PROP = "C11"

FEATURE_TEXT = {
    "tab": "col1\tcol2",
    "trailing": "ends with blanks   ",
    "blanks3": "above\n\n\n\n\nbelow",
    "blanks2": "upper\n\n\nlower",
    "blank1": "Dear customer,\n\nthank you",
    "long": "long " + "x" * 110 + " end",
    "backslash": "continued \\\nline",
    "hash": "has # hash and 'quotes' inside",
    "crlf_escape": "escapes \\r\\n \\t kept",
    "indent8": "        eight spaces then text",
    "linesep": "sepa\u2028rated by U+2028 and \x0c form feed",
}


MULTI_PREFIX = re.compile("[rbf]?(" + chr(34) * 3 + "|" + chr(39) * 3 + ")")


def render(case: dict) -> str:
    kind = case["kind"]
    content_lines = ["first line"] + [FEATURE_TEXT[f] for f in sorted(case["feats"])] + ["last line"]
    if list(case["feats"]) == ["blank1"]:
        content_lines = [FEATURE_TEXT["blank1"]]      # a literal whose only inner line is blank (first / blank / last)
    multi = "\n".join(content_lines)
    single = " | ".join(l.replace("\n", " ").replace("\\", "/") for l in content_lines)
    if kind == "triple":
        lit = '"""' + multi + '"""'
    elif kind == "triple_single":
        lit = "'''" + multi.replace("'", '"') + "'''"
    elif kind == "raw_triple":
        lit = 'r"""' + multi + '"""'
    elif kind == "bytes_triple":
        lit = 'b"""' + multi + '"""'
    elif kind == "fstring_triple":
        lit = 'f"""' + multi.replace("first line", "first {1 + 1} line") + '"""'
    elif kind == "single":
        lit = repr(single)
    elif kind == "concat":
        lit = "(" + "\n    ".join(repr(l.replace("\n", " ").replace("\\", "/") + " ") for l in content_lines) + "\n)"
    elif kind == "docstring":
        lit = '"""' + multi + '\n"""'
    elif kind == "comment":
        lit = None
    else:
        raise MachineryError(f"unknown literal kind {kind}")
    place = case["place"]
    if kind == "comment":
        body = "\n".join("# " + l.replace("\n", " ") for l in content_lines) + "\nvalue = 1\nprint(value)"
        lit_stmt = body
    elif kind == "docstring":
        lit_stmt = None
    else:
        lit_stmt = f"value = {lit}\nprint(repr(value))"
    if kind == "docstring":
        if place == "module":
            return lit + "\n\nprint(__doc__ is not None)\n"
        return "def documented():\n" + textwrap.indent(lit, "    ") + "\n    return 1\n\n\nprint(documented())\n"
    if place == "module":
        return lit_stmt + "\n"
    if place == "in_def":
        return "def holder():\n" + textwrap.indent(lit_stmt, "    ").replace("\n    " + "\n", "\n\n") + "\n    return value\n\n\nprint(len(holder()))\n" \
            if kind != "comment" else "def holder():\n" + textwrap.indent(lit_stmt, "    ") + "\n    return value\n\n\nprint(holder())\n"
    if place == "after_decorator":
        return "import functools\n\n\n@functools.lru_cache(maxsize=None)\ndef cached():\n    return 1\n\n\n" + lit_stmt + "\nprint(cached())\n"
    if place == "between_imports":
        return "import os\n" + lit_stmt + "\nimport sys\nprint(os.sep, sys.maxsize > 0)\n"
    if place == "call_arg":
        if kind == "comment":
            return lit_stmt + "\n"
        return f"print(len({lit}), 'tail')\n"
    if place == "list_elem_blank":
        if kind == "comment":
            return lit_stmt + "\n"
        return "items = [\n    'first',\n\n    " + lit + " ,\n    'last',\n    'really last',\n]\nprint(items)\n"
    if place == "kwarg_blank":
        if kind == "comment":
            return lit_stmt + "\n"
        return ("def register(**kw):\n    print(sorted(kw.items()))\n\n\nregister(\n    name=\"report\",\n\n    template = " + lit +
                " ,\n    fallback=None,\n)\n")
    if place == "tuple_elem_blank":
        if kind == "comment":
            return lit_stmt + "\n"
        return "MESSAGES = [\n    \"short\",\n\n    (\"greeting\" , " + lit + "),\n    \"tail\",\n]\nprint(MESSAGES)\n"
    if place == "nested_last_stmt":
        # a statement nested in an already well-formatted def, last of its block but not alone, whose literal continues at column 0
        if kind == "comment" or not MULTI_PREFIX.match(lit):
            return lit_stmt + "\n"
        return ("def holder(flag):\n    if flag:\n        print(\"first\")\n        print(" + lit + ")\n    return 1\n\n\nprint(holder(True))\n")
    if place == "last_in_def":
        # the same, but nothing indented follows: a statement that loses its indentation silently leaves the function
        if kind == "comment" or not MULTI_PREFIX.match(lit):
            return lit_stmt + "\n"
        return "def holder():\n    print(\"first\")\n    print(" + lit + ")\n\n\nholder()\n"
    if place == "after_import_in_def":
        if kind == "comment" or not MULTI_PREFIX.match(lit):
            return lit_stmt + "\n"
        return "def holder():\n    import os\n    print(" + lit + ")\n    return os.sep\n\n\nprint(holder())\n"
    if place == "fsegment":
        # the value of a plain literal also occurs as the text segment of f-strings, at least as often, and reads as an expression
        if kind != "single":
            return lit_stmt + "\n"
        return ("level = 'error'\ncount = '42'\nflag = 'True'\nprint(level, count, flag, " + lit + ")\nprint(f\"error{1} 42\")\nprint(f'error{2}')\n"
                "print(f\"42{3}\")\nprint(f'True{4}')\nprint(f\"42{5}True\")\n")
    if place == "dict_value":
        if kind == "comment":
            return lit_stmt + "\n"
        return "table = {\n    'key': " + lit + ",\n    'other': 2,\n}\nprint(sorted(table))\n"
    raise MachineryError(f"unknown place {place}")


SKELETON_IMPORT = {"A1": "json", "A2": "csv", "B1": "sys", "B2": "math", "C1": "os", "D1": "re", "D2": "glob"}


def render_skeleton(case: dict) -> str:
    """Skeleton.tla: statements (a call or a lazy import, used at once) with blank lines in front of them, at three depths."""
    slots = case["slots"]

    def stmts(names, indent):
        out = []
        for s in names:
            c = slots[s]
            if c["kind"] == "none":
                continue
            out += [""] * c["gap"]
            pad = " " * indent
            if c["kind"] == "import":
                out += [f"{pad}import {SKELETON_IMPORT[s]}", f"{pad}print({SKELETON_IMPORT[s]}.__name__)"]
            else:
                out.append(f"{pad}print('{s}')")
        return out
    lines = ["def outer():"] + stmts(["A1", "A2"], 4) + ["    def inner():"] + stmts(["B1", "B2"], 8) + stmts(["C1"], 4)
    lines += ["    return inner", "", ""] + stmts(["D1", "D2"], 0) + ["outer()()"]
    return "\n".join(lines) + "\n"


def skeleton_cases(rep: Report, t: str):
    gaps, maxdev, lens = ("{0, 1, 3, 4}", 2, "{100}") if t == "quick" else ("{0, 1, 2, 3, 4, 6}", 3, "{60, 100}")
    cfg = "\n".join(["CONSTANTS", '  Slots = {"A1", "A2", "B1", "B2", "C1", "D1", "D2"}', f"  Gaps = {gaps}", f"  MaxDev = {maxdev}",
                     f"  LineLengths = {lens}", "INIT Init", "NEXT Next", "INVARIANT Dump", "CHECK_DEADLOCK FALSE", ""])
    res = run_tlc("Skeleton", cfg, timeout_s=900, keep_stdout=False)
    rep.add_tlc(res, "Skeleton")
    if not res.records:
        raise MachineryError("Skeleton: no cases")
    return res.records


def layout_cases(rep: Report, t: str):
    kinds = '{"triple", "triple_single", "raw_triple", "bytes_triple", "fstring_triple", "docstring", "single", "concat", "comment"}'
    feats = '{"tab", "trailing", "blanks3", "blanks2", "blank1", "long", "backslash", "hash", "crlf_escape", "indent8", "linesep"}'
    places = '{"module", "in_def", "after_decorator", "between_imports", "call_arg", "dict_value", "list_elem_blank", "kwarg_blank", "tuple_elem_blank", "nested_last_stmt", "last_in_def", "after_import_in_def", "fsegment"}'
    lens, maxf = ("{60, 100}", 2) if t == "quick" else ("{60, 79, 100}", 3)
    cfg = "\n".join(["CONSTANTS", f"  Kinds = {kinds}", f"  Features = {feats}", f"  Places = {places}",
                     f"  LineLengths = {lens}", f"  MaxFeatures = {maxf}", "INIT Init", "NEXT Next", "INVARIANT Dump",
                     "CHECK_DEADLOCK FALSE", ""])
    res = run_tlc("Layout", cfg, workers=4, timeout_s=900, keep_stdout=False)
    rep.add_tlc(res, "Layout")
    if not res.records:
        raise MachineryError("Layout: no cases")
    return res.records


def isolated_stages(mods, text: str, maxlen: int):
    main, fixes, processing = mods["main"], mods["fixes"], mods["processing"]
    out = [("str.expandtabs", text.expandtabs(4))]
    for name, fn in (("rmspace.format_str", main.rmspace.format_str),
                     ("fixes.fix_too_many_blank_lines", fixes.fix_too_many_blank_lines),
                     ("fixes.fix_line_lengths", lambda s: fixes.fix_line_lengths(s, max_line_length=maxlen)),
                     ("fixes.fix_import_spacing", fixes.fix_import_spacing),
                     ("fixes.sort_imports", fixes.sort_imports)):
        try:
            out.append((name, fn(text)))
        except Exception as exc:  # crashes are C04's business
            out.append((name, None))
    return out


def main(argv=None) -> int:
    rep = Report(PROP, "model_checking")
    mods = import_pyrefact()
    t = tier()
    rng = random.Random(seed())
    cases = layout_cases(rep, t)
    items, meta = [], {}
    for i, c in enumerate(cases):
        text = render(c)
        if not proj.valid(text):
            raise MachineryError(f"Layout renderer produced invalid Python for {c}:\n{text}")
        key = f"layout:{i}"
        meta[key] = c
        items.append((key, text, {"max_line_length": c["len"]}))
    skeletons = skeleton_cases(rep, t)
    if t == "quick" and len(skeletons) > 700:
        skeletons = rng.sample(skeletons, 700)
    for i, c in enumerate(skeletons):
        text = render_skeleton(c)
        if not proj.valid(text):
            raise MachineryError(f"Skeleton renderer produced invalid Python for {c}:\n{text}")
        key = f"skeleton:{i}"
        meta[key] = {"len": c["len"], "exact": True, "skeleton": c["slots"]}
        items.append((key, text, {"max_line_length": c["len"]}))
    corpus_items = pipecheck.standard_inputs(rep, t, rng, shapes_on=True, snippets="300" if t == "quick" else "all",
                                             stdlib=20 if t == "quick" else 200)
    items += corpus_items
    runs = pipecheck.run_and_validate(rep, items, label="C11 runs", timeout=60 if t == "quick" else 180)
    known = rep.known_entries()
    nontrivial = 0
    n_iso = 0

    def report(key, source, stage, before, after, how):
        sa, sb = proj.string_constants(before), proj.string_constants(after)
        what = "string literal value changed" if sa != sb else "syntax tree changed"
        import blame
        sh = blame.shape(before, after)
        case = {"input_id": key, "case": meta.get(key), "source": source, "stage": stage, "how": how,
                "stage_input": before, "stage_output": after, "shape": sh}
        for e in known:
            if blame.matches_signature(e, stage, sh, before):
                rep.known(e["id"], {"input_id": key, "stage": stage, "case": meta.get(key)})
                return
        rep.violation(f"layout stage {stage} ({how}): {what}: {sh['old_src'][:70]!r} -> {sh['new_src'][:70]!r}; input {key}", case)

    for r in runs:
        if r.result is None:
            continue
        layout_events = [e for e in r.trace["ev"] if e["layout"] and e["k"] in ("sub", "rule")]
        if layout_events:
            nontrivial += 1
        if "KeepAst" in r.verdict["bad"]:
            st = pipecheck.stage_texts(r, r.verdict["bad"]["KeepAst"])
            if st:
                report(r.key, r.source, st[0], st[1], st[2], "inside format_code")
            else:
                rep.violation(f"KeepAst broken at event {r.verdict['bad']['KeepAst']}; input {r.key}",
                              {"input_id": r.key, "source": r.source})
        # string values (independent second oracle) on layout-only runs
        if r.key in meta or all(e["layout"] for e in r.trace["ev"] if e["k"] in ("sub", "rule", "single") and e["a"] != e["b"]):
            pass
        # isolated stages on the Layout.tla cases
        if r.key in meta:
            for stage, out in isolated_stages(mods, r.source, meta[r.key]["len"]):
                n_iso += 1
                if out is None or out == r.source:
                    continue
                if proj.ast_digest(out) != proj.ast_digest(r.source) or \
                        (meta[r.key]["exact"] and proj.string_constants(out) != proj.string_constants(r.source)):
                    report(r.key, r.source, stage, r.source, out, "in isolation")
    rep.coverage["evaluations"] = len(runs) + n_iso
    rep.coverage["distinct_nontrivial"] = nontrivial
    rep.coverage["traces_validated_against_impl"] = len(runs)
    rep.coverage["rule"] = ("Layout.tla cases (9 literal kinds x subsets of 8 content features x 6 placements x line lengths) plus Shapes "
                            "cases, repository snippets and stdlib modules; KeepAst is checked by TLC on every layout stage event of every "
                            "recorded run, and each layout stage is applied in isolation to every Layout.tla case; non-trivial = a layout "
                            "stage changed the text in the run")
    if cases:
        rep.sample({"layout_case": cases[len(cases) // 3], "module": render(cases[len(cases) // 3])[:500]})
    rep.assumptions += ["tree equality ignores positions and whitespace inside docstrings (inspect.cleandoc + rstrip per line)",
                        "layout stages: str.expandtabs, rmspace.format_str, fix_too_many_blank_lines, fix_line_lengths, "
                        "fix_import_spacing, minimize_whitespace_line_differences, dedent/indent"]
    return rep.finish()


if __name__ == "__main__":
    sys.exit(main())
