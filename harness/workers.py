"""A small process pool whose tasks can be killed individually when they exceed a time limit."""
from __future__ import annotations

import multiprocessing as mp
import os
import time
import traceback
from multiprocessing.connection import wait
from typing import Any, Callable, Iterable, List, Sequence, Tuple

TIMEOUT = "__timeout__"
CRASH = "__worker_crashed__"


def _worker(conn, func, init):
    try:
        state = init() if init else None
    except BaseException:  # noqa: BLE001
        conn.send(("__init_failed__", traceback.format_exc()))
        return
    while True:
        try:
            msg = conn.recv()
        except EOFError:
            return
        if msg is None:
            return
        idx, item = msg
        try:
            res = func(state, item)
        except BaseException as exc:  # noqa: BLE001 - the task function is expected to catch what it wants
            if isinstance(exc, KeyboardInterrupt):
                return
            res = ("__task_raised__", f"{type(exc).__name__}: {exc}")
        try:
            conn.send((idx, res))
        except Exception:  # result not picklable
            conn.send((idx, ("__task_raised__", "unpicklable result")))


def run_tasks(func: Callable[[Any, Any], Any], items: Sequence[Any], *, init: Callable[[], Any] = None,
              procs: int = 16, timeout: float = 60.0) -> List[Any]:
    """func(state, item) for every item in fresh forked workers; a task over `timeout` seconds yields TIMEOUT."""
    ctx = mp.get_context("fork")
    n = max(1, min(procs, len(items)))
    results: List[Any] = [None] * len(items)
    pending = list(range(len(items)))[::-1]
    workers = {}

    def spawn():
        parent, child = ctx.Pipe()
        p = ctx.Process(target=_worker, args=(child, func, init), daemon=True)
        p.start()
        child.close()
        workers[parent] = {"proc": p, "task": None, "start": 0.0}
        return parent

    def feed(conn):
        if pending:
            idx = pending.pop()
            workers[conn]["task"] = idx
            workers[conn]["start"] = time.time()
            conn.send((idx, items[idx]))
        else:
            workers[conn]["task"] = None
            try:
                conn.send(None)
            except Exception:
                pass

    for _ in range(n):
        feed(spawn())
    done = 0
    while done < len(items):
        busy = [c for c, w in workers.items() if w["task"] is not None]
        if not busy:
            break
        ready = wait(busy, timeout=1.0)
        now = time.time()
        for conn in ready:
            w = workers[conn]
            try:
                idx, res = conn.recv()
            except (EOFError, OSError):
                idx = w["task"]
                results[idx] = CRASH
                done += 1
                w["proc"].kill()
                del workers[conn]
                feed(spawn())
                continue
            if idx == "__init_failed__":
                raise RuntimeError(f"worker initialisation failed:\n{res}")
            results[idx] = res
            done += 1
            feed(conn)
        for conn in list(busy):
            w = workers.get(conn)
            if w is None or w["task"] is None or conn in ready:
                continue
            if now - w["start"] > timeout:
                results[w["task"]] = TIMEOUT
                done += 1
                w["proc"].kill()
                w["proc"].join(1)
                del workers[conn]
                feed(spawn())
    for conn, w in workers.items():
        try:
            conn.send(None)
        except Exception:
            pass
        w["proc"].join(0.2)
        if w["proc"].is_alive():
            w["proc"].kill()
    return results
