"""C16 - code is treated as unreachable or pointless only when it really is.

Reach.tla: small-step semantics of structured statements with unknown conditions; TLC explores every execution
of every generated shape and reports which observable statements are reachable.  Every shape is rendered,
  (C) executed under CPython for every tape of unknown outcomes (the set of executed marks must equal the
      reachable set of the specification - spec validation, exit 2 on disagreement),
  (A/B) rewritten by the reachability-consuming rules and by format_code: a mark that disappears must be
      unreachable, and the mark trace must be the same for every tape.
Effects.tla: statement forms x contexts x callee kinds with the ideal 'pointless' predicate; replayed into
delete_pointless_statements / format_code.
"""
from __future__ import annotations

import itertools
import json
import os
import multiprocessing as mp
import random
import re
import sys
import textwrap
from typing import Dict, List, Optional, Tuple

import blame
from common import Report, import_pyrefact, tier, seed
from tlc import MachineryError, run_tlc

PROP = "C16"
RULES = ["fixes.delete_unreachable_code", "fixes.remove_dead_ifs", "fixes.remove_redundant_else", "fixes.swap_if_else",
         "fixes.breakout_common_code_in_ifs", "fixes.early_return", "fixes.early_continue", "fixes.delete_pointless_statements",
         "abstractions.simplify_if_control_flow", "fixes.fix_if_return"]


def pstr(path) -> str:
    return ".".join(map(str, path))


ITER_SRC = {"empty": "()", "one": "(1,)", "many": "(1, 2)", "U": "it()", "lazyempty": "zip((), (1, 2))", "lazyone": "iter((1,))"}


def render_block(block, path, indent) -> List[str]:
    out = []
    pad = " " * indent
    for i, s in enumerate(block, start=1):
        me = path + [i]
        k = s["k"]
        if k == "mark":
            out.append(f"{pad}mark('{pstr(me)}')")
        elif k in ("return", "raise", "break", "continue"):
            out.append(pad + {"return": "return 'r'", "raise": "raise Boom()", "break": "break", "continue": "continue"}[k])
        elif k == "assert":
            out.append(pad + "assert " + {"T": "True", "F": "False", "U": "u()"}[s["t"]])
        elif k == "with":
            out.append(f"{pad}with ctx():")
            out += render_block(s["body"], me + [1], indent + 4)
        elif k == "try":
            out.append(f"{pad}try:")
            out += render_block(s["body"], me + [1], indent + 4)
            if s["handler"]:
                out.append(f"{pad}except Exception:")
                out += render_block(s["handler"], me + [3], indent + 4)
            if s.get("orelse"):
                out.append(f"{pad}else:")
                out += render_block(s["orelse"], me + [2], indent + 4)
            if s["final"]:
                out.append(f"{pad}finally:")
                out += render_block(s["final"], me + [4], indent + 4)
        elif k == "match":
            out.append(f"{pad}match u():")
            out.append(f"{pad}    case True:")
            out += render_block(s["body"], me + [1], indent + 8)
            if s["orelse"]:
                out.append(f"{pad}    case _:")
                out += render_block(s["orelse"], me + [2], indent + 8)
        else:
            if k == "if":
                head = "if " + {"T": "True", "F": "False", "U": "u()"}[s["t"]] + ":"
            elif k == "while":
                head = "while " + {"T": "True", "F": "False", "U": "u()"}[s["t"]] + ":"
            else:
                head = "for _x in " + ITER_SRC[s["t"]] + ":"
            out.append(pad + head)
            out += render_block(s["body"], me + [1], indent + 4)
            if s["orelse"]:
                out.append(pad + "else:")
                out += render_block(s["orelse"], me + [2], indent + 4)
    return out


def render(shape) -> str:
    return "def shape():\n" + "\n".join(render_block(shape, [], 4)) + "\n"


REACH_PRELUDE = """class Boom(Exception):
    pass


class Ctx:
    def __enter__(self):
        return self

    def __exit__(self, *a):
        return False


TAPE = []
FLIP = [0]


def u():
    if TAPE:
        return bool(TAPE.pop(0))
    FLIP[0] += 1
    return FLIP[0] % 2 == 1


def it():
    return [1] * ((TAPE.pop(0) if TAPE else 0) + (TAPE.pop(0) if TAPE else 0))


def ctx():
    return Ctx()


def mark(p):
    print("mark", p)


"""
REACH_TAPES = ((), (1,), (0, 1), (1, 0), (1, 1), (1, 1, 1), (0, 0, 1), (1, 0, 1, 1))
REACH_DRIVER = """

for tape in {tapes}:
    TAPE[:] = tape
    FLIP[0] = 0
    try:
        print(tape, shape())
    except Boom:
        print(tape, "raised")
    except AssertionError:
        print(tape, "assertion failed")
"""


def sample_shape(rng: random.Random, depth: int = 2, inloop: bool = False):
    """One block of the grammar of Reach.tla (python-side sampling of the space the specification enumerates)."""
    def leaf(inl):
        kinds = ["mark", "mark", "return", "raise", "assert"] + (["break", "continue"] if inl else [])
        k = rng.choice(kinds)
        return {"k": "assert", "t": rng.choice("TFU")} if k == "assert" else {"k": k}

    def block(d, inl, allow_empty=False):
        if allow_empty and rng.random() < 0.4:
            return []
        out = []
        for _ in range(rng.choice((1, 1, 2))):
            if d > 0 and rng.random() < 0.65:
                out.append(compound(d - 1, inl))
            else:
                out.append(leaf(inl))
            if out[-1]["k"] in ("return", "raise", "break", "continue") and rng.random() < 0.5:
                break
        if rng.random() < 0.5:
            out.append({"k": "mark"})
        return out

    def compound(d, inl):
        k = rng.choice(["if", "while", "for", "with", "try", "match"])
        if k == "if":
            return {"k": k, "t": rng.choice("TFU"), "body": block(d, inl), "orelse": block(d, inl, True)}
        if k == "match":
            return {"k": k, "body": block(d, inl), "orelse": block(d, inl, True)}
        if k == "while":
            return {"k": k, "t": rng.choice("TTFU"), "body": block(d, True), "orelse": block(0, inl, True)}
        if k == "for":
            return {"k": k, "t": rng.choice(list(ITER_SRC)), "body": block(d, True), "orelse": block(0, inl, True)}
        if k == "with":
            return {"k": k, "body": block(d, inl), "orelse": []}
        handler = rng.choice([[{"k": "mark"}], [], [leaf(inl)], [leaf(inl)]])
        final = [{"k": "mark"}] if (not handler or rng.random() < 0.3) else []
        return {"k": k, "body": block(d, inl), "handler": handler, "final": final, "orelse": []}
    return [compound(depth - 1, inloop), {"k": "mark"}]


def directed_shapes():
    """Loops whose only exit sits in a place that is not a plain statement of the loop body: the else clause of an inner
    loop, an except handler, a case block, a with / if block, a finally clause."""
    M, B, C = {"k": "mark"}, {"k": "break"}, {"k": "continue"}
    carriers = {
        "for_else": lambda x: {"k": "for", "t": "one", "body": [M], "orelse": [x]},
        "for_empty_else": lambda x: {"k": "for", "t": "empty", "body": [M], "orelse": [x]},
        "while_else": lambda x: {"k": "while", "t": "F", "body": [M], "orelse": [x]},
        "handler": lambda x: {"k": "try", "body": [{"k": "assert", "t": "U"}, M], "handler": [x], "final": [], "orelse": []},
        "handler_raise": lambda x: {"k": "try", "body": [{"k": "raise"}], "handler": [x], "final": [], "orelse": []},
        "finally": lambda x: {"k": "try", "body": [M], "handler": [], "final": [x], "orelse": []},
        "case": lambda x: {"k": "match", "body": [x], "orelse": [M]},
        "case_default": lambda x: {"k": "match", "body": [M], "orelse": [x]},
        "if_u": lambda x: {"k": "if", "t": "U", "body": [x], "orelse": []},
        "else_u": lambda x: {"k": "if", "t": "U", "body": [M], "orelse": [x]},
        "with": lambda x: {"k": "with", "body": [x], "orelse": []},
    }
    out = []
    for cname, carrier in carriers.items():
        for outer in ({"k": "while", "t": "T"}, {"k": "for", "t": "many"}):
            for exit_, tail in ((B, [M]), (B, [{"k": "return"}]), (B, []), (C, [{"k": "return"}]), (C, [M, {"k": "raise"}])):
                if cname == "finally" and exit_ is C:
                    continue
                loop = dict(outer, body=[carrier(exit_)] + tail, orelse=[])
                out.append((f"{cname}-{outer['k']}{outer['t']}-{exit_['k']}-{len(tail)}{(tail or [M])[-1]['k']}", [loop, M]))
    return out


def reach_program(shape) -> str:
    """A shape as a program that runs itself under a few tapes of unknown outcomes and prints what it did."""
    return REACH_PRELUDE + render(shape) + REACH_DRIVER.format(tapes=repr(REACH_TAPES))


def terminates(shape) -> bool:
    """Whether the program form of the shape ends by itself (within 20000 trace events)."""
    import contextlib
    import io
    code = compile(reach_program(shape), "<shape>", "exec")
    steps = [0]

    def tracer(frame, event, arg):
        steps[0] += 1
        if steps[0] > 20000:
            raise Stop()
        return tracer
    try:
        with contextlib.redirect_stdout(io.StringIO()):
            sys.settrace(tracer)
            try:
                exec(code, {"__name__": "__reach__"})
            finally:
                sys.settrace(None)
    except Stop:
        return False
    except Exception:  # noqa: BLE001
        return False
    return True


class Stop(BaseException):     # not caught by the `except Exception:` clauses of the shapes
    pass


class Boom(Exception):
    pass


def execute(code, tape: Tuple[int, ...], limit=400):
    """Mark trace and final status of the function under one tape of unknown outcomes."""
    trace = []
    pos = [0]
    steps = [0]

    def bit():
        if pos[0] < len(tape):
            pos[0] += 1
            return tape[pos[0] - 1]
        return 0

    stopped = [False]

    def mark(p):
        if stopped[0]:
            return      # finally clauses that run while the cut-off propagates are not part of the behaviour
        trace.append(p)
        if len(trace) > 60:
            stopped[0] = True
            raise Stop()

    class Ctx:
        def __enter__(self):
            return self

        def __exit__(self, *a):
            return False

    def tracer(frame, event, arg):
        steps[0] += 1
        if steps[0] > limit:
            stopped[0] = True
            raise Stop()
        return tracer

    env = {"mark": mark, "u": lambda: bool(bit()), "it": lambda: [1] * (bit() + bit()), "ctx": Ctx, "Boom": Boom}
    try:
        exec(code, env)
        fn = env.get("shape") or env.get("_shape")
        sys.settrace(tracer)
        try:
            res = fn()
            status = "ret" if res == "r" else "end"
        finally:
            sys.settrace(None)
    except Stop:
        status = "cut"
    except (Boom, AssertionError):
        status = "exc"
    except Exception as exc:  # noqa: BLE001
        status = f"error:{type(exc).__name__}"
    return trace, status


TAPES = [t for n in range(0, 6) for t in itertools.product((0, 1), repeat=n)]


def behaviours(text: str):
    try:
        code = compile(text, "<shape>", "exec")
    except SyntaxError:
        return None
    out = []
    for tape in TAPES:
        trace, status = execute(code, tape)
        # a cut (infinite loop) run is compared on the set of marks seen, not on the unbounded trace
        out.append((tuple(sorted(set(trace))) if status == "cut" else tuple(trace), status))
    return out


def _chunk(args):
    items, with_pipeline = args
    mods = import_pyrefact()
    st = {"shapes": 0, "rule_applications": 0, "rewrites": 0}
    spec_bad, bad = [], []
    rules = [(r, getattr(mods[r.split(".")[0]], r.split(".")[1], None)) for r in RULES]
    rules = [(r, f) for r, f in rules if f is not None]
    for idx, (shape, reachable) in items:
        text = render(shape)
        st["shapes"] += 1
        base = behaviours(text)
        if base is None:
            spec_bad.append({"source": text, "why": "rendered shape does not compile"})
            continue
        executed = set()
        for tr, status in base:
            executed.update(tr)
        if executed != set(reachable):
            spec_bad.append({"source": text, "spec_reachable": sorted(reachable), "cpython_executed": sorted(executed)})
            continue
        marks = set(re.findall(r"mark\('([\d.]+)'\)", text))
        jobs = list(rules)
        if with_pipeline and idx % with_pipeline == 0:
            jobs.append(("format_code", lambda s: mods["main"].format_code(s, preserve=frozenset({"shape"}))))
        for rname, fn in jobs:
            st["rule_applications"] += 1
            try:
                out = fn(text)
            except Exception as exc:
                bad.append({"kind": "raised", "rule": rname, "source": text, "error": repr(exc)})
                continue
            if out == text:
                continue
            st["rewrites"] += 1
            left = set(re.findall(r"mark\('([\d.]+)'\)", out))
            deleted = marks - left
            wrongly = sorted(deleted & set(reachable))
            after = behaviours(out)
            if wrongly:
                bad.append({"kind": "reachable statement deleted", "rule": rname, "source": text, "output": out,
                            "deleted_reachable_marks": wrongly})
            elif after is None:
                continue   # C03
            elif after != base:
                i = next(j for j in range(len(TAPES)) if after[j] != base[j])
                bad.append({"kind": "behaviour changed", "rule": rname, "source": text, "output": out, "tape": list(TAPES[i]),
                            "before": [list(base[i][0]), base[i][1]], "after": [list(after[i][0]), after[i][1]]})
    return st, spec_bad, bad


def reach_runs(t: str):
    leaves_q = '{"return", "raise", "break", "continue", "assertU", "assertF"}'
    if t == "quick":
        return [("depth1", dict(leaves=leaves_q, tests='{"T", "F", "U"}', iters='{"empty", "one", "U"}',
                                comps='{"if", "while", "for", "with", "try"}', depth=1, inloop="TRUE", tails='{"mark"}'), 7),
                ("depth2-tails", dict(leaves='{"return", "break", "continue"}', tests='{"T", "U"}', iters='{"one", "U"}',
                                      comps='{"if", "while", "for"}', depth=2, inloop="FALSE", tails='{"mark", "return", "raise"}'), 25),
                ("depth2-try", dict(leaves='{"return", "break", "raise"}', tests='{"T", "U"}', iters='{"one"}',
                                    comps='{"try", "while", "for", "with"}', depth=2, inloop="FALSE", tails='{"mark", "return"}'), 25),
                # exits that are not statements of the loop body itself: break / continue in an except handler, in a case block,
                # in the else clause of an inner loop; loops over iterator objects that yield nothing
                ("depth2-handlers", dict(leaves='{"return", "break", "continue", "assertU"}', tests='{"T"}', iters='{"one", "lazyempty"}',
                                         comps='{"try", "while", "for", "match"}', depth=2, inloop="FALSE", tails='{"mark", "return"}'), 25),
                ("depth1-lazy", dict(leaves='{"return", "raise", "break", "continue"}', tests='{"T", "U"}', iters='{"lazyempty", "lazyone", "empty"}',
                                     comps='{"for", "while", "match"}', depth=1, inloop="TRUE", tails='{"mark"}'), 7),
                ("depth1-tryelse", dict(leaves='{"return", "raise", "break", "assertU"}', tests='{"U"}', iters='{"one"}',
                                        comps='{"try"}', depth=1, inloop="TRUE", tails='{"mark"}'), 3)]
    return [("depth1", dict(leaves='{"return", "raise", "break", "continue", "assertU", "assertF", "assertT"}', tests='{"T", "F", "U"}',
                            iters='{"empty", "one", "many", "U"}', comps='{"if", "while", "for", "with", "try"}', depth=1, inloop="TRUE",
                            tails='{"mark"}'), 3),
            ("depth2-tails", dict(leaves='{"return", "break", "continue", "raise"}', tests='{"T", "F", "U"}', iters='{"empty", "one", "U"}',
                                  comps='{"if", "while", "for", "with"}', depth=2, inloop="FALSE",
                                  tails='{"mark", "return", "raise", "break", "continue"}'), 25),
            ("depth2-try", dict(leaves='{"return", "break", "continue", "raise", "assertU"}', tests='{"T", "U"}', iters='{"one", "U"}',
                                comps='{"try", "if", "while", "for", "with"}', depth=2, inloop="FALSE", tails='{"mark", "return", "raise"}'), 25),
            ("depth2-handlers", dict(leaves='{"return", "break", "continue", "assertU", "raise"}', tests='{"T", "U"}',
                                     iters='{"one", "lazyempty", "lazyone", "U"}', comps='{"try", "while", "for", "match", "if"}', depth=2,
                                     inloop="FALSE", tails='{"mark", "return", "raise", "break"}'), 25),
            ("depth1-lazy", dict(leaves='{"return", "raise", "break", "continue", "assertU"}', tests='{"T", "F", "U"}',
                                 iters='{"lazyempty", "lazyone", "empty", "one"}', comps='{"for", "while", "match", "try", "if"}', depth=1,
                                 inloop="TRUE", tails='{"mark"}'), 3),
            ("depth2-tryelse", dict(leaves='{"return", "raise", "break", "continue", "assertU"}', tests='{"T", "U"}', iters='{"one", "U"}',
                                    comps='{"try", "if", "while"}', depth=2, inloop="FALSE", tails='{"mark", "return"}'), 25)]


# ---------------------------------------------------------------------------------------------
CALLEE = {"const": "1", "name": "xs", "builtin": "len(xs)", "const_method": "'a'.upper()", "user_pure": "pure(1)",
          "user_impure": "impure(1)", "user_raises": "raises(1)", "unknown": "unknown_function(1)", "method": "xs.append(1)",
          "walrus": "(w := 1)", "user_cond_raise": "checked(1)", "user_branch_effect": "branchy(1)", "user_calls_impure": "wrapper(1)",
          "user_global_write": "setter(1)", "ctor_plain": "Obj()", "ctor_impure": "Loud(1)", "shadowed_builtin": "sorted(xs)",
          "map_impure": "list(map(impure, xs))", "sorted_key_impure": "sorted(xs, key=impure)", "next_user_gen": "next(gg)",
          "user_lambda": "lam(1)", "gen_consumed_list": "list(gen_fn())", "gen_consumed_any": "any(gen_fn())", "gen_consumed_sum": "sum(gen_fn())",
          "gen_delegating_consumed": "tuple(gen_outer())"}
CTX = {"top": "{c}", "binop": "{c} + 1" , "boolop": "xs and {c}", "compare": "{c} == 2", "call_arg": "len([{c}])",
       "comp_elt": "[{c} for _i in xs]", "comp_cond": "[_i for _i in xs if {c}]", "comp_iter": "[_i for _i in [{c}]]",
       "dictcomp_key": "{{{c}: 1 for _i in xs}}", "dictcomp_val": "{{_i: {c} for _i in xs}}", "ifexp_test": "1 if {c} else 2",
       "ifexp_branch": "{c} if xs else 2", "fstring": "f'{{{c}}}'", "lambda_body": "lambda: {c}", "subscript": "xs[0:{c}]",
       "attribute": "({c}).real", "tuple": "({c}, 2)", "dict_value": "{{'k': {c}}}", "starred": "[*[{c}]]", "walrus": "{c}",
       "slice_lower": "xs[{c}:]", "slice_step": "xs[::{c}]", "index": "dd.get({c})", "call_kwarg": "dict(k={c})", "call_star": "len(*[[{c}]])",
       "format_spec": "f'{{1:{{{c}}}}}'", "unary": "-({c})", "not": "not {c}", "chained_compare": "0 < 1 < {c}", "set_elt": "{{{c}, 2}}",
       "dict_key": "{{{c}: 1}}", "genexp_elt": "any({c} for _i in xs)", "comp_iter2": "[_j for _i in xs for _j in [{c}]]",
       "lambda_default": "lambda a={c}: a", "subscript_value": "[{c}][0]", "nested_ifexp": "1 if xs else (2 if {c} else 3)"}
FORM = {"expr": "{e}", "assign": "zz = {e}", "throwaway": "_ = {e}", "attrset": "obj.a = {e}", "itemset": "dd[0] = {e}",
        "augassign": "nn += {e}", "annassign": "zz: int = {e}", "del": "del nn", "assert": "assert {e}", "raise": "raise Boom",
        "return": "return {e}", "yield": "yield {e}",
        "for_body": "for _ in xs:\n        {e}", "for_else": "for _ in xs:\n        pass\n    else:\n        {e}",
        "for_iter": "for _ in {e}:\n        pass", "for_bind": "for zz in xs:\n        {e}",
        "if_test": "if {e}:\n        pass", "if_body": "if xs:\n        {e}", "if_else": "if not xs:\n        pass\n    else:\n        {e}"}
# the call that must survive when the statement is not pointless (the statement may be rewritten around it)
NEEDLE = {"user_pure": "pure(", "user_impure": "impure(", "user_raises": "raises(", "unknown": "unknown_function(", "method": ".append(",
          "user_cond_raise": "checked(", "user_branch_effect": "branchy(", "user_calls_impure": "wrapper(", "user_global_write": "setter(",
          "ctor_plain": "Obj(", "ctor_impure": "Loud(", "shadowed_builtin": "sorted(", "map_impure": "impure", "sorted_key_impure": "impure",
          "next_user_gen": "next(", "user_lambda": "lam("}
PRELUDE = ("class Boom(Exception):\n    pass\n\n\nclass Obj:\n    pass\n\n\ndef pure(v):\n    return v + 1\n\n\n"
           "def impure(v):\n    print('impure', v)\n    return v\n\n\ndef raises(v):\n    raise Boom()\n\n\n")
EXTRA = {
    "user_cond_raise": "def checked(v):\n    if v > 0:\n        raise Boom()\n    else:\n        return v\n\n\n",
    "user_branch_effect": "def branchy(v):\n    if v:\n        print('branchy')\n        return 1\n    else:\n        return 2\n\n\n",
    "user_calls_impure": "def wrapper(v):\n    return impure(v)\n\n\n",
    "user_global_write": "STATE = []\n\n\ndef setter(v):\n    STATE.append(v)\n    return v\n\n\n",
    "ctor_impure": "class Loud:\n    def __init__(self, v):\n        print('loud', v)\n\n\n",
    "shadowed_builtin": "def sorted(v):\n    print('my sorted')\n    return list(v)\n\n\n",
    "user_lambda": "lam = lambda v: print('lam', v)\n\n\n",
    "gen_consumed_list": "def gen_fn():\n    print('gen started')\n    yield 1\n    print('gen resumed')\n    yield 2\n\n\n",
    "gen_consumed_any": "def gen_fn():\n    print('gen started')\n    yield 0\n    print('gen resumed')\n    yield 2\n\n\n",
    "gen_consumed_sum": "def gen_fn():\n    print('gen started')\n    yield 1\n    print('gen resumed')\n    yield 2\n\n\n",
    "gen_delegating_consumed": "def gen_fn():\n    print('gen started')\n    yield 1\n\n\ndef gen_outer():\n    yield from gen_fn()\n\n\n",
    "next_user_gen": "def gen_fn():\n    print('gen started')\n    yield 1\n    print('gen resumed')\n    yield 2\n\n\n",
}


def _effects_chunk(records):
    mods = import_pyrefact()
    fixes = mods["fixes"]
    import ast as _ast
    st = {"effect_cases": 0, "effect_deletions": 0}
    out_cases = []
    for rec in records:
        e = CTX[rec["ctx"]].format(c=CALLEE[rec["callee"]])
        stmt = FORM[rec["form"]].format(e=e)
        body = f"    xs = [1, 2]\n    nn = 1\n    dd = {{}}\n    obj = Obj()\n"
        if rec["callee"] == "next_user_gen":
            body += "    gg = gen_fn()\n"
        body += f"    mark('before')\n    {stmt}\n    mark('after')\n"
        if rec["callee"] == "next_user_gen":
            body += "    print(list(gg))\n"
        if rec["callee"] == "walrus" and rec["ctx"] != "lambda_body" and rec["form"] not in ("return", "raise", "yield"):
            body += "    return (xs, nn, dd, obj, w)\n"        # the binding made by := is observable
        elif rec["form"] in ("assign", "annassign", "for_bind"):
            body += "    return (xs, nn, dd, obj, zz)\n"       # the binding is observable
        elif rec["form"] not in ("return", "raise"):
            body += "    return (xs, nn, dd, obj)\n"
        text = PRELUDE + EXTRA.get(rec["callee"], "") + "def target():\n" + body + "\n\ntry:\n    print(target())\nexcept Boom:\n    print('boom')\n"
        try:
            compile(text, "<effects>", "exec")
        except SyntaxError:
            out_cases.append(("machinery", rec, text, None, None))
            continue
        st["effect_cases"] += 1
        for rname, fn in (("fixes.delete_pointless_statements", fixes.delete_pointless_statements),
                          ("format_code", lambda s: mods["main"].format_code(s, preserve=frozenset({"target", "pure", "impure", "raises", "Boom", "Obj", "checked", "branchy", "wrapper", "setter", "STATE",
                                                                                                "Loud", "sorted", "lam", "gen_fn"})))):
            try:
                out = fn(text)
            except Exception as exc:
                out_cases.append(("raised", rec, text, rname, repr(exc)))
                continue
            try:
                tree = _ast.parse(out)
            except SyntaxError:
                continue
            fn_def = next((n for n in tree.body if isinstance(n, _ast.FunctionDef) and n.name.lstrip("_") == "target"), None)
            if fn_def is None:
                continue
            seg, inside = [], False
            for stn in fn_def.body:
                src = _ast.unparse(stn)
                if "mark('before')" in src:
                    inside = True
                    continue
                if "mark('after')" in src:
                    inside = False
                    continue
                if inside:
                    seg.append(src)
            needle = NEEDLE.get(rec["callee"])
            if needle is not None and needle not in stmt:
                needle = None
            if seg and (rec["pointless"] or needle is None or any(needle in x for x in seg)):
                continue
            st["effect_deletions"] += 1
            if rec["pointless"]:
                continue
            out_cases.append(("deleted", rec, text, rname, (stmt, out)))
    return st, out_cases


def effects_part(rep: Report, mods, t: str, known, stats):
    forms = "{" + ", ".join(f'"{c}"' for c in FORM) + "}"
    ctxs = "{" + ", ".join(f'"{c}"' for c in CTX if c != "walrus") + "}"
    callees = "{" + ", ".join(f'"{c}"' for c in CALLEE) + "}"
    cfg = "\n".join(["CONSTANTS", f"  Forms = {forms}", f"  Ctxs = {ctxs}", f"  Callees = {callees}", "INIT Init", "NEXT Next",
                     "INVARIANT Dump", "CHECK_DEADLOCK FALSE", ""])
    res = run_tlc("Effects", cfg, workers=4, timeout_s=900, keep_stdout=False)
    rep.add_tlc(res, "Effects")
    recs = res.records
    n = 16
    with mp.get_context("fork").Pool(n) as pool:
        parts = pool.map(_effects_chunk, [recs[i::n] for i in range(n)])
    for st, cases in parts:
        for k, v in st.items():
            stats[k] = stats.get(k, 0) + v
        for kind, rec, text, rname, extra in cases:
            if kind == "machinery":
                raise MachineryError(f"Effects renderer produced invalid Python for {rec}:\n{text}")
            if kind == "raised":
                rep.violation(f"{rname} raised {extra} on an Effects.tla case", {"case": rec, "source": text})
                continue
            stmt, out = extra
            sh = {"old": "Expr", "new": "", "parent": "FunctionDef", "field": "body", "old_src": stmt, "new_src": "",
                  "features": [f"callee-{rec['callee']}", f"form-{rec['form']}", f"ctx-{rec['ctx']}"]}
            kf = next((e["id"] for e in known if blame.matches_signature(e, "fixes.delete_pointless_statements", sh, text)), None)
            case = {"case": rec, "statement": stmt, "rule": rname, "source": text, "output": out}
            if kf:
                rep.known(kf, {"statement": stmt, "rule": rname})
            else:
                rep.violation(f"{rname} deleted {stmt!r} as pointless although it is not (form {rec['form']}, context {rec['ctx']}, "
                              f"callee {rec['callee']})", case)


def main(argv=None) -> int:
    rep = Report(PROP, "model_checking")
    mods = import_pyrefact()
    t = tier()
    stats: Dict[str, int] = {}
    known = rep.known_entries()
    only = os.environ.get("VERIF_C16_ONLY")        # debugging aid: one Reach run by label, no Effects part
    for label, c, with_pipeline in reach_runs(t):
        if only and label != only:
            continue
        cfg = "\n".join(["CONSTANTS", f"  Leaves = {c['leaves']}", f"  Tests = {c['tests']}", f"  Iters = {c['iters']}",
                         f"  Compounds = {c['comps']}", f"  Depth = {c['depth']}", f"  InLoop = {c['inloop']}", f"  Tails = {c['tails']}", "  MaxIter = 2",
                         "INIT Init", "NEXT Next", "INVARIANT Report", "INVARIANT Announce",
                         "CHECK_DEADLOCK FALSE", ""])
        res = run_tlc("Reach", cfg, timeout_s=3000, keep_stdout=False, heap_gb=12)
        rep.add_tlc(res, f"Reach {label}")
        by_shape: Dict[str, set] = {}
        shapes: Dict[str, list] = {}
        for r in res.records:
            key = json.dumps(r["shape"], sort_keys=True)
            shapes.setdefault(key, r["shape"])
            s = by_shape.setdefault(key, set())
            if r["at"]:
                s.add(pstr(r["at"]))
        if not shapes:
            raise MachineryError(f"Reach {label}: no shapes")
        items = list(enumerate((shapes[k], sorted(v)) for k, v in by_shape.items()))
        if t == "quick" and len(items) > 5000:
            rng = random.Random(seed())
            items = rng.sample(items, 5000)
            rep.coverage["reach_shapes_sampled"] = True
        n = 16
        chunks = [items[i::n] for i in range(n)]
        with mp.get_context("fork").Pool(n) as pool:
            parts = pool.map(_chunk, [(ch, with_pipeline) for ch in chunks])
        for st, spec_bad, bad in parts:
            for k, v in st.items():
                stats[k] = stats.get(k, 0) + v
            if spec_bad:
                raise MachineryError(f"Reach.tla disagrees with CPython (the SPEC or its renderer is wrong): {json.dumps(spec_bad[:2])[:1500]}")
            for case in bad:
                if case["kind"] == "raised":
                    rep.violation(f"{case['rule']} raised {case['error']} on a Reach.tla shape", case)
                    continue
                sh = blame.shape(case["source"], case["output"])
                case["shape"] = sh
                kf = next((e["id"] for e in known if blame.matches_signature(e, case["rule"], sh, case["source"])), None)
                if kf:
                    rep.known(kf, {"rule": case["rule"], "source": case["source"]})
                    continue
                rep.violation(f"{case['rule']}: {case['kind']}: {sh['old_src'][:70]!r} -> {sh['new_src'][:70]!r} "
                              f"({case.get('deleted_reachable_marks') or case.get('tape')})", case)
        k0 = next(iter(shapes))
        rep.sample({"shape_source": render(shapes[k0]), "reachable_marks": sorted(by_shape[k0])})
    if not only:
        effects_part(rep, mods, t, known, stats)
    rep.coverage["evaluations"] = stats.get("rule_applications", 0) + stats.get("effect_cases", 0)
    rep.coverage["distinct_nontrivial"] = stats.get("rewrites", 0) + stats.get("effect_deletions", 0)
    rep.coverage["traces_validated_against_impl"] = stats.get("shapes", 0) + stats.get("effect_cases", 0)
    rep.coverage["detail"] = stats
    rep.coverage["rule"] = ("Reach.tla shapes (compound statements over leaf statements with known / unknown tests, optionally inside a loop) "
                            "rewritten by every reachability-consuming rule; compared on the set of deleted marks and on the mark trace under "
                            "63 tapes of unknown outcomes; Effects.tla form x context x callee cases; non-trivial = the rule changed the text")
    rep.assumptions += ["Reach.tla is validated against CPython on every shape (executed marks over all tapes = reachable set; exit 2 otherwise)",
                        "loops are explored for at most two iterations in the specification"]
    return rep.finish()


if __name__ == "__main__":
    sys.exit(main())
