"""A controllable stand-in for multiprocessing.Pool (C06, binding A).

format_files is run unchanged, but `main.mp` is replaced by a namespace whose Pool is ControlledPool:
its workers are real forked processes (so every per-process cache behaves as in production) that stop
at every open() of a Python file inside the tree and wait for the controller.  The controller releases
them in the order a Pool.tla witness schedule dictates, one observable step at a time:

    take(w)   the next task of the pass is sent to worker w
    read(w)   open(own file, "r") and read it
    deps(w)   every further file the formatter opens for reading (sources of other modules)
    trunc(w)  open(own file, "w")               - the file is empty from here on
    write(w)  the stream is closed               - the new text is on disk
    finish(w) the result is handed to the parent

Every step is synchronous: the worker acknowledges that the file operation has HAPPENED before the
controller takes the next step, so the executed log is a total order of the file-system effects.
"""
from __future__ import annotations

import builtins
import hashlib
import io
import multiprocessing as mp
import os
import traceback
from typing import Any, Callable, Dict, List, Optional, Sequence, Tuple

STEP_TIMEOUT = 180.0


class ScheduleMismatch(Exception):
    pass


def _digest(text: str) -> str:
    return hashlib.sha1(text.encode("utf-8", "surrogatepass")).hexdigest()[:12]


# ------------------------------------------------------------------------------------------ worker side
class _WriteProxy:
    """Returned by the wrapped open(.., 'w'): the text reaches the disk when the stream is closed."""

    def __init__(self, real, conn, rel):
        self._real, self._conn, self._rel = real, conn, rel
        self._parts: List[str] = []
        self._closed = False

    def write(self, data):
        self._parts.append(data)
        return len(data)

    def writelines(self, lines):
        for line in lines:
            self.write(line)

    def flush(self):
        pass

    def close(self):
        if self._closed:
            return
        self._closed = True
        self._conn.send(("ev", "write", self._rel))
        self._conn.recv()
        data = "".join(self._parts) if not self._parts or isinstance(self._parts[0], str) else b"".join(self._parts)
        self._real.write(data)
        self._real.close()
        self._conn.send(("ack", _digest(data if isinstance(data, str) else data.decode("utf-8", "replace"))))

    def __enter__(self):
        return self

    def __exit__(self, *exc):
        self.close()
        return False


def _install_open_wrappers(conn, root: str):
    real_open = io.open

    def rel_of(file) -> Optional[str]:
        if isinstance(file, int):
            return None
        try:
            path = os.path.realpath(os.fspath(file))
        except TypeError:
            return None
        if path.endswith(".py") and path.startswith(root + os.sep):
            return os.path.relpath(path, root)
        return None

    def wrapped(file, mode="r", *args, **kwargs):
        rel = rel_of(file)
        if rel is None:
            return real_open(file, mode, *args, **kwargs)
        if any(c in mode for c in "wax+"):
            conn.send(("ev", "trunc", rel))
            conn.recv()
            real = real_open(file, mode, *args, **kwargs)
            conn.send(("ack", ""))
            return _WriteProxy(real, conn, rel)
        conn.send(("ev", "read", rel))
        conn.recv()
        with real_open(file, mode, *args, **kwargs) as stream:
            data = stream.read()
        conn.send(("ack", _digest(data if isinstance(data, str) else data.decode("utf-8", "replace"))))
        return io.BytesIO(data) if isinstance(data, bytes) else io.StringIO(data)

    builtins.open = wrapped
    io.open = wrapped


def _worker_main(conn, root: str):
    _install_open_wrappers(conn, root)
    while True:
        try:
            msg = conn.recv()
        except EOFError:
            return
        if msg[0] == "stop":
            return
        _, func, args = msg
        try:
            res = ("ok", func(*args))
        except BaseException as exc:  # noqa: BLE001 - reported to the parent like a real pool does
            if isinstance(exc, KeyboardInterrupt):
                return
            res = ("raised", f"{type(exc).__name__}: {exc}", traceback.format_exc()[-600:])
        conn.send(("done", res))


# ------------------------------------------------------------------------------------------ controller side
class TaskFailed(Exception):
    """A task raised inside a worker (re-raised in the parent, like multiprocessing does)."""


class ControlledPool:
    def __init__(self, n_workers: int, root: str, schedule: List[List[Tuple[str, int]]], log: dict):
        self.n = n_workers
        self.root = os.path.realpath(root)
        self.schedule = schedule
        self.log = log
        log.setdefault("passes", [])
        log.setdefault("notes", [])
        self.pass_no = 0
        ctx = mp.get_context("fork")
        self.conns, self.procs = {}, {}
        for w in range(1, n_workers + 1):
            parent, child = ctx.Pipe()
            p = ctx.Process(target=_worker_main, args=(child, self.root), daemon=True)
            p.start()
            child.close()
            self.conns[w], self.procs[w] = parent, p

    # -- context manager / shutdown
    def __enter__(self):
        return self

    def __exit__(self, *exc):
        self.terminate()
        return False

    def close(self):
        pass

    def join(self):
        pass

    def terminate(self):
        for w, c in self.conns.items():
            try:
                c.send(("stop",))
            except Exception:
                pass
        for p in self.procs.values():
            p.join(2)
            if p.is_alive():
                p.kill()

    # -- low level
    def _recv(self, w):
        c = self.conns[w]
        if not c.poll(STEP_TIMEOUT):
            raise ScheduleMismatch(f"worker {w} did not reach its next step within {STEP_TIMEOUT}s")
        try:
            return c.recv()
        except EOFError:
            raise ScheduleMismatch(f"worker {w} died")

    def _task_file(self, args) -> str:
        """The file a task is about: the first path inside the tree among its (possibly nested) arguments."""
        stack = list(args) if isinstance(args, (tuple, list)) else [args]
        while stack:
            a = stack.pop(0)
            if isinstance(a, (tuple, list)):
                stack = list(a) + stack
            elif isinstance(a, (str, os.PathLike)):
                path = os.path.realpath(os.fspath(a))
                if path.startswith(self.root + os.sep):
                    return os.path.relpath(path, self.root)
        return "?"

    def _run(self, func: Callable, tasks: List[tuple], unordered: bool = False) -> List[Any]:
        self.pass_no += 1
        steps = list(self.schedule[self.pass_no - 1]) if self.pass_no <= len(self.schedule) else []
        plog = {"tasks": [self._task_file(t) for t in tasks],
                "events": [], "assign": [], "order": [], "beyond_schedule": self.pass_no > len(self.schedule)}
        self.log["passes"].append(plog)
        queue = list(range(len(tasks)))
        results: Dict[int, Any] = {}
        pending: Dict[int, Any] = {w: None for w in self.conns}
        current: Dict[int, Optional[int]] = {w: None for w in self.conns}

        def peek(w):
            if pending[w] is None:
                pending[w] = self._recv(w)
            return pending[w]

        def release(w):
            """Let worker w perform the operation it is waiting for; returns once it HAS happened."""
            ev = pending[w]
            pending[w] = None
            self.conns[w].send(("go",))
            ack = self._recv(w)
            plog["events"].append([w, ev[1], ev[2], ack[1]])

        def take(w):
            idx = queue.pop(0)
            current[w] = idx
            self.conns[w].send(("task", func, tasks[idx]))
            plog["assign"].append([plog["tasks"][idx], w])
            plog["events"].append([w, "take", plog["tasks"][idx], ""])

        def finish(w):
            while True:
                ev = peek(w)
                if ev[0] == "done":
                    break
                release(w)
            pending[w] = None
            idx = current[w]
            current[w] = None
            results[idx] = ev[1]
            plog["order"].append(plog["tasks"][idx])
            plog["events"].append([w, "finish", plog["tasks"][idx], repr(ev[1][1])[:40] if ev[1][0] == "ok" else "raised"])

        for kind, w in steps:
            if w not in self.conns:
                continue
            if kind == "take":
                if not queue or current[w] is not None:
                    self.log["notes"].append(f"pass {self.pass_no}: take({w}) impossible (model and code disagree on the task list)")
                    continue
                take(w)
                continue
            if current[w] is None:
                self.log["notes"].append(f"pass {self.pass_no}: {kind}({w}) but worker {w} has no task")
                continue
            own = plog["tasks"][current[w]]
            ev = peek(w)
            if kind == "read":
                if ev[0] == "ev" and ev[1] == "read":
                    release(w)
                else:
                    self.log["notes"].append(f"pass {self.pass_no}: read({w}) expected, worker is at {ev[:2]}")
            elif kind == "deps":
                n = 0
                while ev[0] == "ev" and ev[1] == "read":
                    release(w)
                    n += 1
                    ev = peek(w)
                if n == 0:
                    self.log["notes"].append(f"pass {self.pass_no}: deps({w}): the task for {own} read no other file")
            elif kind == "trunc":
                # further reads the model did not foresee happen before the write
                while ev[0] == "ev" and ev[1] == "read":
                    release(w)
                    ev = peek(w)
                if ev[0] == "ev" and ev[1] == "trunc":
                    release(w)
                else:
                    self.log["notes"].append(f"pass {self.pass_no}: trunc({w}): the task for {own} does not write")
            elif kind == "write":
                if ev[0] == "ev" and ev[1] == "write":
                    release(w)
            elif kind == "finish":
                finish(w)
        # whatever the schedule left open is completed deterministically
        leftovers = False
        while queue or any(c is not None for c in current.values()):
            leftovers = True
            for w in sorted(self.conns):
                if current[w] is None and queue:
                    take(w)
                if current[w] is not None:
                    finish(w)
        if leftovers and not plog["beyond_schedule"]:
            self.log["notes"].append(f"pass {self.pass_no}: the schedule ended before the pass did")
        out = []
        order = [plog["tasks"].index(x) for x in plog["order"]] if unordered else range(len(tasks))
        for idx in order:
            r = results[idx]
            if r[0] == "raised":
                plog["raised"] = r[1]
                raise TaskFailed(r[1])
            out.append(r[1])
        return out

    # -- the parts of the Pool API a format_files could reasonably use
    def starmap(self, func, iterable, chunksize=None):
        return self._run(func, [tuple(a) for a in iterable])

    def map(self, func, iterable, chunksize=None):
        return self._run(func, [(a,) for a in iterable])

    def imap(self, func, iterable, chunksize=1):
        return iter(self._run(func, [(a,) for a in iterable]))

    def imap_unordered(self, func, iterable, chunksize=1):
        return iter(self._run(func, [(a,) for a in iterable], unordered=True))

    def starmap_async(self, func, iterable, chunksize=None, callback=None, error_callback=None):
        res = self._run(func, [tuple(a) for a in iterable])
        return _Ready(res)

    def map_async(self, func, iterable, chunksize=None, callback=None, error_callback=None):
        return _Ready(self._run(func, [(a,) for a in iterable]))

    def apply_async(self, func, args=(), kwds=None, callback=None, error_callback=None):
        if kwds:
            raise ScheduleMismatch("apply_async with keyword arguments is not supported by the controlled pool")
        return _Ready(self._run(func, [tuple(args)])[0])

    def apply(self, func, args=(), kwds=None):
        return self.apply_async(func, args, kwds).get()


class _Ready:
    def __init__(self, value):
        self._value = value

    def get(self, timeout=None):
        return self._value

    def wait(self, timeout=None):
        pass

    def ready(self):
        return True

    def successful(self):
        return True


class MpShim:
    """Replacement for the `mp` name inside pyrefact.main."""

    def __init__(self, root: str, schedule, log: dict):
        self._root, self._schedule, self._log = root, schedule, log
        self.pools = 0

    def Pool(self, processes=None, *a, **k):      # noqa: N802 - multiprocessing's name
        self.pools += 1
        n = processes or 1
        self._log["n_workers_requested"] = n
        return ControlledPool(n, self._root, self._schedule, self._log)

    def cpu_count(self):
        return mp.cpu_count()

    def get_context(self, method=None):
        return self

    def __getattr__(self, name):
        return getattr(mp, name)
