------------------------------- MODULE Subst -------------------------------
(***************************************************************************)
(* Pattern substitution (C14): sub / subn rewrite exactly the matches.       *)
(*                                                                         *)
(* A case is a module of 1..MaxStmts statements, a pattern, a replacement    *)
(* template and a count.  Statement kinds (V is the bound value):            *)
(*   "m"    f(V)                 the match is the whole statement            *)
(*   "mm"   f(f(V))              two nested (overlapping) matches            *)
(*   "am"   y = f(V) * 2         match is the left operand of a product      *)
(*   "arg"  g(f(V), 0)           match is an argument                        *)
(*   "neg"  z = -f(V)            match is the operand of a unary minus       *)
(*   "att"  w = f(V).real        match is the object of an attribute access  *)
(*   "two"  f(V); f(V)           two matches on one physical line            *)
(*   "ml"   f( / V / )           a match over three physical lines           *)
(*   "blk"  if c: / f(V)         an indented match                           *)
(*   "ig"   f(V)  # pyrefact: ignore      a match on an ignored line         *)
(*   "igml" f( / V  # pyrefact: ignore / )   ignore comment on a middle line *)
(*   "igend" f( / V / )  # pyrefact: ignore  ignore comment on the last line *)
(*   "blk2" if c: / if d: / f(V)  a match indented by eight columns          *)
(*   "n"    g(V)                 no match (for pattern "seq": the 2nd half)  *)
(* Patterns: "callf" f({{x}});  "seq" f({{x}}) / g({{y}}) (two consecutive   *)
(* statements "m","n");  "absent" q({{x}}).                                   *)
(* Replacements: "const" h()  "one" h({{x}})  "twice" h({{x}}, {{x}})         *)
(*   "self" the pattern itself   "sum" {{x}} + 1   "mul" {{x}} * 2            *)
(*   "neg" -{{x}}     (for "seq": "k2" k({{x}}, {{y}}), "self")               *)
(*   "ifstmt" if {{x}}: / h({{x}})   a compound statement (only where the     *)
(*            match is a whole statement)                                     *)
(* Bound values: "atom" (a name) or "sum" (a + b).                            *)
(*                                                                         *)
(* IDEAL: the result is the module in which an ADMISSIBLE set of matches is  *)
(* replaced, at the level of syntax trees, by the instantiated template:     *)
(*   - only matches that are not on an ignored line,                         *)
(*   - pairwise non-overlapping,                                             *)
(*   - at most `count` of them when count > 0,                                *)
(*   - all of them (a maximal non-overlapping set) when count = 0 - so at     *)
(*     least one whenever there is an eligible match; with a positive count   *)
(*     the statement only bounds the number from above.                       *)
(* Which admissible set is applied is the implementation's choice; TLC       *)
(* enumerates the admissible sets of every case and the harness searches     *)
(* them for one that explains the real result.                               *)
(*                                                                         *)
(* IMPL (what the code does, read from processing.find_replace /             *)
(* core.format_template / processing._do_rewrite): bindings are pasted into   *)
(* the template as TEXT and the instantiated template is pasted over the     *)
(* match as TEXT - no parentheses are added.  The model knows operator       *)
(* precedence well enough to say when that changes the tree (Sensitive).     *)
(***************************************************************************)
EXTENDS Integers, Sequences, FiniteSets, TLC, SequencesExt, Json

CONSTANTS StmtKinds, Patterns, Repls, Binds, Counts, MaxStmts

\* matches a statement kind contributes for pattern "callf": <<depth, ignored>>; depth 0 = outermost
MatchesIn(kind) ==
    CASE kind \in {"m", "am", "arg", "neg", "att", "ml", "blk", "blk2"} -> {[d |-> 0, ig |-> FALSE, k |-> 1]}
      [] kind = "mm" -> {[d |-> 0, ig |-> FALSE, k |-> 1], [d |-> 1, ig |-> FALSE, k |-> 1]}
      [] kind = "two" -> {[d |-> 0, ig |-> FALSE, k |-> 1], [d |-> 0, ig |-> FALSE, k |-> 2]}
      [] kind \in {"ig", "igml", "igend"} -> {[d |-> 0, ig |-> TRUE, k |-> 1]}
      [] OTHER -> {}

\* all matches of the case: [s |-> statement index, d |-> depth, k |-> which one on the line, ig, to |-> last statement]
Matches(c) ==
    CASE c.pat = "callf" -> UNION {{[s |-> i, to |-> i, d |-> m.d, k |-> m.k, ig |-> m.ig] : m \in MatchesIn(c.stmts[i])} : i \in 1..Len(c.stmts)}
      [] c.pat = "seq" -> {[s |-> i, to |-> i + 1, d |-> 0, k |-> 1, ig |-> FALSE] :
                              i \in {j \in 1..(Len(c.stmts) - 1) : c.stmts[j] = "m" /\ c.stmts[j + 1] = "n"}}
      [] OTHER -> {}

Overlap(a, b) == a # b /\ a.s <= b.to /\ b.s <= a.to /\ (a.k = b.k \/ a.to > a.s \/ b.to > b.s)
Eligible(c) == {m \in Matches(c) : ~m.ig}
NonOverlapping(S) == \A a, b \in S : ~Overlap(a, b)
Maximal(c, S) == \A m \in Eligible(c) \ S : \E a \in S : Overlap(a, m)

Admissible(c, S) ==
    /\ S \subseteq Eligible(c)
    /\ NonOverlapping(S)
    /\ (c.count > 0 => Cardinality(S) <= c.count)
    /\ (c.count = 0 => Maximal(c, S))
AdmissibleSets(c) == {S \in SUBSET Matches(c) : Admissible(c, S)}

\* what the implementation yields first: the outermost matches in source order, at most `count`
Order(a, b) == a.s < b.s \/ (a.s = b.s /\ (a.d < b.d \/ (a.d = b.d /\ a.k < b.k)))
\* greedy: walk the matches in order, keep one if it overlaps none kept so far; the count limits what is YIELDED
YieldedSeq(c) == LET all == SetToSortSeq(Eligible(c), Order)
                 IN IF c.count > 0 /\ Len(all) > c.count THEN SubSeq(all, 1, c.count) ELSE all
RECURSIVE Keep(_, _)
Keep(seq, kept) == IF seq = <<>> THEN kept
                   ELSE Keep(Tail(seq), IF \E a \in kept : Overlap(a, Head(seq)) THEN kept ELSE kept \cup {Head(seq)})
Greedy(c) == Keep(YieldedSeq(c), {})

-----------------------------------------------------------------------------
(* precedence: what a textual splice needs                                  *)
Prec(e) == CASE e \in {"atom", "call"} -> 4 [] e = "unary" -> 3 [] e = "mul" -> 2 [] e = "sum" -> 1
TopOf(repl) == CASE repl \in {"const", "one", "twice", "self", "k2", "ifstmt"} -> "call" [] repl = "sum" -> "sum" [] repl = "mul" -> "mul" [] repl = "neg" -> "unary"
\* the precedence a replacement must have not to need parentheses where the match stood
Required(kind) == CASE kind = "am" -> 2 [] kind = "neg" -> 3 [] kind = "att" -> 4 [] OTHER -> 0
\* the precedence a binding must have not to need parentheses where the template uses it
Operand(repl) == CASE repl = "mul" -> 2 [] repl = "neg" -> 3 [] repl = "sum" -> 1 [] OTHER -> 0
\* the value bound to x by a match: the inner match of "mm" binds V, the outer one binds the call f(V)
Bound(c, m) == IF c.stmts[m.s] = "mm" /\ m.d = 0 THEN "call" ELSE c.bind

SensitiveMatch(c, m) ==
    \/ Prec(TopOf(c.repl)) < Required(c.stmts[m.s])
    \/ Prec(Bound(c, m)) < Operand(c.repl)
Sensitive(c, S) == c.pat = "callf" /\ \E m \in S : SensitiveMatch(c, m)

-----------------------------------------------------------------------------
Cases == [stmts : UNION {[1..n -> StmtKinds] : n \in 1..MaxStmts}, pat : Patterns, repl : Repls, bind : Binds, count : Counts]
Sensible(c) == /\ (c.pat = "seq" => c.repl \in {"k2", "self", "const"})
               /\ (c.pat # "seq" => c.repl # "k2")
               /\ (c.pat = "absent" => c.repl = "one" /\ c.bind = "atom")
               /\ (c.repl = "ifstmt" => \A i \in 1..Len(c.stmts) : c.stmts[i] \in {"m", "ml", "blk", "blk2", "ig", "igml", "igend", "n"})

VARIABLE c
Init == c \in {x \in Cases : Sensible(x)}
Next == UNCHANGED c
Spec == Init /\ [][Next]_c

\* sanity of the model: the greedy set of the implementation is admissible whenever nothing is yielded twice over
GreedyAdmissible == Admissible(c, Greedy(c)) \/ (c.count > 0)
\* with a count the yielded prefix may lose members to overlap; it is then still within the bound and not empty
GreedyBounded == (c.count > 0 /\ Eligible(c) # {}) => (Greedy(c) # {} /\ Cardinality(Greedy(c)) <= c.count /\ NonOverlapping(Greedy(c)))

MatchList(S) == SetToSortSeq(S, Order)
Dump == PrintT(<<"@@J", ToJson([case |-> c, matches |-> MatchList(Matches(c)),
                                 admissible |-> SetToSeq({MatchList(S) : S \in AdmissibleSets(c)}),
                                 sensitive_sets |-> SetToSeq({MatchList(S) : S \in {T \in AdmissibleSets(c) : Sensitive(c, T)}}),
                                 greedy |-> MatchList(Greedy(c)), sensitive |-> Sensitive(c, Greedy(c)),
                                 sensitive_any |-> (\E S \in AdmissibleSets(c) : Sensitive(c, S))])>>)
=============================================================================
