"""C20 - opt-out comments are honoured.

* every physical line of rule-firing programs is annotated with `# pyrefact: ignore` (one line at a time;
  pairs in the thorough tier); the recorded format_code run is validated by TLC against PipelineTrace.tla
  (clause FinalIgnored: the annotated lines occur verbatim, same multiplicity and order, in the output);
  the stage that first touches the line is reported, with the back-end (scheduled rewrite / direct edit);
* skip-file comments: clause SkipIsIdentity for format_code; format_file (bytes and mtime); --from-stdin;
* Scheduler.tla scenarios with ignored lines replayed through processing.fix / chain (IgnoredUntouched).
"""
from __future__ import annotations

import io
import os
import random
import shutil
import subprocess
import sys
import tempfile
import tokenize
from pathlib import Path
from typing import List

import corpus
import pipecheck
import proj
import shapes
from common import Report, import_pyrefact, tier, seed, REPO
from tlc import MachineryError, run_tlc

PROP = "C20"
MARK = "  # pyrefact: ignore"


MULTILINE_DICT = '{\n        "host": "localhost-of-the-primary-database",\n        "port": 5432,\n        "name": "primary",\n    }'
DIRECT_EDIT_PROGRAMS = {
    # abstractions.overused_constant: a long literal used five times or more is given a name, all uses are replaced
    "overused_string": (
        "import os\n\n\ndef exists():\n    return os.path.exists(\"/srv/application/data/current/index.db\")\n\n\n"
        "def size():\n    return len(\"/srv/application/data/current/index.db\")\n\n\n"
        "def parts():\n    for part in \"/srv/application/data/current/index.db\".split(\"/\"):\n        if part:\n"
        "            print(part, \"/srv/application/data/current/index.db\".count(part))\n\n\n"
        "def shown():\n    return repr(\"/srv/application/data/current/index.db\")\n\n\n"
        "def upper():\n    return \"/srv/application/data/current/index.db\".upper()\n\n\n"
        "print(exists(), size(), shown(), upper())\nparts()\n"),
    "overused_tuple": (
        "def known(value):\n    return value in (\"north\", \"south\", \"east\", \"west\")\n\n\n"
        "def unknown(value):\n    return value not in (\"north\", \"south\", \"east\", \"west\")\n\n\n"
        "def count(values):\n    total = 0\n    for value in values:\n        if value:\n"
        "            total += (\"north\", \"south\", \"east\", \"west\").count(value)\n    return total\n\n\n"
        "def first():\n    return (\"north\", \"south\", \"east\", \"west\")[0]\n\n\n"
        "def width():\n    return len((\"north\", \"south\", \"east\", \"west\"))\n\n\n"
        "print(known(\"east\"), unknown(\"up\"), count([\"west\", \"\"]), first(), width())\n"),
    # the same with a literal that spans several physical lines: a comment may sit on ANY line of a use (first, inner, last)
    "overused_multiline_dict": "".join(
        f"def use{i}(key):\n    return MULTI.get(key, {i})\n\n\n".replace("MULTI", MULTILINE_DICT) for i in range(5))
        + "print(use0(\"host\"), use1(\"port\"), use2(\"name\"), use3(\"host\"), use4(\"port\"))\n",
    "unsorted_multiline_import": ("from os.path import (\n    join,\n    basename,\n    dirname,\n)\nimport sys\n\n\n"
                                  "print(join(\"a\", \"b\"), basename(\"/x/y\"), dirname(\"/x/y\"), sys.maxsize > 0)\n"),
}


def annotatable_lines(text: str) -> List[int]:
    """0-based indices of physical lines to which a trailing comment can be appended without changing the program."""
    lines = text.split("\n")          # the lines annotate() numbers (str.splitlines also splits at form feeds and unicode separators)
    if lines and lines[-1] == "":
        lines.pop()
    bad = set()
    try:
        toks = list(tokenize.generate_tokens(io.StringIO(text).readline))
    except (tokenize.TokenError, IndentationError, SyntaxError):
        return []
    for tok in toks:
        if tok.type in (tokenize.STRING, getattr(tokenize, "FSTRING_START", -1), getattr(tokenize, "FSTRING_MIDDLE", -1),
                        getattr(tokenize, "FSTRING_END", -1)) and tok.start[0] != tok.end[0]:
            for ln in range(tok.start[0], tok.end[0]):      # all but the last line of a multi-line string
                bad.add(ln - 1)
        if tok.type == getattr(tokenize, "FSTRING_MIDDLE", -1) or tok.type == getattr(tokenize, "FSTRING_START", -1):
            # inside an f-string that spans lines: be conservative
            pass
    # f-strings spanning lines: mark every line between FSTRING_START and FSTRING_END
    start = None
    for tok in toks:
        if tok.type == getattr(tokenize, "FSTRING_START", -1) and start is None:
            start = tok.start[0]
        if tok.type == getattr(tokenize, "FSTRING_END", -1) and start is not None:
            for ln in range(start, tok.end[0]):
                bad.add(ln - 1)
            start = None
    out = []
    for i, line in enumerate(lines):
        if i in bad or not line.strip() or line.rstrip().endswith("\\") or "pyrefact:" in line:
            continue
        if any(ord(ch) in (0x0b, 0x0c, 0x1c, 0x1d, 0x1e, 0x85, 0x2028, 0x2029) for ch in line) or "\r" in line:
            continue
        out.append(i)
    return out


def annotate(text: str, idxs) -> str:
    lines = text.split("\n")
    for i in idxs:
        lines[i] = lines[i].rstrip() + MARK
    return "\n".join(lines)


def skip_file_cases(rep: Report, mods, rng: random.Random, t: str) -> int:
    main = mods["main"]
    snippets = [s for _, s in corpus.repo_snippets()]
    progs = rng.sample(snippets, 40 if t == "quick" else 300)
    n = 0
    tmp = tempfile.mkdtemp(prefix="verif-c20-")
    try:
        stdin_done = 0
        for k, text in enumerate(progs):
            lines = text.split("\n")
            for where in ("first", "middle", "last"):
                pos = {"first": 0, "middle": len(lines) // 2, "last": len(lines)}[where]
                src = "\n".join(lines[:pos] + ["# pyrefact: skip_file"] + lines[pos:])
                if k % 2:
                    # what the normalisation steps in front of the rules would touch: tabs, trailing blanks (inside a
                    # string they are data), runs of blank lines, CRLF, no final newline
                    src += ["\n\n\n\n\nif True:\n\tnote = \"\"\"kept   \n\tas\tis  \"\"\"   \n", "\r\nvalue = 1  \r\n", "\n\n\n\n# end",
                            "\n\tx = 1\n"][k // 2 % 4]
                n += 1
                try:
                    out = main.format_code(src)
                except Exception as exc:
                    rep.violation(f"format_code raised {exc!r} on a skip_file input", {"source": src})
                    continue
                if out != src:
                    rep.violation(f"format_code changed a file carrying a skip_file comment ({where} line)",
                                  {"source": src, "output": out})
                path = Path(tmp) / f"skip_{k}_{where}.py"
                path.write_bytes(src.encode("utf-8"))
                os.utime(path, ns=(10 ** 18, 10 ** 18))
                try:
                    main.format_file(path)
                except Exception as exc:
                    rep.violation(f"format_file raised {exc!r} on a skip_file input", {"source": src})
                    continue
                if path.read_bytes() != src.encode("utf-8") or os.stat(path).st_mtime_ns != 10 ** 18:
                    rep.violation(f"format_file rewrote a file carrying a skip_file comment ({where} line)",
                                  {"source": src, "file_after": path.read_text()})
                # (text-mode pipes translate CRLF on both sides: such inputs are not sent through stdin)
                if stdin_done < (6 if t == "quick" else 40) and where == "middle" and "\r" not in src:
                    stdin_done += 1
                    n += 1
                    env = dict(os.environ, PYTHONPATH=str(REPO))
                    p = subprocess.run([sys.executable, "-m", "pyrefact", "--from-stdin"], input=src, capture_output=True,
                                       text=True, timeout=120, env=env, cwd=tmp)
                    if p.returncode != 0 or p.stdout not in (src, src + "\n"):
                        rep.violation("--from-stdin did not echo a skip_file input unchanged",
                                      {"source": src, "stdout": p.stdout, "stderr": p.stderr[-500:], "rc": p.returncode})
    finally:
        shutil.rmtree(tmp, ignore_errors=True)
    return n


def scheduler_cases(rep: Report, mods, t: str) -> int:
    import c10
    n = 0
    for layout, consts in ((c10.Layout("list", 2, 2), dict(payloads=[0, 2], explicit=[7], ignore_sets=[[0], [1], [0, 1]], max_yields=2, ngroups=2)),
                           (c10.Layout("stmt", 2), dict(payloads=[0, 2, 3], explicit=[7], ignore_sets=[[0], [1]], max_yields=2, ngroups=1))):
        mc, cfg = c10.cfg_for2(layout, invariants=["IgnoredUntouched", "DropJustified", "Dump"], **consts)
        res = run_tlc("SchedMC", cfg, generated_files={"SchedMC.tla": mc}, timeout_s=1800, keep_stdout=False)
        rep.add_tlc(res, f"Scheduler scenarios with ignored lines ({layout.mode})")
        if res.violated:
            rep.violation(f"Scheduler.tla: {res.violated} fails", {"trace": res.error_trace})
            continue
        rp = c10.Replayer(mods, layout)
        recs = res.records
        if t == "quick" and len(recs) > 12000:
            recs = recs[::3]
        for rec in recs:
            ignored_lines = {layout.lines.index(tuple(r)) for r in rec["ignored"]}
            for entry in (["fix"] if max([y["g"] for y in rec["yields"]] + [1]) == 1 else ["chain"]):
                n += 1
                try:
                    source, out, _, _, _ = rp.run(rec, entry)
                except Exception:
                    continue          # C10 / C04
                for l in ignored_lines:
                    line = "".join(layout.unit_text(u, ignored_lines) for u in range(layout.lines[l][0] + 1, layout.lines[l][1] + 1))
                    if line.rstrip("\n") not in out.split("\n"):
                        rep.violation(f"a scheduled rewrite touched a line carrying an ignore comment ({entry})",
                                      {"scenario": rec, "source": source, "output": out, "ignored_line": line})
    return n


def main(argv=None) -> int:
    rep = Report(PROP, "model_checking")
    mods = import_pyrefact()
    t = tier()
    rng = random.Random(seed())
    n_sched = scheduler_cases(rep, mods, t)
    n_skip = skip_file_cases(rep, mods, rng, t)

    # programs on which rules fire: repository snippets and Shapes cases
    snippets = list(corpus.repo_snippets())
    progs = [(o, s) for o, s in snippets]
    progs = rng.sample(progs, 220 if t == "quick" else len(progs))
    for case in shapes.shape_cases(rep, t):
        if case["pos"] in ("only", "in_def") and case["nl"] and not case["opt"][0]:
            src, _ = shapes.render_case(case)
            progs.append((f"shape:{case['c']}:{case['pos']}", src))
    # rules of the direct editor that only fire on larger programs: every line gets its turn in both tiers
    always_all = set()
    for name, text in DIRECT_EDIT_PROGRAMS.items():
        progs.append((f"direct:{name}", text))
        always_all.add(f"direct:{name}")
    items = []
    for origin, text in progs:
        idxs = annotatable_lines(text)
        if not idxs:
            continue
        pick = idxs if (t != "quick" or origin in always_all) else rng.sample(idxs, min(5, len(idxs)))
        for i in pick:
            items.append((f"{origin}@line{i + 1}", annotate(text, [i]), {}))
        if t != "quick" and len(idxs) >= 2:
            for _ in range(3):
                a, b = sorted(rng.sample(idxs, 2))
                items.append((f"{origin}@lines{a + 1},{b + 1}", annotate(text, [a, b]), {}))
    # the annotated text must still parse exactly when the original did (otherwise the annotation is at fault)
    items = [it for it in items if proj.valid(it[1])]
    runs = pipecheck.run_and_validate(rep, items, want=("ignored",), label="C20 annotated programs",
                                      timeout=60 if t == "quick" else 180)
    nontrivial = 0
    for r in runs:
        if r.result is None:
            continue
        if r.result != r.source:
            nontrivial += 1
        if "FinalIgnored" not in r.verdict["bad"]:
            continue
        want = proj.ignored_lines(r.source)
        stage, s_in, s_out = "format_code", r.source, r.result
        cur = r.source
        for ev in r.events:
            if "marker" in ev or ev.get("raised"):
                continue
            if ev["before"] != cur and proj.ignored_lines(ev["before"]) != want:
                stage, s_in, s_out = "normalisation (expandtabs / dedent)", cur, ev["before"]
                break
            if ev["changed"] and proj.ignored_lines(ev["after"]) != want:
                stage, s_in, s_out = ev["stage"], ev["before"], ev["after"]
                break
            cur = ev["after"]
        kf, sh = pipecheck.known_by_signature(rep, stage, s_in, s_out, r.source)
        case = {"input_id": r.key, "source": r.source, "result": r.result, "annotated_lines": want,
                "annotated_lines_in_output": proj.ignored_lines(r.result), "stage": stage, "stage_input": s_in,
                "stage_output": s_out, "shape": sh}
        if kf:
            rep.known(kf, {"input_id": r.key, "stage": stage, "line": want})
            continue
        rep.violation(f"line {want} carrying an ignore comment was rewritten/moved/deleted by {stage}; input {r.key}", case)
    rep.coverage["evaluations"] = len(runs) + n_skip + n_sched
    rep.coverage["distinct_nontrivial"] = nontrivial
    rep.coverage["traces_validated_against_impl"] = len(runs)
    rep.coverage["scheduler_scenarios_with_ignored_lines"] = n_sched
    rep.coverage["skip_file_cases"] = n_skip
    rep.coverage["rule"] = ("every annotatable physical line (one at a time; pairs in thorough) of repository snippets and Shapes cases gets "
                            "the documented ignore comment; one recorded format_code run each; non-trivial = the run changed the text. "
                            "Plus skip_file comments at first/middle/last line through format_code, format_file and --from-stdin, and "
                            "Scheduler.tla scenarios with ignored lines through fix/chain")
    if items:
        rep.sample({"input_id": items[0][0], "annotated_program": items[0][1][:400]})
    rep.assumptions += ["only the documented spelling '# pyrefact: ignore' / '# pyrefact: skip_file' is asserted",
                        "trailing blanks of an annotated line are not part of 'verbatim'",
                        "stdin mode may append one newline (print)"]
    return rep.finish()


if __name__ == "__main__":
    sys.exit(main())
