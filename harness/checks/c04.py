"""C04 - the formatter is total: it never raises and always terminates.

Design level: spec/Pipeline.tla (TLC: termination under fairness, budget, exit on first repeat for EVERY
abstract rule set).  Code level: every format_code run over the input spaces below is recorded and validated
by TLC against spec/PipelineTrace.tla (clauses Returns, Budget, ExitOnRepeat, LoopExitUnjustified,
InvalidHandedBack, BlankHandedBack); runs are killed at a wall-clock limit (Returns fails then).
"""
from __future__ import annotations

import random
import sys
import textwrap
from typing import Dict, List, Tuple

import corpus
import ptrace
import shapes
from common import Report, import_pyrefact, tier, seed
from tlc import MachineryError, run_tlc

PROP = "C04"
CLAUSES = {"Returns", "Budget", "ExitOnRepeat", "LoopExitUnjustified", "InvalidHandedBack", "BlankHandedBack",
           "SkipIsIdentity"}

JUNK = ["", " ", "\n", "\t", "\n\n\n", "#", "# only a comment\n", "\\", "(", ")", "'", '"""', "x = (\n", "def f(:\n", "1 +",
        "x = 1\n  y = 2\n", "\ufeffx = 1\n", "x = 'é\u2028'\n", "if x:\nprint(1)\n", "return 1\n", "    return 1\n",
        "lambda: (yield)\n", "class A: pass\nclass A: pass\n", "x\n" * 50, "print(1);" * 30 + "\n", "a = [\n" + "1,\n" * 40 + "]\n",
        "\x0c\n", "x = 1 \\\n\n", "async def f():\n    await x\n", "0" * 5000 + "\n", "x = " + "(" * 60 + "1" + ")" * 60 + "\n",
        "print(" + " + ".join(["1"] * 400) + ")\n", "def f():\n" + "".join(f"    x{i} = {i}\n" for i in range(60)) + "    return x1\n",
        "x = 9 ** 9 ** 2\nif 2 ** 64 > 1:\n    print(x)\n", "while True:\n    pass\n", "for x in ():\n    pass\n",
        "if True:\n    pass\nelse:\n    pass\n", "try:\n    pass\nfinally:\n    pass\n", "with a:\n    pass\n", "match x:\n    case _:\n        pass\n"]


# constant expressions whose value is too expensive to compute: the formatter must leave them alone, not evaluate them
HUGE = ["9 ** 9 ** 9", "10 ** 10 ** 10", "1 << 10 ** 10", '"a" * 10 ** 10', "[0] * 10 ** 10", "(9).__pow__(9 ** 9)", "pow(9, 9 ** 9)",
        "sum(range(10 ** 10))", "len(list(range(10 ** 10)))", "sorted(range(10 ** 10))", '"a".zfill(10 ** 10)', '"a".center(10 ** 10)',
        "bytes(10 ** 10)", '"%09999999999d" % 1', 'format(1, ">9999999999")', '"{:>{}}".format(1, 10 ** 10)', '"%*d" % (10 ** 10, 1)',
        '(1).__format__(">9999999999")', "9.0 ** 9 ** 9", "-(9 ** 9 ** 9)", "9 ** 9 ** 9 > 1", "not 9 ** 9 ** 9", "2 ** 2 ** 2 ** 2 ** 2 ** 2",
        "(2 ** 4000) ** 4000", '"\\t".expandtabs(10 ** 10)', "max(range(10 ** 10))", "any(x for x in range(10 ** 10))", "(1).to_bytes(10 ** 10, 'big')"]
HUGE_FRAMES = ["if {E}:\n    print(1)\n", "print(1 if {E} else 2)\n", "while {E}:\n    break\n", "def f():\n    assert {E}\n    return 1\n",
               "x = {E} and 1\n", "print([y for y in range(3) if {E}])\n", "def g(v):\n    if v:\n        return {E}\n    return 0\n",
               "if {E} or unknown():\n    print(1)\nelse:\n    print(2)\n"]


def crash_known(rep: Report, stage: str, error: str, source: str):
    """Id of the listed finding (class crash-signature) that covers this crash, if any."""
    import re
    for e in rep.known_entries():
        cls = e.get("class", {})
        if not isinstance(cls, dict) or cls.get("kind") != "crash-signature":
            continue
        if cls.get("stage") and cls["stage"] != stage:
            continue
        if cls.get("error") and not re.search(cls["error"], error):
            continue
        if cls.get("input") and not re.search(cls["input"], source):
            continue
        return e["id"]
    return None


def design_model(rep: Report, t: str):
    consts = (2, 3, "{1, 2, 3}") if t == "quick" else (2, 4, "{1, 2, 3}")
    cfg = "\n".join(["CONSTANTS", f"  NRules = {consts[0]}", f"  MaxPasses = {consts[1]}", f"  Docs = {consts[2]}",
                     "SPECIFICATION Spec", "INVARIANT BudgetInv", "INVARIANT ExitInv", "INVARIANT TotalPasses",
                     "INVARIANT RepeatMeansCycle", "PROPERTY Terminates", "PROPERTY HistoryMonotone",
                     "CHECK_DEADLOCK FALSE", ""])
    res = run_tlc("Pipeline", cfg, timeout_s=3000, keep_stdout=False, coverage=False)
    rep.add_tlc(res, "Pipeline design model (all abstract rule sets)")
    if res.violated:
        rep.violation(f"Pipeline.tla: {res.violated} fails - the loop structure itself does not guarantee C04",
                      {"trace": res.error_trace})


def inputs(rep: Report, t: str, rng: random.Random) -> List[Tuple[str, str, dict]]:
    items: List[Tuple[str, str, dict]] = []
    for case in shapes.shape_cases(rep, t):
        src, opts = shapes.render_case(case)
        items.append((f"shape:{case['c']}:{case['pos']}:{'nl' if case['nl'] else 'nonl'}:{case['opt']}", src, opts))
    # the same shapes followed by lines whose characters take 2-4 bytes: offsets computed from byte columns of one line
    # must not be applied to another
    tails = ["# \u65e5\u672c\u8a9e\u306e\u30b3\u30e1\u30f3\u30c8\u3067\u3059\u3002\u65e5\u672c\u8a9e\u306e\u30b3\u30e1\u30f3\u30c8\n",
             "s='\u20acuro\u20ac\u20ac \U0001F600\U0001F600'\n", "\u00e9t\u00e9 = '\u00e9'  # \u00e9\u00e9\u00e9\u00e9\u00e9\u00e9\u00e9\u00e9\u00e9\u00e9\n"]
    shaped = [it for it in items if it[0].split(":")[2] in ("in_def", "in_loop", "tail_of_if", "in_class", "only") and it[0].split(":")[3] == "nl"]
    for key, src, opts in (shaped if t != "quick" else rng.sample(shaped, min(400, len(shaped)))):
        items.append((key + ":nonascii-tail", src + rng.choice(tails), opts))
    snippets = list(corpus.repo_snippets())
    for origin, text in snippets:
        items.append((f"snippet:{origin}", text, {}))
    import ast as _ast
    for origin, text in (snippets if t != "quick" else rng.sample(snippets, 350)):
        if not (text.endswith("\n") and text.isascii()):
            continue
        items.append((f"snippet-nonascii-tail:{origin}", text + rng.choice(tails), {}))
        # ... and directly behind an indented block (the line an insertion after that block is computed from)
        try:
            body = _ast.parse(text).body
        except SyntaxError:
            continue
        lines = text.splitlines(keepends=True)
        ends = [st.end_lineno for st in body if hasattr(st, "body") and st.end_lineno < len(lines)]
        for end in rng.sample(ends, min(2, len(ends))):
            items.append((f"snippet-nonascii-after-block:{origin}:{end}", "".join(lines[:end]) + rng.choice(tails) + "".join(lines[end:]), {}))
    # every construct as the LAST statement of a function, the next line being a column-0 line with multi-byte characters
    for name, (need, text) in sorted(shapes.CATALOGUE.items()):
        if need not in ("none", "def"):
            continue
        for ti, tail in enumerate(tails):
            src = "def enclosing(cond=True, flag=False):\n" + textwrap.indent(text, "    ") + "\n" + tail + "print(enclosing())\n"
            items.append((f"shape:{name}:last_in_def_then_nonascii:{ti}", src, {}))
    extra = snippets if t != "quick" else rng.sample(snippets, 250)
    for origin, text in extra:
        items.append((f"snippet-safe:{origin}", text, {"safe": True, "keep_imports": True}))
        # the same text as an indented fragment, without trailing newline, and truncated (usually invalid)
    for origin, text in (snippets if t != "quick" else rng.sample(snippets, 200)):
        items.append((f"snippet-fragment:{origin}", textwrap.indent(text, "    "), {}))
        items.append((f"snippet-nonl:{origin}", text.rstrip("\n"), {}))
        cut = rng.randrange(1, max(2, len(text)))
        items.append((f"snippet-trunc:{origin}:{cut}", text[:cut], {}))
    for i, j in enumerate(JUNK):
        items.append((f"junk:{i}", j, {}))
        items.append((f"junk-safe:{i}", j, {"safe": True}))
    for i, e in enumerate(HUGE):
        for j, frame in enumerate(HUGE_FRAMES):
            items.append((f"huge:{i}:{j}", frame.replace("{E}", e), {}))
    import crossfeed
    items += crossfeed.inputs(rep, t, rng, per_space=120 if t == "quick" else 1500)
    std = list(corpus.stdlib_files(max_lines=150 if t == "quick" else 400))
    n_std = 30 if t == "quick" else 300
    for origin, text in rng.sample(std, min(n_std, len(std))):
        items.append((origin, text, {"safe": True}))
    return items


def main(argv=None) -> int:
    rep = Report(PROP, "model_checking")
    mods = import_pyrefact()
    t = tier()
    rng = random.Random(seed())
    design_model(rep, t)
    consts = ptrace.code_constants(mods)
    items = inputs(rep, t, rng)
    limit = 60.0 if t == "quick" else 180.0
    runs = ptrace.run_traced(items, timeout=limit)
    traces, by_id = [], {}
    for i, (key, source, opts, res, err, evs) in enumerate(runs, start=1):
        tr = ptrace.build_trace(i, source, {k: v for k, v in opts.items() if k != "preserve"}, res, err, evs, consts)
        traces.append(tr)
        by_id[i] = (key, source, opts, res, err, tr)
    verdicts = ptrace.validate(rep, traces, consts, "C04 inputs")
    lost = 0
    changed = 0
    for i, v in verdicts.items():
        key, source, opts, res, err, tr = by_id[i]
        if res is not None and res != source:
            changed += 1
        if v["lost"]:
            lost += 1
        bad = {c: p for c, p in v["bad"].items() if c in CLAUSES}
        if not bad:
            continue
        opts_j = {k: (sorted(x) if isinstance(x, (set, frozenset)) else x) for k, x in opts.items()}
        case = {"input_id": key, "source": source, "options": opts_j, "error": err, "raised_in_stage": tr["raised_stage"],
                "clauses": bad}
        what = ", ".join(sorted(bad))
        if "Returns" in bad:
            what = f"format_code did not return: {err} (stage {tr['raised_stage'] or '?'})"
            kf = crash_known(rep, tr["raised_stage"], err or "", source)
            if kf and set(bad) == {"Returns"}:
                rep.known(kf, {"input_id": key, "error": err, "stage": tr["raised_stage"]})
                continue
        rep.violation(f"{what}; input {key}", case)
    rep.coverage["evaluations"] = len(runs)
    rep.coverage["distinct_nontrivial"] = changed
    rep.coverage["traces_validated_against_impl"] = len(verdicts)
    rep.coverage["control_structure_lost"] = lost
    rep.coverage["pipeline_constants_from_code"] = {k: v for k, v in consts.items() if k != "multi"}
    rep.coverage["per_call_time_limit_s"] = limit
    rep.coverage["rule"] = (
        "inputs: every Shapes.tla case (construct catalogue x position x trailing newline x options), every example "
        "snippet of the repository (plain, safe, as indented fragment, without trailing newline, truncated), junk strings, "
        "a seeded sample of standard-library modules, and a seeded sample of the program spaces of the other properties' generator specs "
        "(Rename, Effects, Surface, Alpha, Subst, Geometry, Imports); one recorded format_code run each; non-trivial = the run changed the text")
    for key, source, opts, res, err, tr in list(by_id.values())[:: max(1, len(by_id) // 3)][:3]:
        rep.sample({"input_id": key, "source": source[:300], "events": [(e["k"], e["s"], e["n"]) for e in tr["ev"]][:30]})
    rep.assumptions += ["bounded time is judged with a wall-clock limit per call in a killable worker",
                        "the rule sequence, MAX_FILE_PASSES and the abstraction stages are read from main.py on every run"]
    if lost:
        rep.notes.append(f"{lost} traces left the modelled control structure (stage order differs from PipelineCore.tla); "
                         "loop clauses were not evaluated for them")
    return rep.finish()


if __name__ == "__main__":
    sys.exit(main())
