"""C06 - results are deterministic across processes, hash seeds and worker schedules.

(a) Pool.tla: format_files as module passes over a pool of workers whose file operations interleave.  TLC
    explores every interleaving: ParEqSeq (final tree and report = the sequential run) is an invariant when no
    task reads a file that the same pass rewrites, and TLC produces the racing schedules when one does.
(b) binding A: every terminal state of the model comes with a witness schedule (the schedule is hidden from
    TLC's VIEW; assignment of tasks to workers, completion order and everything read are not).  Each witness is
    replayed into the REAL format_files through ctlpool.ControlledPool (real forked workers stopped at every file
    open).  The executed log is then interpreted with the model's semantics, the abstract formatter replaced by
    the real format_file run in isolation: the real final tree, the per-task results and the return value
    must be what that interpretation predicts, and must equal the sequential run.
(c) the real multiprocessing pool: n_cores 1..16, shuffled / duplicated file lists, 1 and 5 module passes.
(d) hash seeds: format_code in fresh interpreters under different PYTHONHASHSEED values and heap layouts.
"""
from __future__ import annotations

import json
import multiprocessing as mp
import os
import random
import shutil
import subprocess
import sys
import tempfile
import textwrap
import time
from pathlib import Path
from typing import Dict, List, Optional, Tuple

import corpus
import ctlpool
from common import Report, import_pyrefact, tier, seed, digest, REPO, VERIF
from tlc import MachineryError, run_tlc

PROP = "C06"

# ------------------------------------------------------------------------------------------ concrete trees
STABLE = '"""Settled module."""\n\n\ndef settled(a, b):\n    return a + b\n\n\nprint(settled(1, 2))\n'
ONE_STEP = 'import os, sys\n\n\ndef fetch( path ):\n    if os.path.exists( path ):\n        return sys.intern( path )\n    else:\n        return None\n\n\nprint(fetch("x"))\n'

TWIN = "import os, sys\nimport json\n\n\ndef value( ):\n    return json.dumps( 1 )\n\n\nprint(value())\n"
A_CLIENT = "from b_lib import *\n\n\ndef run():\n    return helper(VALUE)\n\n\nprint(run())\n"
B_LIB = "VALUE = 3\n\n\ndef helper( v ):\n    return v+1\n\n\ndef unused_thing():\n    return 0\n"
C_OTHER = "import os, sys\n\n\ndef show( ):\n    print( os.sep, sys.maxsize )\n\n\nshow()\n"
A2_CLIENT = "from b2_mid import *\n\n\ndef run():\n    return deep(LIMIT)\n\n\nprint(run())\n"
B2_MID = "from c2_base import *\n\nEXTRA = 1\n\n\ndef mid( v ):\n    return deep( v )+EXTRA\n\n\nprint(mid(LIMIT))\n"
C2_BASE = "LIMIT = 3\n\n\ndef deep( v ):\n    return v*2\n\n\ndef unused_base():\n    return 0\n"


def two_step_texts(mods, want: int = 2) -> List[str]:
    """Example texts of the repository that need two applications of format_code to settle."""
    out = []
    for origin, text in corpus.repo_snippets():
        if not any(k in origin for k in ("undefine_unused", "early_continue", "move_before_loop", "merge_chained", "simplify_if_control")):
            continue
        cur, n = text, 0
        try:
            for _ in range(4):
                nxt = mods["main"].format_code(cur)
                if nxt == cur:
                    break
                cur, n = nxt, n + 1
        except Exception:
            continue
        if n == 2:
            out.append(text)
            if len(out) >= want:
                break
    return out


def templates(mods) -> List[dict]:
    two = two_step_texts(mods)
    if len(two) < 2:
        raise MachineryError("no example text needs two formatting passes any more: the multi-pass trees cannot be built")
    return [
        {"name": "one-folder", "files": {"m1_stable.py": STABLE, "m2_once.py": ONE_STEP, "m3_twice.py": two[0]}, "deps": {}, "passes": [1, 3]},
        {"name": "two-folders", "files": {"pkg_a/m1_once.py": ONE_STEP, "pkg_a/m2_stable.py": STABLE, "pkg_b/n1_twice.py": two[1],
                                           "pkg_b/n2_stable.py": STABLE.replace("settled", "steady")}, "deps": {}, "passes": [2, 5]},
        # an __init__.py (imports are kept there) and a module with the SAME text: results must not travel between tasks of a worker
        {"name": "init-twin", "files": {"pkg/__init__.py": TWIN, "pkg/twin.py": TWIN, "pkg/zz_other.py": ONE_STEP}, "deps": {}, "passes": [2]},
        {"name": "star-import", "files": {"a_client.py": A_CLIENT, "b_lib.py": B_LIB, "c_other.py": C_OTHER},
         "deps": {"a_client.py": ["b_lib.py"]}, "passes": [1]},
        {"name": "star-chain", "files": {"a2_client.py": A2_CLIENT, "b2_mid.py": B2_MID, "c2_base.py": C2_BASE},
         "deps": {"a2_client.py": ["b2_mid.py", "c2_base.py"], "b2_mid.py": ["c2_base.py"]}, "passes": [1]},
    ]


def write_tree(root: str, files: Dict[str, str]):
    for rel, text in files.items():
        p = Path(root, rel)
        p.parent.mkdir(parents=True, exist_ok=True)
        p.write_text(text, encoding="utf-8")


def read_tree(root: str, files) -> Dict[str, str]:
    return {rel: Path(root, rel).read_text(encoding="utf-8") for rel in files}


# ------------------------------------------------------------------------------------------ isolated formatting
def _child(fn, *args):
    """fn(*args) in a forked child (non-daemonic, so it may start pools itself); returns its result."""
    ctx = mp.get_context("fork")
    parent, child = ctx.Pipe()

    def run():
        try:
            child.send(("ok", fn(*args)))
        except BaseException as exc:  # noqa: BLE001
            import traceback
            child.send(("raised", f"{type(exc).__name__}: {exc}", traceback.format_exc()[-1500:]))

    p = ctx.Process(target=run)
    p.start()
    child.close()
    if not parent.poll(900):
        p.kill()
        raise MachineryError("isolated run did not finish")
    try:
        res = parent.recv()
    except EOFError:
        raise MachineryError("isolated run died")
    p.join(5)
    return res


def _format_file_isolated(mods, files: Dict[str, str], rel: str):
    """format_file(rel) in a scratch copy of the tree: (result, new text, files it opened)."""
    tmp = os.path.realpath(tempfile.mkdtemp(prefix="verif-c06-iso-"))
    try:
        write_tree(tmp, files)
        os.chdir(tmp)
        opened = []
        import builtins
        import io
        real = io.open

        def spy(file, mode="r", *a, **k):
            try:
                path = os.path.realpath(os.fspath(file))
                if path.startswith(tmp + os.sep) and path.endswith(".py"):
                    opened.append(os.path.relpath(path, tmp))
            except TypeError:
                pass
            return real(file, mode, *a, **k)
        builtins.open = io.open = spy
        try:
            try:
                r = ("ok", mods["main"].format_file(Path(tmp, rel)))
            except Exception as exc:  # noqa: BLE001
                r = ("raised", f"{type(exc).__name__}: {exc}")
        finally:
            builtins.open = io.open = real
        return r, Path(tmp, rel).read_text(encoding="utf-8"), opened
    finally:
        os.chdir("/")
        shutil.rmtree(tmp, ignore_errors=True)


class Iso:
    def __init__(self, mods, tpl):
        self.mods, self.tpl = mods, tpl
        self.memo: Dict[tuple, tuple] = {}

    def __call__(self, rel: str, own: str, obs: Dict[str, str]):
        key = (rel, own, tuple(sorted(obs.items())))
        if key not in self.memo:
            files = dict(self.tpl["files"])
            files[rel] = own
            files.update(obs)
            res = _child(_format_file_isolated, self.mods, files, rel)
            if res[0] != "ok":
                raise MachineryError(f"isolated format_file failed: {res[1:]}")
            self.memo[key] = res[1]
        return self.memo[key]


# ------------------------------------------------------------------------------------------ calibration -> model constants
def calibrate(mods, tpl) -> dict:
    """Fix[f] (own formatting steps until settled, other files as in the initial tree) and the files each task really opens."""
    iso = Iso(mods, tpl)
    rels = sorted(tpl["files"])
    fix, reads = {}, {}
    for rel in rels:
        cur, n = tpl["files"][rel], 0
        for _ in range(6):
            (status, _r), text, opened = iso(rel, cur, {})
            reads.setdefault(rel, set()).update(o for o in opened if o != rel)
            if text == cur:
                break
            cur, n = text, n + 1
        else:
            raise MachineryError(f"{tpl['name']}/{rel} does not settle within 6 isolated passes")
        fix[rel] = n
    for rel in rels:
        declared = set(tpl["deps"].get(rel, []))
        if reads.get(rel, set()) - declared:
            raise MachineryError(f"{tpl['name']}/{rel} opens {sorted(reads[rel] - declared)}, which the template does not declare as dependencies")
    return {"fix": fix, "iso": iso}


def model_config(tpl, cal, n_workers: int, max_passes: int, emit=True) -> Tuple[str, str]:
    rels = sorted(tpl["files"])
    idx = {rel: i + 1 for i, rel in enumerate(rels)}
    folders = sorted({str(Path(r).parent) for r in rels})
    fidx = {f: i + 1 for i, f in enumerate(folders)}
    folder_of = ", ".join(str(fidx[str(Path(r).parent)]) for r in rels)
    deps_of = ", ".join("{" + ", ".join(str(idx[d]) for d in tpl["deps"].get(r, [])) + "}" for r in rels)
    fix = ", ".join(str(cal["fix"][r]) for r in rels)
    mc = "\n".join(["---- MODULE PoolMC ----", "EXTENDS Pool", f"MC_FolderOf == <<{folder_of}>>", f"MC_DepsOf == <<{deps_of}>>",
                    f"MC_Fix == <<{fix}>>", "MC_Breaks == {}", "====", ""])
    invs = ["TypeOK", "OneWriter", "TruncatedOnlyWhileWriting", "NeverBreakValid", "PassBudget", "Settled", "ReachedFix"]
    if not tpl["deps"]:
        invs.append("ParEqSeq")
    invs.append("Terminal")
    cfg = "\n".join(["CONSTANTS", f"  NFiles = {len(rels)}", "  FolderOf <- MC_FolderOf", "  DepsOf <- MC_DepsOf", "  Fix <- MC_Fix",
                     "  Breaks <- MC_Breaks", f"  NWorkers = {n_workers}", f"  MaxPasses = {max_passes}",
                     f"  EmitTerminal = {'TRUE' if emit else 'FALSE'}", "INIT Init", "NEXT Next", "VIEW view",
                     *[f"INVARIANT {i}" for i in invs], "CHECK_DEADLOCK FALSE", ""])
    return mc, cfg


# ------------------------------------------------------------------------------------------ replay of one witness
def split_schedule(sched) -> List[List[Tuple[str, int]]]:
    passes: List[List[Tuple[str, int]]] = []
    for kind, w in sched:
        if kind == "pass":
            passes.append([])
        elif kind == "account":
            continue
        else:
            passes[-1].append((kind, w))
    return passes


def _controlled_run(mods, tpl, n_workers, max_passes, schedule, order_seed):
    tmp = os.path.realpath(tempfile.mkdtemp(prefix="verif-c06-run-"))
    try:
        write_tree(tmp, tpl["files"])
        os.chdir(tmp)
        log: dict = {}
        main = mods["main"]
        shim = ctlpool.MpShim(tmp, schedule, log)
        files = [Path(tmp, rel) for rel in tpl["files"]]
        random.Random(order_seed).shuffle(files)
        saved = main.mp
        main.mp = shim
        try:
            try:
                ret = ("ok", bool(main.format_files(files, n_cores=n_workers, max_passes=max_passes)))
            except ctlpool.ScheduleMismatch as exc:
                return {"machinery": str(exc), "log": log}
            except Exception as exc:  # noqa: BLE001
                ret = ("raised", f"{type(exc).__name__}: {exc}")
        finally:
            main.mp = saved
        return {"ret": ret, "tree": read_tree(tmp, tpl["files"]), "log": log, "pools": shim.pools}
    finally:
        os.chdir("/")
        shutil.rmtree(tmp, ignore_errors=True)


def _sequential_run(mods, tpl, max_passes):
    """The reference: the real format_files with one worker process and a sorted file list."""
    tmp = os.path.realpath(tempfile.mkdtemp(prefix="verif-c06-seq-"))
    try:
        write_tree(tmp, tpl["files"])
        os.chdir(tmp)
        files = sorted(Path(tmp, rel) for rel in tpl["files"])
        try:
            ret = ("ok", bool(mods["main"].format_files(files, n_cores=1, max_passes=max_passes)))
        except Exception as exc:  # noqa: BLE001
            ret = ("raised", f"{type(exc).__name__}: {exc}")
        return {"ret": ret, "tree": read_tree(tmp, tpl["files"])}
    finally:
        os.chdir("/")
        shutil.rmtree(tmp, ignore_errors=True)


def interpret(tpl, log, iso) -> dict:
    """Pool.tla's semantics over the executed log, the abstract Fmt replaced by the isolated real format_file."""
    disk = dict(tpl["files"])
    problems: List[str] = []
    folders = sorted({str(Path(r).parent) for r in tpl["files"]})
    changes_last = {f: False for f in folders}
    for pno, p in enumerate(log.get("passes", []), start=1):
        cur: Dict[int, dict] = {}
        res: Dict[str, bool] = {}
        for w, kind, rel, ack in p["events"]:
            if kind == "take":
                cur[w] = {"f": rel, "own": None, "obs": {}, "out": None}
                continue
            t = cur.get(w)
            if t is None:
                problems.append(f"pass {pno}: {kind} by idle worker {w}")
                continue
            if kind == "read":
                if ack != ctlpool._digest(disk[rel]):
                    problems.append(f"pass {pno}: worker {w} read {rel} and saw text the model's disk does not hold")
                if rel == t["f"] and t["own"] is None:
                    t["own"] = disk[rel]
                else:
                    t["obs"].setdefault(rel, disk[rel])
            elif kind in ("trunc", "write", "finish"):
                if t["own"] is None:
                    problems.append(f"pass {pno}: {kind} of {t['f']} before it was read")
                    t["own"] = disk[t["f"]]
                if t["out"] is None:
                    (status, r), text, _ = iso(t["f"], t["own"], t["obs"])
                    t["out"] = (bool(r) if status == "ok" else "raised", text)
                if kind == "trunc":
                    if not t["out"][0]:
                        problems.append(f"pass {pno}: {t['f']} is truncated although isolated formatting leaves it unchanged")
                    disk[t["f"]] = ""
                elif kind == "write":
                    disk[t["f"]] = t["out"][1]
                    if ack != ctlpool._digest(t["out"][1]):
                        problems.append(f"pass {pno}: the text written to {t['f']} is not what formatting it in isolation (same inputs) gives")
                else:
                    res[t["f"]] = t["out"][0]
                    if t["out"][0] and disk[t["f"]] != t["out"][1]:
                        problems.append(f"pass {pno}: {t['f']} finished without the write isolated formatting predicts")
                    del cur[w]
        for f in folders:
            changes_last[f] = any(res.get(rel, False) for rel in p["tasks"] if str(Path(rel).parent) == f)
    return {"disk": disk, "report": any(changes_last.values()), "problems": problems}


def _replay_slice(conn, tpl, cal_fix, jobs):
    """Runs in a non-daemonic child: may fork controlled pools."""
    try:
        mods = import_pyrefact()
        iso = Iso(mods, tpl)
        out = []
        for job in jobs:
            run = _controlled_run(mods, tpl, job["workers"], job["passes"], job["schedule"], job["order_seed"])
            if "machinery" in run:
                out.append({"job": job["id"], "machinery": run["machinery"]})
                continue
            exp = interpret(tpl, run["log"], iso)
            out.append({"job": job["id"], "ret": run["ret"], "tree": run["tree"], "log": run["log"], "expected": exp})
        conn.send(("ok", out))
    except BaseException as exc:  # noqa: BLE001
        import traceback
        conn.send(("raised", f"{type(exc).__name__}: {exc}\n{traceback.format_exc()[-1500:]}"))


def run_replays(tpl, cal, jobs, procs=12):
    ctx = mp.get_context("fork")
    slices = [jobs[i::procs] for i in range(procs) if jobs[i::procs]]
    running = []
    for sl in slices:
        parent, child = ctx.Pipe()
        p = ctx.Process(target=_replay_slice, args=(child, tpl, cal["fix"], sl))
        p.start()
        child.close()
        running.append((p, parent))
    out = []
    for p, parent in running:
        if not parent.poll(3000):
            p.kill()
            raise MachineryError("replay slice timed out")
        status, payload = parent.recv()
        p.join(5)
        if status != "ok":
            raise MachineryError(f"replay slice failed: {payload}")
        out += payload
    return out


# ------------------------------------------------------------------------------------------ parts (a) + (b)
def model_and_replay(rep: Report, mods, t: str, rng: random.Random, stats: dict):
    known = {e["id"] for e in rep.known_entries()}
    for tpl in templates(mods):
        cal = calibrate(mods, tpl)
        rels = sorted(tpl["files"])
        for max_passes in tpl["passes"]:
            seq = _child(_sequential_run, mods, tpl, max_passes)
            if seq[0] != "ok":
                raise MachineryError(f"sequential reference failed: {seq[1:]}")
            seq = seq[1]
            for n_workers in ((2,) if t == "quick" else (2, 3)):
                if n_workers == 3 and len(rels) > 3 and max_passes > 2:
                    continue
                mc, cfg = model_config(tpl, cal, n_workers, max_passes)
                res = run_tlc("PoolMC", cfg, generated_files={"PoolMC.tla": mc}, workers=8, timeout_s=1800, keep_stdout=False)
                rep.add_tlc(res, f"Pool {tpl['name']} workers={n_workers} passes={max_passes}")
                if res.violated:
                    rep.violation(f"Pool.tla ({tpl['name']}, {n_workers} workers, {max_passes} passes): invariant {res.violated} fails "
                                  "(the design of format_files admits a schedule that breaks it)", {"trace": res.error_trace})
                    continue
                recs = res.records
                if not recs:
                    raise MachineryError("Pool: no terminal states")
                racing = [r for r in recs if not r["eq"]]
                stats["model_terminal_states"] = stats.get("model_terminal_states", 0) + len(recs)
                stats["model_racing_terminal_states"] = stats.get("model_racing_terminal_states", 0) + len(racing)
                if tpl["deps"] and not racing:
                    raise MachineryError(f"Pool.tla finds no racing schedule for {tpl['name']} although tasks read files the pass rewrites")
                cap = (40 if t == "quick" else 600)
                pick = recs if len(recs) <= cap else rng.sample(recs, cap)
                jobs = [{"id": i, "workers": n_workers, "passes": max_passes, "schedule": split_schedule(r["sched"]),
                         "order_seed": rng.randrange(1 << 30)} for i, r in enumerate(pick)]
                results = run_replays(tpl, cal, jobs)
                for r in results:
                    rec = pick[r["job"]]
                    label = f"{tpl['name']} workers={n_workers} passes={max_passes}"
                    if "machinery" in r:
                        raise MachineryError(f"controlled pool: {r['machinery']} ({label})")
                    stats["replays"] = stats.get("replays", 0) + 1
                    log, exp = r["log"], r["expected"]
                    case = {"tree": tpl["name"], "files": tpl["files"], "workers": n_workers, "max_passes": max_passes,
                            "schedule": rec["sched"], "executed": [p["events"] for p in log.get("passes", [])],
                            "notes": log.get("notes", []), "final_tree": r["tree"], "return": r["ret"],
                            "sequential_tree": seq["tree"], "sequential_return": seq["ret"]}
                    if r["ret"][0] == "raised" or seq["ret"][0] == "raised":
                        if r["ret"] != seq["ret"]:
                            rep.violation(f"format_files ({label}) ends differently from the sequential run: {r['ret']} vs {seq['ret']}", case)
                        continue
                    # (1) the run is what the model semantics + isolated formatting predict
                    conform = not exp["problems"] and exp["disk"] == r["tree"] and exp["report"] == r["ret"][1]
                    # (2) pass structure as in the model (dependency-free trees: the model is exact)
                    model_tasks = [[rels[a[0] - 1] for a in h["assign"]] for h in rec["hist"]]
                    real_tasks = [sorted(p["tasks"]) for p in log.get("passes", [])]
                    if log.get("n_workers_requested") != n_workers:
                        rep.violation(f"format_files asked for {log.get('n_workers_requested')} workers instead of n_cores={n_workers}", case)
                        continue
                    same = r["tree"] == seq["tree"] and r["ret"] == seq["ret"]
                    if same and conform:
                        if not tpl["deps"] and [sorted(x) for x in model_tasks] != real_tasks:
                            rep.violation(f"format_files ({label}) formats {real_tasks} in its passes, the model (and the per-folder bookkeeping "
                                          f"it transcribes) says {model_tasks}", case)
                        continue
                    if not tpl["deps"]:
                        what = ("the final tree / return value differs from the sequential run" if not same else
                                "the run is not what the model with isolated formatting predicts: " + "; ".join(exp["problems"][:3]))
                        rep.violation(f"format_files ({label}) under a TLC schedule: {what}", case)
                        continue
                    # trees with same-pass dependencies: the race is the design finding; anything else is new
                    if conform and not same:
                        if "KF-C06-1" in known:
                            rep.known("KF-C06-1", {"tree": tpl["name"], "schedule_digest": digest(rec["sched"]),
                                                   "differs_in": sorted(k for k in r["tree"] if r["tree"][k] != seq["tree"][k])})
                        else:
                            rep.violation(f"format_files ({label}): the result depends on the schedule (a task reads a file another task of the "
                                          "same pass rewrites)", case)
                        stats["racing_replays"] = stats.get("racing_replays", 0) + 1
                    elif not conform:
                        rep.violation(f"format_files ({label}) under a TLC schedule is not explained by the model with isolated formatting: "
                                      + "; ".join(exp["problems"][:3] or ["final tree / return value differ from the prediction"]), case)
        rep.sample({"tree": tpl["name"], "fix": cal["fix"], "deps": tpl["deps"]})


# ------------------------------------------------------------------------------------------ part (c): the real pool
def _real_pool_run(mods, files: Dict[str, str], order: List[str], n_cores: int, max_passes: int, opts: dict = None):
    tmp = os.path.realpath(tempfile.mkdtemp(prefix="verif-c06-real-"))
    try:
        write_tree(tmp, files)
        os.chdir(tmp)
        try:
            kw = dict(opts or {})
            if "preserved" in kw:
                kw["preserved_filenames"] = [Path(tmp, rel) for rel in kw.pop("preserved")]
            ret = ("ok", bool(mods["main"].format_files([Path(tmp, rel) for rel in order], n_cores=n_cores, max_passes=max_passes, **kw)))
        except Exception as exc:  # noqa: BLE001
            ret = ("raised", f"{type(exc).__name__}: {exc}")
        return {"ret": ret, "tree": read_tree(tmp, files)}
    finally:
        os.chdir("/")
        shutil.rmtree(tmp, ignore_errors=True)


def _real_slice(conn, jobs):
    try:
        mods = import_pyrefact()
        conn.send(("ok", [(j["id"], _child(_real_pool_run, mods, j["files"], j["order"], j["n_cores"], j["max_passes"], j.get("opts"))) for j in jobs]))
    except BaseException as exc:  # noqa: BLE001
        conn.send(("raised", f"{type(exc).__name__}: {exc}"))


def real_pool(rep: Report, mods, t: str, rng: random.Random, stats: dict):
    snippets = [s for _, s in corpus.repo_snippets() if "import *" not in s and 4 <= s.count("\n") <= 60]
    trees = []
    for k in range(3 if t == "quick" else 14):
        files = {}
        n = rng.choice((5, 7, 9))
        # the first file in sorted order is the slowest, so completion order differs from task order
        big = "\n\n".join(rng.sample(snippets, 6))
        try:
            compile(big, "<big>", "exec")
        except SyntaxError:
            big = rng.choice(snippets)
        files["aaa_first/a0_big.py"] = big
        for j in range(n):
            folder = rng.choice(("aaa_first", "pkg_x", "pkg_y/sub"))
            files[f"{folder}/m{j}.py"] = rng.choice(snippets)
        trees.append(files)
    # a file that sorts first loses, by being formatted, its only use of a name another folder defines: what the later file may
    # keep must not depend on whether the earlier one has been rewritten already (the preserve sets are those of the ORIGINAL texts)
    trees.append({"alpha/consumer.py": "from beta.provider import rare_helper, common_helper\n\n\ndef _never_called():\n    return rare_helper(1)\n\n\n"
                                       "def run():\n    return common_helper(2)\n\n\nprint(run())\n",
                  "alpha/__init__.py": "", "beta/__init__.py": "",
                  "beta/provider.py": "def rare_helper(v):\n    return v + 1\n\n\ndef common_helper(v):\n    return v * 2\n\n\ndef unused_everywhere(v):\n    return v\n"})
    jobs, meta = [], {}
    for ti, files in enumerate(trees):
        for max_passes in (1, 5):
            base = {"id": len(jobs), "files": files, "order": sorted(files), "n_cores": 1, "max_passes": max_passes}
            jobs.append(base)
            meta[base["id"]] = (ti, max_passes, "reference")
            for n_cores in ((2, 3, 8, 16) if t == "quick" else (2, 3, 4, 5, 8, 11, 16)):
                order = list(files)
                rng.shuffle(order)
                if rng.random() < 0.4:
                    order += rng.sample(order, 2)      # duplicated arguments
                j = {"id": len(jobs), "files": files, "order": order, "n_cores": n_cores, "max_passes": max_passes}
                jobs.append(j)
                meta[j["id"]] = (ti, max_passes, f"n_cores={n_cores}")
        # the options of the run reach every file whatever the number of workers: safe mode, files given as preserved
        some = sorted(files)[1::3]
        for oi, opts in enumerate(({"safe": True}, {"preserved": some}, {"safe": True, "preserved": some}, {"preserved": sorted(files)})):
            base = {"id": len(jobs), "files": files, "order": sorted(files), "n_cores": 1, "max_passes": 1, "opts": opts}
            jobs.append(base)
            meta[base["id"]] = ((ti, oi), 1, "reference")
            for n_cores in (2, 5):
                j = {"id": len(jobs), "files": files, "order": sorted(files), "n_cores": n_cores, "max_passes": 1, "opts": opts}
                jobs.append(j)
                meta[j["id"]] = ((ti, oi), 1, f"n_cores={n_cores}, {sorted(opts)}")
    ctx = mp.get_context("fork")
    procs = 4
    running = []
    for sl in [jobs[i::procs] for i in range(procs)]:
        parent, child = ctx.Pipe()
        p = ctx.Process(target=_real_slice, args=(child, sl))
        p.start()
        child.close()
        running.append((p, parent))
    results = {}
    for p, parent in running:
        if not parent.poll(3000):
            p.kill()
            raise MachineryError("real pool slice timed out")
        status, payload = parent.recv()
        p.join(5)
        if status != "ok":
            raise MachineryError(f"real pool slice failed: {payload}")
        for jid, r in payload:
            if r[0] != "ok":
                raise MachineryError(f"real pool run failed: {r[1:]}")
            results[jid] = r[1]
    refs = {(meta[j][0], meta[j][1]): results[j] for j in results if meta[j][2] == "reference"}
    for jid, r in results.items():
        ti, max_passes, label = meta[jid]
        if label == "reference":
            continue
        stats["real_pool_runs"] = stats.get("real_pool_runs", 0) + 1
        ref = refs[(ti, max_passes)]
        if r["tree"] != ref["tree"] or r["ret"] != ref["ret"]:
            diff = sorted(k for k in r["tree"] if r["tree"][k] != ref["tree"][k])
            rep.violation(f"format_files({label}, max_passes={max_passes}, shuffled list) differs from the sequential sorted run "
                          f"(files {diff}, return {r['ret']} vs {ref['ret']})",
                          {"files": jobs[jid]["files"], "order": jobs[jid]["order"], "n_cores": jobs[jid]["n_cores"], "max_passes": max_passes, "options": jobs[jid].get("opts"),
                           "tree": r["tree"], "reference_tree": ref["tree"], "return": r["ret"], "reference_return": ref["ret"]})


# ------------------------------------------------------------------------------------------ part (d): hash seeds
# Texts in which every collection a rule might put into a set holds several distinct STRINGS / NAMES
# (the iteration order of such a set depends on the hash seed; small integers hash to themselves).
STRINGY = [
    'COLOURS = {"red", "green", "blue", "red", "amber", "green"}\nprint(sorted(COLOURS))\n',
    'TABLE = {"alpha": 1, "beta": 2, "alpha": 3, "gamma": 4, "beta": 5}\nprint(TABLE)\n',
    'import os, sys, re, json, math, heapq, shlex, glob\nprint(os.sep, sys.maxsize, re.I, json.dumps, math.pi, heapq.heapify, shlex.quote, glob.glob)\n',
    'from os.path import join, exists, basename, dirname, abspath\nfrom os.path import join, splitext\n'
    'print(join, exists, basename, dirname, abspath, splitext)\n',
    'def compute(alpha, beta):\n    unusedOne = alpha\n    unusedTwo = beta\n    unusedThree = alpha + beta\n    camelCase = alpha * beta\n'
    '    otherName = camelCase + 1\n    return otherName\n\n\nprint(compute(1, 2))\n',
    'def first(v):\n    return v * 2 + 1\n\n\ndef second(w):\n    return w * 2 + 1\n\n\ndef third(u):\n    return u * 2 + 1\n\n\n'
    'print(first(1), second(2), third(3))\n',
    'counter = 0\ntotal = 0\nlimit = 3\n\n\ndef bump():\n    global counter, total, limit\n    counter += 1\n    total += counter\n'
    '    return limit\n\n\nprint(bump(), counter, total)\n',
    'class Shape:\n    def area(self):\n        return 1\n\n    def perimeter(self):\n        return 2\n\n    def name(self):\n        return "shape"\n\n\n'
    'print(Shape().area(), Shape.perimeter, Shape.name)\n',
    'def pick(kind):\n    if kind in ("apple", "pear", "plum", "apple"):\n        return "fruit"\n    if kind == "kale" or kind == "leek" or kind == "kale":\n'
    '        return "veg"\n    return None\n\n\nprint(pick("pear"), pick("leek"))\n',
    'words = ["delta", "alpha", "charlie", "bravo"]\nseen = set()\nfor word in words:\n    seen.add(word)\nlookup = {}\nfor word in words:\n'
    '    lookup[word] = len(word)\nprint(sorted(seen), lookup)\n',
    'import numpy as np\n\n\ndef mm(a, b):\n    return [[sum(a[i][k] * b[k][j] for k in range(len(b))) for j in range(len(b[0]))] for i in range(len(a))]\n\n\n'
    'print(mm([[1, 2]], [[3], [4]]), np.zeros(1))\n',
    '__all__ = ["gamma", "alpha", "beta"]\n\n\ndef alpha():\n    return 1\n\n\ndef beta():\n    return 2\n\n\ndef gamma():\n    return 3\n\n\n'
    'def _delta():\n    return 4\n',
    'def report(items):\n    out = []\n    for name, size, colour in items:\n        if name and size and colour:\n            out.append(f"{name}:{size}:{colour}")\n'
    '    return out\n\n\nprint(report([("a", 1, "red"), ("b", 2, "blue")]))\n',
    'STATES = frozenset(["open", "closed", "open", "pending"])\nLEVELS = set(["low", "high", "low"])\nprint(sorted(STATES), sorted(LEVELS))\n',
    'x = 3\n\n\ndef show(v):\n    first = f"{v}"\n    second = f\'\'\'{v}\'\'\'\n    third = F"{v}"\n    fourth = f"{ v }"\n    unusedName = 1\n'
    '    return first + second + third + fourth\n\n\nprint(show(x))\n',
    'def tag(v):\n    a = f"<{v}>"\n    b = f\'<{v}>\'\n    c = f"""<{v}>"""\n    d = f\'\'\'<{v}>\'\'\'\n    otherName = 2\n    return [a, b, c, d]\n\n\nprint(tag(1))\n',
    'LABEL = \'error\'\nOTHER = "error"\nTHIRD = \'\'\'error\'\'\'\n\n\ndef fn(v):\n    unusedThing = v\n    return [LABEL, OTHER, THIRD, \'error\', "error"]\n\n\nprint(fn(1))\n',
    'def classify(x):\n    if x == "a":\n        return 1\n    elif x == "b":\n        return 1\n    elif x == "c":\n        return 2\n    elif x == "d":\n        return 2\n'
    '    else:\n        return 3\n\n\nprint([classify(c) for c in "abcde"])\n',
    # several additions for one line handed to the direct editor as a SET of nodes (two or more long constants used five times in one function;
    # two or more generated variables): their order must not come from the iteration order of the set
    'def report(kind):\n    out = []\n' + "".join('    out.append("a rather long constant text, number one" + kind)\n    out.append(kind + "another quite long constant text (two)")\n'
                                                         '    out.append(("third", "tuple", "constant", "here") + (kind,))\n' for _ in range(5)) + '    return out\n\n\nprint(len(report("k")))\n',
    'import sys\n\n\ndef choose(a, b, c):\n    if a > 1:\n        if b > 2:\n            x = 1\n        else:\n            x = 2\n    elif c > 3:\n        if b > 4:\n            x = 3\n'
    '        else:\n            x = 4\n    else:\n        x = 5\n    return x\n\n\nprint(choose(len(sys.argv), 3, 4))\n',
    # names that are used but not imported, next to an import group that carries comments: the added imports have one order
    'import os  # operating system\n# the interpreter\nimport sys\n\nprint(os.sep, sys.maxsize > 0, json.dumps(1), math.pi, re.I, shlex.quote("a"), heapq.heapify, glob.glob)\n',
    'import os\n\n\ndef run():\n    # the rest is imported lazily\n    return os.sep, json.dumps(1), math.pi, re.I, shlex.quote("a"), heapq.heapify, glob.glob, time.time() > 0\n\n\nprint(run()[:4])\n',
    # one bound stated twice in spellings that are not textually equal, with another operand in between: which one goes?
    'def pick(x, y, z):\n    if x > 3 and y and 3 < x:\n        return 1\n    if z <= 7 or y or 7 >= z:\n        return 2\n    if y > 0 and z and 0 < y and x:\n        return 3\n'
    '    return 4 if (x >= 2 and z and 2 <= x) else 5\n\n\nprint(pick(4, 1, 1), pick(1, 0, 3), pick(0, 2, 9), pick(2, 0, 9))\n',
]


def hash_seeds(rep: Report, mods, t: str, rng: random.Random, stats: dict):
    import pipeline
    items = []
    snippets = list(corpus.repo_snippets())
    pick = rng.sample(snippets, 260) if t == "quick" else snippets
    for origin, text in pick:
        items.append([f"snippet:{origin}", text, {}, None])
    for origin, text in (pick[:60] if t == "quick" else pick):
        items.append([f"snippet-safe:{origin}", text, {"safe": True}, None])
    std = list(corpus.stdlib_files(max_lines=200 if t == "quick" else 400))
    for origin, text in rng.sample(std, min(40 if t == "quick" else 400, len(std))):
        items.append([origin, text, {"safe": True}, None])
    for i, text in enumerate(STRINGY):
        items.append([f"stringy:{i}", text, {}, None])
        items.append([f"stringy-safe:{i}", text, {"safe": True}, None])
    import shapes
    for case in shapes.shape_cases(rep, t):
        if case["nl"] and case["pos"] == "only" and not case["opt"][0]:
            src, opts = shapes.render_case(case)
            items.append([f"shape:{case['c']}", src, {k: (sorted(v) if isinstance(v, (set, frozenset)) else v) for k, v in opts.items()}, None])
    always = dict(std).get("stdlib/html/__init__.py")
    if always:
        items.append(["stdlib/html/__init__.py", always, {"safe": True}, None])
    # rules on their own: the scheduler sees their raw yield order
    rules = [f"{m}.{f}" for m, f in pipeline.all_rules(mods)]
    for origin, text in (pick[:40] if t == "quick" else pick[:400]):
        for r in rng.sample(rules, 6):
            items.append([f"{r}@{origin}", text, {}, r])
    configs = [(0, 0), (1, 3), (2, 11), (3, 17), (6, 29), (8, 5), (12345, 41), (4294967295, 7)]
    if t != "quick":
        configs += [(s, (s * 7 + 3) % 50) for s in (4, 5, 7, 9, 10, 11, 13, 17, 99, 1000, 65537, 2 ** 31)]
    work = tempfile.mkdtemp(prefix="verif-c06-seeds-")
    try:
        Path(work, "items.json").write_text(json.dumps(items))
        procs = []
        per = max(1, 16 // len(configs))
        for k, (hs, pert) in enumerate(configs):
            env = dict(os.environ, PYTHONHASHSEED=str(hs), PYTHONWARNINGS="ignore")
            procs.append(subprocess.Popen([sys.executable, "-B", str(VERIF / "harness" / "seedrun.py"), str(Path(work, "items.json")),
                                           str(Path(work, f"out{k}.json")), str(pert), str(per)], env=env,
                                          stdout=subprocess.DEVNULL, stderr=subprocess.PIPE, text=True))
        for k, p in enumerate(procs):
            try:
                _, err = p.communicate(timeout=3000)
            except subprocess.TimeoutExpired:
                p.kill()
                raise MachineryError("hash seed run timed out")
            if p.returncode != 0:
                raise MachineryError(f"hash seed run {configs[k]} failed: {err[-800:]}")
        outs = [json.loads(Path(work, f"out{k}.json").read_text()) for k in range(len(configs))]
    finally:
        shutil.rmtree(work, ignore_errors=True)
    differing = 0
    for i, item in enumerate(items):
        variants: Dict[str, List[int]] = {}
        for k, o in enumerate(outs):
            if o[i][1] == "lost":
                continue
            variants.setdefault(json.dumps(o[i][1:]), []).append(configs[k][0])
        stats["seed_evaluations"] = stats.get("seed_evaluations", 0) + sum(len(v) for v in variants.values())
        if len(variants) > 1:
            differing += 1
            vs = list(variants.items())
            rep.violation(f"{'format_code' if item[3] is None else item[3]} on {item[0].split('@')[-1]} gives different results under different "
                          f"PYTHONHASHSEED values ({[v for _, v in vs]})",
                          {"input_id": item[0], "source": item[1], "options": item[2], "rule": item[3],
                           "variants": [{"hash_seeds": v, "result": json.loads(k)} for k, v in vs[:3]]})
    stats["seed_items"] = len(items)
    stats["seed_configs"] = len(configs)
    return differing


def main(argv=None) -> int:
    rep = Report(PROP, "model_checking")
    mods = import_pyrefact()
    t = tier()
    rng = random.Random(seed())
    stats: Dict[str, int] = {}
    model_and_replay(rep, mods, t, rng, stats)
    real_pool(rep, mods, t, rng, stats)
    hash_seeds(rep, mods, t, rng, stats)
    # (e) Editor.tla: one SET of edits handed to the direct editor in different orders and collection types gives one result
    import c03_editor
    stats["editor_order_cases"] = c03_editor.run(rep, t, stats, mode="order", rng=rng)
    rep.coverage["evaluations"] = stats.get("replays", 0) + stats.get("real_pool_runs", 0) + stats.get("seed_evaluations", 0)
    rep.coverage["distinct_nontrivial"] = stats.get("replays", 0) + stats.get("real_pool_runs", 0)
    rep.coverage["traces_validated_against_impl"] = stats.get("replays", 0)
    rep.coverage["detail"] = stats
    rep.coverage["rule"] = ("(b) one witness schedule per terminal state of Pool.tla (distinct assignment of tasks to workers, completion order and "
                            "observations) replayed into the real format_files through a controlled pool, for 4 trees (2 without, 2 with same-pass "
                            "dependencies); (c) the real pool with n_cores in 2..16 on shuffled / duplicated lists against n_cores=1; (d) format_code and "
                            "single rules in fresh interpreters under 8+ PYTHONHASHSEED values with perturbed heap layout; (e) every edit set of Editor.tla "
                            "with two or more edits handed to processing.alter_code in three orders (list, reversed list, shuffled sets)")
    rep.assumptions += ["the controlled pool serialises file operations; CPU work between them cannot influence results (no shared memory between workers)",
                        "set iteration over AST nodes depends on addresses: perturbed by seeded pre-allocation, not enumerated"]
    return rep.finish()


if __name__ == "__main__":
    sys.exit(main())
