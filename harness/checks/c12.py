"""C12 - pattern matching agrees with its declarative semantics.

spec/Matcher.tla: TLC enumerates every (list template, tail) x (node list, tail node) of the
bounded space, checks ImplMatch => IdealMatch and greedy completeness without a tail, and
writes the ideal and the implementation-shaped verdict of every case.  Every case is replayed
into core.match_template (hand-built templates) and, where the {{..}} syntax can express it,
into compiled patterns through pattern_matching.finditer.
spec/Search.tla: occurrences of expression / statement / statement-sequence patterns in every
container kind; replayed into finditer / findall.
"""
from __future__ import annotations

import ast
import json
import multiprocessing as mp
import random
import sys
from typing import Dict, List

from common import Report, import_pyrefact, tier, seed
from tlc import MachineryError, run_tlc

PROP = "C12"
KF_GREEDY = "KF-C12-1"


def matcher_cfg(c: dict) -> str:
    s = lambda xs: "{" + ", ".join(f'"{x}"' for x in xs) + "}"
    return "\n".join([
        "CONSTANTS",
        f"  Lits = {s(c['lits'])}", f"  Wilds = {s(c['wilds'])}",
        f"  UseAnon = {'TRUE' if c['anon'] else 'FALSE'}", f"  UseNested = {'TRUE' if c['nested'] else 'FALSE'}",
        f"  Quants = {s(c['quants'])}", f"  NodeAtoms = {s(c['nodes'])}",
        f"  MaxT = {c['maxt']}", f"  MaxN = {c['maxn']}", f"  Tails = {s(c['tails'])}",
        "INIT Init", "NEXT Next", "INVARIANT Sound", "INVARIANT CompleteWithoutTail", "INVARIANT Dump",
        "CHECK_DEADLOCK FALSE", ""])


def matcher_runs(t: str):
    q4 = ["1", "?", "*", "+"]
    if t == "quick":
        return [
            ("T2-N4", dict(lits=["a", "b"], wilds=["x", "y"], anon=True, nested=False, quants=q4, nodes=["a", "b"],
                           maxt=2, maxn=4, tails=["none", "x", "a"])),
            ("T3-N3-xa", dict(lits=["a"], wilds=["x"], anon=True, nested=False, quants=q4, nodes=["a", "b"],
                              maxt=3, maxn=3, tails=["none", "x"])),
            ("T2-N3-nested", dict(lits=["a"], wilds=["x"], anon=True, nested=True, quants=q4, nodes=["a", "ga", "gb"],
                                  maxt=2, maxn=3, tails=["none", "x"])),
            ("T2-N3-lookalikes", dict(lits=["a"], wilds=["x"], anon=False, nested=False, quants=q4, nodes=["a", "sa", "n1", "s1"],
                                      maxt=2, maxn=3, tails=["none", "x"])),
            ("T2-N3-prefix-lookalikes", dict(lits=["la"], wilds=["x"], anon=False, nested=False, quants=q4, nodes=["ga", "gab", "la", "lab", "ca", "cab"],
                                             maxt=2, maxn=3, tails=["none", "x"])),
        ]
    return [
        ("T3-N4", dict(lits=["a", "b"], wilds=["x", "y"], anon=True, nested=False, quants=q4, nodes=["a", "b"],
                       maxt=3, maxn=4, tails=["none", "x", "a"])),
        ("T2-N5-3atoms", dict(lits=["a", "b"], wilds=["x", "y"], anon=True, nested=False, quants=q4, nodes=["a", "b", "c"],
                              maxt=2, maxn=5, tails=["none", "x", "a"])),
        ("T3-N4-nested", dict(lits=["a"], wilds=["x"], anon=True, nested=True, quants=q4, nodes=["a", "b", "ga", "gb"],
                              maxt=3, maxn=4, tails=["none", "x"])),
        ("T4-N4-x", dict(lits=["a"], wilds=["x"], anon=True, nested=False, quants=["1", "?", "*"], nodes=["a", "b"],
                         maxt=4, maxn=4, tails=["none", "x"])),
        ("T3-N3-prefix-lookalikes", dict(lits=["la", "ga"], wilds=["x", "y"], anon=False, nested=False, quants=q4,
                                         nodes=["ga", "gab", "la", "lab", "ca", "cab"], maxt=3, maxn=3, tails=["none", "x"])),
        ("T3-N4-lookalikes", dict(lits=["a"], wilds=["x", "y"], anon=False, nested=False, quants=q4, nodes=["a", "sa", "n1", "s1"],
                                  maxt=3, maxn=4, tails=["none", "x"])),
    ]


# --------------------------------------------------------------------------------------
# "sa" / "s1" are STRING constants whose text is the name a / the number 1: different trees from the atoms "a" and "n1"
NODE_SRC = {"a": "a", "b": "b", "c": "c", "ga": "g(a)", "gb": "g(b)", "gc": "g(c)", "sa": "'a'", "n1": "1", "s1": "'1'",
            # trees of which one is the other plus something at the END of a list (arguments, elements, comparators)
            "gab": "g(a, b)", "la": "[a]", "lab": "[a, b]", "ca": "a < b", "cab": "a < b < c"}
SRC_NODE = {v: k for k, v in NODE_SRC.items()}


def build_hand_template(core, tpl, tail):
    def base(b):
        if b == "_":
            return core.Wildcard("Ellipsis_anything", object, common=False)
        if b in ("x", "y"):
            return core.Wildcard(b)
        if b == "gx":
            return ast.Call(func=ast.Name(id="g"), args=[core.Wildcard("x")], keywords=[])
        if b in ("ga", "gb", "gc"):
            return ast.Call(func=ast.Name(id="g"), args=[ast.Name(id=b[1])], keywords=[])
        if b in NODE_SRC and NODE_SRC[b] != b:
            return ast.parse(NODE_SRC[b], mode="eval").body
        return ast.Name(id=b)
    wrap = {"1": lambda t: t, "?": core.ZeroOrOne, "*": core.ZeroOrMany, "+": core.OneOrMany}
    elts = [wrap[e["q"]](base(e["b"])) for e in tpl]
    args = [ast.List(elts=elts)]
    if tail != "none":
        args.append(base(tail))
    return ast.Call(func=ast.Name(id="h"), args=args, keywords=[])


def compiled_pattern_text(tpl, tail):
    """The {{..}} spelling of the case, or None when the syntax cannot express it."""
    quant_of: Dict[str, str] = {}
    parts = []
    for e in tpl:
        b, q = e["b"], e["q"]
        suffix = "" if q == "1" else q
        if b in ("x", "y"):
            if quant_of.setdefault(b, q) != q:
                return None
            parts.append("{{" + b + suffix + "}}")
        elif b == "_":
            if quant_of.setdefault("_", q) != q and False:
                return None
            parts.append("{{..." + suffix + "}}")
        elif q == "1":
            parts.append(NODE_SRC.get(b, b) if b != "gx" else "g({{x}})")
            if b == "gx" and quant_of.setdefault("x", "1") != "1":
                return None
        else:
            return None
    text = "h([" + ", ".join(parts) + "]"
    if tail == "x":
        if quant_of.setdefault("x", "1") != "1":
            return None
        text += ", {{x}}"
    elif tail != "none":
        text += ", " + tail
    return text + ")"


def node_source(N, nt):
    s = "h([" + ", ".join(NODE_SRC[n] for n in N) + "]"
    if nt != "-":
        s += ", " + NODE_SRC[nt]
    return s + ")"


def _replay_chunk(records):
    mods = import_pyrefact()
    core, pm = mods["core"], mods["pattern_matching"]
    stats = {"cases": 0, "nontrivial": 0, "gap": 0, "compiled": 0}
    bad, known = [], []
    node_cache: Dict[str, ast.AST] = {}
    for rec in records:
        tpl, tail = rec["tpl"], rec["tail"]
        hand = build_hand_template(core, tpl, tail)
        ptxt = compiled_pattern_text(tpl, tail)
        compiled = None
        if ptxt is not None:
            try:
                compiled = core.compile_template(ptxt)
            except Exception as exc:
                bad.append({"kind": "compile-raised", "pattern": ptxt, "error": repr(exc)})
        has_slack = any(e["q"] != "1" for e in tpl)
        for N, nt, ideal, impl, xs in rec["v"]:
            src = node_source(N, nt)
            node = node_cache.get(src)
            if node is None:
                node = node_cache[src] = ast.parse(src).body[0].value
            stats["cases"] += 1
            if has_slack and N:
                stats["nontrivial"] += 1
            for how, template in (("hand", hand), ("compiled", compiled)):
                if template is None:
                    continue
                try:
                    m = core.match_template(node, template)
                except Exception as exc:
                    bad.append({"kind": "match-raised", "how": how, "pattern": ptxt, "tpl": tpl, "tail": tail,
                                "source": src, "error": repr(exc)})
                    continue
                got = 1 if m else 0
                if how == "compiled":
                    stats["compiled"] += 1
                case = {"how": how, "pattern": ptxt, "tpl": tpl, "tail": tail, "source": src,
                        "ideal": ideal, "impl": impl, "code": got}
                if got != ideal:
                    if ideal == 1 and impl == 0 and got == 0:
                        stats["gap"] += 1
                        known.append(case)
                    else:
                        bad.append(dict(case, kind="verdict"))
                    continue
                if got and hasattr(m, "_fields") and "x" in m._fields:
                    val = SRC_NODE.get(core.unparse(m.x), core.unparse(m.x))
                    if xs and val not in xs:
                        bad.append(dict(case, kind="binding", x=val, admissible=xs))
            # the search API on the same case (compiled patterns only)
            if compiled is not None and (stats["cases"] % 7 == 0):
                try:
                    found = pm.findall(ptxt, src + "\n")
                except Exception as exc:
                    bad.append({"kind": "findall-raised", "pattern": ptxt, "source": src, "error": repr(exc)})
                    continue
                exp = [src] if ideal else []
                if found != exp:
                    case = {"how": "findall", "pattern": ptxt, "tpl": tpl, "tail": tail, "source": src,
                            "ideal": ideal, "impl": impl, "code": len(found)}
                    if ideal == 1 and impl == 0 and not found:
                        known.append(case)
                    else:
                        bad.append(dict(case, kind="findall", found=found))
    return stats, bad, known[:50], len(known)


def replay(rep: Report, records: List[dict], stats: dict, procs=16):
    n = max(1, min(procs, len(records) // 20 + 1))
    chunks = [records[i::n] for i in range(n)]
    if n == 1:
        parts = [_replay_chunk(chunks[0])]
    else:
        with mp.get_context("fork").Pool(n) as pool:
            parts = pool.map(_replay_chunk, chunks)
    listed = {e["id"] for e in rep.known_entries()}
    for st, bad, known, nknown in parts:
        for k, v in st.items():
            stats[k] = stats.get(k, 0) + v
        for case in bad:
            rep.violation(f"{case.get('kind')}: pattern={case.get('pattern') or case.get('tpl')} source={case.get('source')} "
                          f"ideal={case.get('ideal')} impl={case.get('impl')} code={case.get('code', case.get('error'))}", case)
        if nknown:
            if KF_GREEDY in listed:
                for case in known[:1]:
                    rep.known(KF_GREEDY, {"pattern": case["pattern"] or case["tpl"], "source": case["source"]})
                rep.known_hits[KF_GREEDY]["count"] += nknown - 1
            else:
                for case in known:
                    rep.violation(f"greedy list matching misses a declarative match: pattern={case['pattern'] or case['tpl']} "
                                  f"source={case['source']}", case)


def main(argv=None) -> int:
    rep = Report(PROP, "model_checking")
    import_pyrefact()
    t = tier()
    stats: Dict[str, int] = {}
    exhaustive = True
    for label, consts in matcher_runs(t):
        res = run_tlc("Matcher", matcher_cfg(consts), timeout_s=3000, keep_stdout=False, heap_gb=12)
        rep.add_tlc(res, f"Matcher {label}")
        if res.violated:
            rep.violation(f"Matcher.tla: {res.violated} fails ({label}): the modelled algorithm is unsound",
                          {"label": label, "trace": res.error_trace})
            continue
        if not res.records:
            raise MachineryError(f"Matcher {label}: no records")
        gap = sum(1 for r in res.records for v in r["v"] if v[2] == 1 and v[3] == 0)
        rep.coverage.setdefault("model_gap_sizes", {})[label] = gap
        for r in res.records:
            if len(rep.coverage["samples"]) < 2 and len(r["tpl"]) >= 2 and any(e["q"] == "*" for e in r["tpl"]):
                v = next((v for v in r["v"] if v[2] == 1 and len(v[0]) >= 2), None)
                if v:
                    rep.sample({"template": r["tpl"], "tail": r["tail"], "pattern": compiled_pattern_text(r["tpl"], r["tail"]),
                                "source": node_source(v[0], v[1]), "ideal": v[2], "impl": v[3], "x_values": v[4]})
        replay(rep, res.records, stats)

    import c12_search
    c12_search.run(rep, t, stats)
    import c12_fields
    c12_fields.run(rep, t, stats)

    rep.coverage["evaluations"] = (stats.get("cases", 0) + stats.get("compiled", 0) + stats.get("search_cases", 0)
                                   + stats.get("field_cases", 0) + stats.get("ctx_sources", 0))
    rep.coverage["distinct_nontrivial"] = stats.get("nontrivial", 0) + stats.get("search_nontrivial", 0)
    rep.coverage["traces_validated_against_impl"] = stats.get("cases", 0) + stats.get("search_cases", 0)
    rep.coverage["exhaustive"] = exhaustive
    rep.coverage["detail"] = stats
    rep.coverage["rule"] = (
        "Matcher.tla: all list templates up to MaxT over literals / named / anonymous / nested wildcards x quantifiers "
        "{1,?,*,+}, with an optional tail that repeats a wildcard, against all node lists up to MaxN; each case replayed "
        "into core.match_template with a hand-built template and (if expressible) a compiled {{..}} pattern, 1/7 also "
        "through findall. Non-trivial = template has a quantifier with slack and the node list is non-empty. "
        "Search.tla: every placement of pattern occurrences in every container kind. Fields.tla: every (pattern variant, "
        "code variant) of the optional parts of 27 syntax forms (absent / literal / other literal / wildcard), and every "
        "sequence of expression contexts (58 kinds: f-string fields, specs, nested f-strings, defaults, decorators, "
        "annotations, comprehension parts, handlers, match guards ...) holding chains of nested occurrences.")
    rep.assumptions += ["wildcard consistency is equality of unparsed text (as the statement says: the same tree)",
                        "order of reported matches is not constrained"]
    return rep.finish()


if __name__ == "__main__":
    sys.exit(main())
