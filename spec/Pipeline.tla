------------------------------ MODULE Pipeline ------------------------------
(***************************************************************************)
(* Design model of the formatting pipeline: the control structure of        *)
(* PipelineCore driven by ABSTRACT rules.  Every rule, the abstraction       *)
(* stage and the post stage are arbitrary functions Docs -> Docs, chosen     *)
(* nondeterministically in the initial state, so TLC checks the control      *)
(* structure against every possible rule set over a small document space     *)
(* (including rules that undo each other and rule sets that never settle).   *)
(* Decides, for the design: termination within the budget (C04), exit on the *)
(* first repeated document, and which convergence facts the loop structure   *)
(* gives for free and which it does not (C09).                              *)
(***************************************************************************)
EXTENDS PipelineCore, TLC

CONSTANTS Docs

VARIABLES step, absf, postf, start
vars == <<corevars, step, absf, postf, start>>

Init ==
    /\ step \in [1..NRules -> [Docs -> Docs]]
    /\ absf \in [Docs -> Docs]
    /\ postf = [d \in Docs |-> d]
    /\ start \in Docs
    /\ CoreInit(start)

Next ==
    \/ (SingleRun(doc) /\ UNCHANGED <<step, absf, postf, start>>)
    \/ (PassBegin /\ UNCHANGED <<step, absf, postf, start>>)
    \/ (pc = "pass" /\ ri <= NRules /\ RuleStep(step[ri][doc]) /\ UNCHANGED <<step, absf, postf, start>>)
    \/ (PassEnd /\ UNCHANGED <<step, absf, postf, start>>)
    \/ (pc = "abs" /\ loopNo = 1 /\ Abstractions(absf[doc]) /\ UNCHANGED <<step, absf, postf, start>>)
    \/ (SecondLoopDone /\ UNCHANGED <<step, absf, postf, start>>)
    \/ (pc = "post" /\ Post(postf[doc]) /\ UNCHANGED <<step, absf, postf, start>>)

Spec == Init /\ [][Next]_vars /\ WF_vars(Next)

\* one pass of the rule sequence as a function
RECURSIVE PassFrom(_, _)
PassFrom(d, i) == IF i > NRules THEN d ELSE PassFrom(step[i][d], i + 1)
PassOf(d) == PassFrom(d, 1)

-----------------------------------------------------------------------------
Terminates == <>(pc = "done")                              \* C04: for EVERY rule set
BudgetInv == Budget
ExitInv == ExitJustified

\* at most 2 * MaxPasses passes in a whole run
TotalPasses == pc = "done" => npass <= MaxPasses

\* when a loop is left because of a repeat, the document is one the loop has produced before:
\* either a fixed point of the pass function or the entry point of a longer cycle
RepeatMeansCycle ==
    (exitWhy = "repeat" /\ pc = "abs" /\ loopNo = 1) =>
        \E n \in 1..(MaxPasses + 1) :
            LET RECURSIVE It(_, _)
                It(d, j) == IF j = 0 THEN d ELSE It(PassOf(d), j - 1)
            IN It(doc, n) = doc

\* NOT a theorem for the second loop (TLC finds the counterexample): it shares content_history with
\* the first loop, so it can stop on a document the FIRST loop passed through although the pass
\* function would still change it (e.g. loop 1: 2 -> 1 -> 1, abstraction 1 -> 3, loop 2: 3 -> 2, stop).
SecondLoopRepeatMeansCycle ==
    (exitWhy = "repeat" /\ pc = "abs" /\ loopNo = 2) => PassOf(PassOf(doc)) = PassOf(doc) \/ PassOf(doc) = doc

\* NOT a theorem (TLC finds the counterexample): the result of a run need not be a fixed point of
\* the pass function - a cycle of length > 1 is cut at its entry point, and the budget may run out.
\* This is why C09 is decided on recorded histories of the real rule set, not on the design.
ResultIsFixedPoint == pc = "done" => PassOf(doc) = doc
=============================================================================
