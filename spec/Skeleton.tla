------------------------------ MODULE Skeleton ------------------------------
(***************************************************************************)
(* Input cover for the layout stages (C11), second family: the layout of    *)
(* CODE rather than of literals.  A module skeleton                         *)
(*                                                                         *)
(*     def outer():            \* depth 0                                   *)
(*         <A1> <A2>           \* depth 1, before the inner definition      *)
(*         def inner():                                                     *)
(*             <B1> <B2>       \* depth 2                                   *)
(*         <C1>                \* depth 1, behind the inner definition      *)
(*     <D1> <D2>               \* depth 0                                   *)
(*                                                                         *)
(* has a statement in every slot: kind "plain" (a call), "import" (a lazy   *)
(* import), "none" (slot empty; A1, B1, D1 are never empty), and a number   *)
(* of blank lines in front of it.  Blank-line limiting, import spacing,     *)
(* whitespace minimisation and re-indentation work on exactly these two     *)
(* things.  The property of every layout stage s on every skeleton c:       *)
(*     Tree(s(c)) = Tree(c)                                                 *)
(* in particular every statement stays in the block it was written in.      *)
(* A case deviates from the tidy default (plain, no blank line) in at most  *)
(* MaxDev slots.                                                            *)
(***************************************************************************)
EXTENDS Integers, FiniteSets, TLC, Json

CONSTANTS Slots,        \* {"A1", "A2", "B1", "B2", "C1", "D1", "D2"}
          Gaps,         \* numbers of blank lines in front of a statement, e.g. {0, 1, 3, 4}
          MaxDev,       \* slots that deviate from the default
          LineLengths

VARIABLES dev, case
vars == <<dev, case>>

Kinds == {"plain", "import", "none"}
Mandatory == {"A1", "B1", "D1"}
Default == [kind |-> "plain", gap |-> 0]
Choices(s) == {[kind |-> k, gap |-> g] : k \in (IF s \in Mandatory THEN Kinds \ {"none"} ELSE Kinds), g \in Gaps}
                 \ {[kind |-> "none", gap |-> g] : g \in Gaps \ {0}}

\* two steps, so that TLC's workers share the enumeration: which slots deviate, then how
Init == dev \in {d \in SUBSET Slots : Cardinality(d) <= MaxDev} /\ case = <<>>
Next == /\ case = <<>>
        /\ \E f \in [dev -> UNION {Choices(s) : s \in Slots}], n \in LineLengths :
              /\ \A s \in dev : f[s] \in Choices(s) /\ f[s] # Default
              /\ case' = [slots |-> [s \in Slots |-> IF s \in dev THEN f[s] ELSE Default], len |-> n]
        /\ UNCHANGED dev
Spec == Init /\ [][Next]_vars

Depth(s) == CASE s \in {"A1", "A2", "C1"} -> 1 [] s \in {"B1", "B2"} -> 2 [] OTHER -> 0

\* the block every statement belongs to: what must not change
Blocks == [s \in Slots |-> Depth(s)]

Dump == case = <<>> \/ PrintT(<<"@@J", ToJson([slots |-> case.slots, len |-> case.len])>>)
=============================================================================
