"""C03 - valid Python in, valid Python out; never write a broken file.

* PipelineTrace.tla clauses KeepValid (every stage of every recorded format_code run keeps the text
  parsable) and FinalValid, validated by TLC over shapes, repository snippets, fragments, stdlib files;
* every rule in isolation on every repository snippet (output must parse);
* pattern substitution sub/subn on the snippets with patterns that occur in them;
* FileWrite.tla (write guard of format_file) model-checked; its 2x2x2 decision table replayed into the
  real format_file on temp files with a formatter stub that returns valid / invalid / identical text.
"""
from __future__ import annotations

import ast
import os
import random
import shutil
import sys
import tempfile
from pathlib import Path

import corpus
import isolated
import pipecheck
import proj
from common import Report, import_pyrefact, tier, seed
from tlc import MachineryError, run_tlc

PROP = "C03"


def file_guard(rep: Report, mods):
    cfg = "\n".join(["SPECIFICATION Spec", "PROPERTY NeverBreakValid", "PROPERTY NoWriteIfEqual",
                     "INVARIANT ReturnTellsWritten", "INVARIANT Dump", "CHECK_DEADLOCK FALSE", ""])
    res = run_tlc("FileWrite", cfg, workers=2, timeout_s=600)
    rep.add_tlc(res, "FileWrite (write guard of format_file)")
    if res.violated:
        rep.violation(f"FileWrite.tla: {res.violated} fails", {"trace": res.error_trace})
        return 0
    main = mods["main"]
    # contents differ in length and in the number of UTF-8 bytes per character (a write that counts one for the other shows)
    texts = {(True, 1): "x = 1\n", (True, 2): "y = 2\n", (False, 1): "x = (1\n", (False, 2): "y = )2\n",
             (True, 3): "s = '\u00e9\u20ac\U0001F600 and a longer line of text'\nprint(s)\n", (False, 3): "s = ('\u00e9\u20ac\n",
             (True, 4): "z=3\n", (False, 4): "(\n"}
    tmp = tempfile.mkdtemp(prefix="verif-c03-")
    n = 0
    orig = main.format_code
    try:
        # every terminal state gives: initial disk content is not in the record (disk is the final one), so
        # enumerate the initial contents here and look the expectation up by (initial, formatted)
        expect = {}
        for r in res.records:
            pass
        for dv in (True, False):
            for di in (1, 2, 3, 4):
                for fv in (True, False):
                    for fi in (1, 2, 3, 4):
                        initial, formatted = texts[(dv, di)], texts[(fv, fi)]
                        should_write = formatted != initial and (fv or not dv)
                        path = Path(tmp) / f"f_{dv}_{di}_{fv}_{fi}.py"
                        path.write_bytes(initial.encode("utf-8"))
                        os.utime(path, ns=(10 ** 18, 10 ** 18))
                        main.format_code = lambda *a, _f=formatted, **k: _f
                        try:
                            ret = main.format_file(path)
                        finally:
                            main.format_code = orig
                        after = path.read_bytes().decode("utf-8", errors="replace")
                        touched = os.stat(path).st_mtime_ns != 10 ** 18
                        n += 1
                        case = {"initial": initial, "formatter_returns": formatted, "file_after": after,
                                "rewritten": touched, "returned": bool(ret), "spec_written": should_write}
                        if dv and not proj.valid(after):
                            rep.violation("format_file replaced a valid file by an invalid one", case)
                        elif formatted == initial and touched:
                            rep.violation("format_file rewrote a file whose formatted text equals its content", case)
                        elif touched != should_write or (after == formatted) != should_write and formatted != initial:
                            rep.violation("format_file's write decision differs from FileWrite.tla", case)
                        elif bool(ret) != should_write:
                            rep.violation("format_file's return value does not tell whether the file was written", case)
        # the real formatter on files it leaves alone (with and without a final newline): must not be rewritten
        main.format_code = orig
        for k, (origin, text) in enumerate(list(corpus.repo_snippets())[:: 9]):
            for variant in (text, text.rstrip("\n"), "# pyrefact: skip_file\n" + text.rstrip("\n")):
                try:
                    settled = variant
                    for _ in range(3):
                        settled = orig(settled)
                    if orig(settled) != settled:
                        continue
                except Exception:
                    continue
                for content in {settled, settled.rstrip("\n")}:
                    try:
                        if orig(content) != content:
                            continue
                    except Exception:
                        continue
                    # stored with LF and with CRLF line ends (the text the formatter sees is the same)
                    for eol_name, stored in (("lf", content.encode("utf-8")), ("crlf", content.replace("\n", "\r\n").encode("utf-8"))):
                        if eol_name == "crlf" and ("\r" in content or '"""' in content or "'''" in content or "\\\n" in content):
                            continue        # line ends inside literals / continuations are part of the program text
                        path = Path(tmp) / f"settled_{k}_{eol_name}.py"
                        path.write_bytes(stored)
                        os.utime(path, ns=(10 ** 18, 10 ** 18))
                        try:
                            ret = main.format_file(path)
                        except Exception:
                            continue
                        n += 1
                        if path.read_bytes() != stored or os.stat(path).st_mtime_ns != 10 ** 18 or ret:
                            rep.violation(f"format_file rewrote a file ({eol_name} line ends) whose formatted text equals its content",
                                          {"content": content, "line_ends": eol_name, "file_after": path.read_bytes().decode("utf-8", "replace"),
                                           "returned": bool(ret)})
    finally:
        main.format_code = orig
        shutil.rmtree(tmp, ignore_errors=True)
    return n


def substitution(rep: Report, mods, rng: random.Random, t: str) -> int:
    """sub/subn with patterns cut out of the source itself (so they occur) and generic replacements."""
    pm = mods["pattern_matching"]
    snippets = list(corpus.repo_snippets())
    snippets = rng.sample(snippets, 150 if t == "quick" else 800)
    n = 0
    for origin, text in snippets:
        try:
            tree = ast.parse(text)
        except SyntaxError:
            continue
        cands = [node for node in ast.walk(tree) if isinstance(node, (ast.Call, ast.BinOp, ast.Compare, ast.Return, ast.Assign))]
        for node in rng.sample(cands, min(3, len(cands))):
            try:
                pat = ast.unparse(node)
            except Exception:
                continue
            if "\n" in pat or "{" in pat or len(pat) > 80:
                continue
            repl = rng.choice(["replaced_value", "wrapper({})".format(pat), "None", "(1, 2)", ""])
            if isinstance(node, ast.stmt):
                repl = rng.choice(["pass", "replaced = 1", "", pat])
            for count in (0, 1):
                n += 1
                try:
                    out = pm.sub(pat, repl, text, count=count)
                except Exception as exc:
                    # crashes of the substitution API are C14's / C04's business; C03 is about its results
                    continue
                if not proj.valid(out):
                    rep.violation(f"pattern_matching.sub returned text that does not parse (pattern {pat!r}, replacement {repl!r})",
                                  {"origin": origin, "pattern": pat, "replacement": repl, "count": count, "source": text, "output": out})
    # directed: sources indented with tabs (sub / subn do not normalise them first) x replacements of more than one line
    tabbed = ["def f(a):\n\tif a:\n\t\tx = g(a)\n\t\treturn x\n\treturn 0\n",
              "class K:\n\tdef m(self, a):\n\t\tx = g(a)\n\t\treturn x\n",
              "for i in r:\n\tx = g(i)\n\tprint(x)\n",
              "def f(a):\n    if a:\n        x = g(a)\n        return x\n    return 0\n",
              "if c:\n\ttry:\n\t\tx = g(1)\n\tfinally:\n\t\tprint(2)\n"]
    multi = [("{{x}} = g({{y}})", "{{x}} = g({{y}})\nlog({{x}})"), ("{{x}} = g({{y}})", "if {{y}}:\n    {{x}} = g({{y}})\nelse:\n    {{x}} = None"),
             ("{{x}} = g({{y}})", "{{x}} = (\n    g({{y}})\n)"), ("g({{y}})", "h(\n    {{y}},\n    1,\n)"), ("return {{x}}", "log({{x}})\nreturn {{x}}")]
    for text in tabbed:
        if not proj.valid(text):
            raise MachineryError(f"directed substitution source does not parse: {text!r}")
        for pat, repl in multi:
            for fn in ("sub", "subn"):
                n += 1
                try:
                    out = getattr(pm, fn)(pat, repl, text)
                except Exception as exc:  # noqa: BLE001
                    rep.violation(f"pattern_matching.{fn} raised {type(exc).__name__} ({exc}) instead of returning valid text "
                                  f"(pattern {pat!r}, replacement {repl!r})", {"pattern": pat, "replacement": repl, "source": text})
                    continue
                out = out[0] if fn == "subn" else out
                if not proj.valid(out):
                    rep.violation(f"pattern_matching.{fn} returned text that does not parse (pattern {pat!r}, replacement {repl!r})",
                                  {"pattern": pat, "replacement": repl, "source": text, "output": out})
    return n


def scheduler_and_editor(rep: Report, mods, t: str) -> int:
    """Rewrites that would break the syntax, driven through both back-ends.

    (a) Scheduler.tla scenarios containing the unparsable replacement, replayed through processing.fix / chain;
    (b) the direct editor (alter_code / _replace_nodes / remove_nodes) with synthetic replacements, removals that
        empty a block, and insertions.  The result must parse (or be the unchanged input).
    """
    import c10
    core, processing = mods["core"], mods["processing"]
    layout = c10.Layout("stmt", 2)
    mc, cfg = c10.cfg_for2(layout, invariants=["ResultIsSplice", "Dump"], payloads=[0, 1, 2], explicit=[7],
                           ignore_sets=[[]], max_yields=2, ngroups=1)
    res = run_tlc("SchedMC", cfg, generated_files={"SchedMC.tla": mc}, timeout_s=1200, keep_stdout=False)
    rep.add_tlc(res, "Scheduler scenarios with unparsable replacements (C03 view)")
    rp = c10.Replayer(mods, layout)
    n = 0
    for rec in res.records:
        if not any(y["new"] == 1 for y in rec["yields"]):
            continue
        for entry in ("fix", "chain"):
            n += 1
            try:
                source, out, calls, _, _ = rp.run(rec, entry)
            except Exception as exc:
                rep.violation(f"processing.{entry} raised {exc!r} on a pass containing an unparsable rewrite",
                              {"scenario": rec, "entry": entry})
                continue
            if not proj.valid(out):
                rep.violation(f"processing.{entry} returned text that does not parse", {"scenario": rec, "entry": entry,
                                                                                      "source": source, "output": out})
    # (b) direct editor
    src = ("def f(a):\n    if a:\n        x = 1\n        y = 2\n    else:\n        z = 3\n    for i in a:\n        print(i)\n"
           "    return a\n\n\nclass K:\n    v = 1\n\n\nprint(f([1]))\n")
    root = core.parse(src)
    stmts = [n_ for n_ in ast.walk(root) if isinstance(n_, ast.stmt) and not isinstance(n_, (ast.FunctionDef, ast.ClassDef))]
    exprs = [n_ for n_ in ast.walk(root) if isinstance(n_, (ast.Call, ast.Constant, ast.Name)) and hasattr(n_, "lineno")]
    bad_expr = ast.Name(id="(((", ctx=ast.Load())
    bad_stmt = ast.Expr(value=ast.Name(id="))) (", ctx=ast.Load()))
    cases = []
    for node in stmts:
        cases.append(("remove", dict(removals=[node])))
        cases.append(("replace-stmt-bad", dict(replacements={node: bad_stmt})))
    for node in exprs[:12]:
        cases.append(("replace-expr-bad", dict(replacements={node: bad_expr})))
    # (several removals that together empty a block are not driven: no rule hands alter_code such a set, and
    #  alter_code treats removals one by one - recorded in DESIGN.md as behaviour outside the listed properties)
    # remove_nodes on sources with semicolons (separators directly after the node, later in the file, inside strings)
    tq = chr(39) * 3
    semi_sources = [
        "a = 1; b = 2; c = 3\nd = 'x; y'\nprint(a, b, c, d)\n",
        "def f():\n    x = 1; y = 2\n    return x + y;\n\n\ndef g():\n    z = ';  '\n    return z\n\n\nprint(f(), g())\n",
        "def twin_a(v):\n    return v + 1\n\n\ndef twin_b(v):\n    return v + 1\n\n\ndef report(width, height):\n    area = width * height;\n"
        "    text = " + tq + "a;\n    b" + tq + "\n    return area, text\n\n\nprint(twin_a(1), twin_b(1), report(2, 3))\n",
    ]
    for src2 in semi_sources:
        root2 = core.parse(src2)
        for node in [x for x in ast.walk(root2) if isinstance(x, ast.stmt)]:
            n += 1
            try:
                out = processing.remove_nodes(src2, [node], root2)
            except Exception:
                continue
            # expected tree: the original with exactly this statement removed (an emptied block gets `pass`)
            exp_tree = ast.parse(src2)
            target = next(x for x in ast.walk(exp_tree) if isinstance(x, ast.stmt) and type(x) is type(node) and
                          (x.lineno, x.col_offset, x.end_lineno, x.end_col_offset) ==
                          (node.lineno, node.col_offset, node.end_lineno, node.end_col_offset))
            for parent in ast.walk(exp_tree):
                for field in ("body", "orelse", "finalbody"):
                    blk = getattr(parent, field, None)
                    if isinstance(blk, list) and target in blk:
                        blk.remove(target)
                        if not blk and not isinstance(parent, ast.Module):
                            blk.append(ast.Pass())
            try:
                got = ast.dump(ast.parse(out))
            except SyntaxError:
                rep.violation("processing.remove_nodes returned text that does not parse",
                              {"source": src2, "removed": ast.unparse(node), "output": out})
                continue
            if got != ast.dump(exp_tree):
                rep.violation("processing.remove_nodes removed more (or less) than the statement it was given",
                              {"source": src2, "removed": ast.unparse(node), "output": out})
    for name, kw in cases:
        n += 1
        try:
            out = processing.alter_code(src, root, **kw)
        except SyntaxError as exc:
            rep.violation(f"processing.alter_code raised {type(exc).__name__} ({name})", {"case": name, "source": src})
            continue
        except Exception:
            continue
        if not proj.valid(out):
            rep.violation(f"the direct editor (alter_code, {name}) returned text that does not parse",
                          {"case": name, "source": src, "output": out})
    return n


def main(argv=None) -> int:
    rep = Report(PROP, "model_checking")
    mods = import_pyrefact()
    t = tier()
    rng = random.Random(seed())
    n_guard = file_guard(rep, mods)

    items = pipecheck.standard_inputs(rep, t, rng, snippets="all" if t != "quick" else "all",
                                      stdlib=25 if t == "quick" else 250,
                                      opts_list=({},) if t == "quick" else ({}, {"safe": True}), fragments=True)
    runs = pipecheck.run_and_validate(rep, items, label="C03 inputs", timeout=60 if t == "quick" else 180)
    nontrivial = 0
    syntax_errors = ("SyntaxError", "IndentationError", "TabError")
    for r in runs:
        if r.result is not None and r.result != r.source:
            nontrivial += 1
        # a stage that dies of a SyntaxError on valid input has been handed (or has built) text that does not parse: the invalid
        # text is the tool's own product.  Every other exception is C04's business.
        if r.result is None and r.error and str(r.error).startswith(syntax_errors) and proj.valid(r.source):
            raised = [e.get("stage") for e in r.events if isinstance(e, dict) and e.get("raised")]
            rep.violation(f"format_code raised {str(r.error)[:120]} on valid input (stage {raised[0] if raised else '?'}): the tool built text that "
                          f"does not parse; input {r.key}", {"input_id": r.key, "source": r.source, "options": r.opts_json(), "error": str(r.error)})
            continue
        bad = {c: p for c, p in r.verdict["bad"].items() if c in ("KeepValid", "FinalValid")}
        if not bad:
            continue
        pos = bad.get("KeepValid") or 0
        st = pipecheck.stage_texts(r, pos) if pos else None
        stage = st[0] if st else "format_code"
        rep.violation(f"{'/'.join(sorted(bad))}: stage {stage} turned valid Python into text that does not parse; input {r.key}",
                      {"input_id": r.key, "source": r.source, "options": r.opts_json(), "stage": stage,
                       "stage_input": st[1] if st else None, "stage_output": st[2] if st else r.result})

    # every rule in isolation
    snippets = list(corpus.repo_snippets())
    if t == "quick":
        snippets = rng.sample(snippets, 500)
    # the constructs of the Shapes catalogue as well (module level): rules in isolation have no later stage to hide behind
    import shapes
    snippets += [(f"catalogue:{name}", text + "\n") for name, (need, text) in sorted(shapes.CATALOGUE.items()) if need == "none" and proj.valid(text + "\n")]
    iso = isolated.run_isolated([(o, s) for o, s in snippets])
    fired: dict = {}
    n_iso = 0
    for origin, text, results in iso:
        n_iso += len(isolated.rule_names())
        for rule, out, err in results:
            if err is not None:
                if str(err).startswith(syntax_errors) and proj.valid(text):
                    rep.violation(f"rule {rule} raised {str(err)[:120]} on valid input: it built text that does not parse; input {origin}",
                                  {"input_id": origin, "rule": rule, "source": text, "error": str(err)})
                continue   # other crashes are C04's business
            fired[rule] = fired.get(rule, 0) + 1
            if not proj.valid(out):
                rep.violation(f"rule {rule} turned valid Python into text that does not parse; input {origin}",
                              {"input_id": origin, "rule": rule, "source": text, "output": out})
    n_sub = substitution(rep, mods, rng, t)
    n_sub += scheduler_and_editor(rep, mods, t)
    # Editor.tla: every conflict-free set of additions / removals / replacements on every small source, through the real alter_code
    import c03_editor
    editor_stats: dict = {}
    n_sub += c03_editor.run(rep, t, editor_stats, mode="conform", rng=rng)
    rep.coverage["editor_cases"] = editor_stats

    rep.coverage["evaluations"] = len(runs) + n_iso + n_sub + n_guard
    rep.coverage["distinct_nontrivial"] = nontrivial + sum(fired.values())
    rep.coverage["traces_validated_against_impl"] = len(runs) + n_guard
    rep.coverage["isolated_rule_firings"] = dict(sorted(fired.items()))
    rep.coverage["rules_never_fired"] = sorted(set(isolated.rule_names()) - set(fired))
    rep.coverage["substitutions"] = n_sub
    rep.coverage["rule"] = ("recorded format_code runs over Shapes.tla cases, repository snippets (also as indented fragments) and "
                            "stdlib modules, validated by TLC (KeepValid per stage, FinalValid); every rule on every snippet in "
                            "isolation; sub/subn with patterns cut from the source; the write-guard table of FileWrite.tla on "
                            "temp files; Editor.tla (sets of additions / removals / replacements in original coordinates, applied one after the "
                            "other: TLC checks sequential = simultaneous on conflict-free sets) replayed into processing.alter_code. "
                            "Non-trivial = the run / rule changed the text")
    for r in runs[:: max(1, len(runs) // 3)][:3]:
        rep.sample({"input_id": r.key, "source": r.source[:200], "stages_changing_text": [e["stage"] for e in r.changed_events()][:12]})
    rep.assumptions += ["validity = ast.parse succeeds (after textwrap.dedent for indented fragments)"]
    return rep.finish()


if __name__ == "__main__":
    sys.exit(main())
