"""C14 - pattern substitution rewrites exactly the matches and nothing else.

Subst.tla enumerates (module, pattern, replacement, bound value, count) cases with the matches of the pattern and,
for each case, EVERY admissible set of applied matches (eligible = not on an ignored line, non-overlapping, within
the count, maximal when the count is unlimited, non-empty when something is eligible).  Each case is rendered and
replayed into sub / subn (and the command line `replace`); the result must be the module in which one of the
admissible sets is replaced AT THE LEVEL OF SYNTAX TREES by the instantiated template (reference substitution on
the ast), lines of statements that are not touched must be there verbatim, and a pattern that does not occur must
give the source back byte for byte.  The model also says where the implementation's TEXTUAL splice cannot be right
(operator precedence): those cases are matched against the recorded finding, everything else is a violation.
"""
from __future__ import annotations

import ast
import contextlib
import copy
import io
import json
import multiprocessing as mp
import random
import shutil
import sys
import tempfile
from pathlib import Path
from typing import Dict, List, Optional, Tuple

from common import Report, import_pyrefact, tier, seed
from tlc import MachineryError, run_tlc

PROP = "C14"

PATTERN = {"callf": "f({{x}})", "seq": "f({{x}})\ng({{y}})", "absent": "q({{x}})"}
REPL = {"const": "h()", "one": "h({{x}})", "twice": "h({{x}}, {{x}})", "sum": "{{x}} + 1", "mul": "{{x}} * 2", "neg": "-{{x}}",
        "k2": "k({{x}}, {{y}})", "ifstmt": "if {{x}}:\n    h({{x}})"}


def repl_text(case) -> str:
    if case["repl"] == "self":
        return PATTERN[case["pat"]]
    return REPL[case["repl"]]


def value(case, i: int) -> str:
    return f"a{i}" if case["bind"] == "atom" else f"a{i} + b{i}"


def stmt_text(kind: str, v: str, i: int) -> str:
    return {"m": f"f({v})", "mm": f"f(f({v}))", "am": f"y{i} = f({v}) * 2", "arg": f"g(f({v}), 0)", "neg": f"z{i} = -f({v})",
            "att": f"w{i} = f({v}).real", "two": f"f({v}); f(c{i})", "ml": f"f(\n    {v}\n)", "blk": f"if c{i}:\n    f({v})",
            "ig": f"f({v})  # pyrefact: ignore", "n": f"g({v})",
            "igml": f"f(\n    {v}  # pyrefact: ignore\n)", "igend": f"f(\n    {v}\n)  # pyrefact: ignore",
            "blk2": f"if c{i}:\n    if d{i}:\n        f({v})"}[kind]


def render(case) -> Tuple[str, List[str]]:
    stmts = [stmt_text(k, value(case, i), i) for i, k in enumerate(case["stmts"], start=1)]
    return "\n".join(stmts) + "\n", stmts


# ------------------------------------------------------------------------------------------ reference substitution
def f_calls(tree: ast.Module, stmts: List[str]):
    """{(stmt index, depth, k): Call node} for the calls of f, as Subst.tla numbers them (a statement of the model is one
    rendered line group; `f(a); f(c)` are two ast statements but one statement of the model)."""
    out = {}
    first_line, groups = 1, []
    for st in stmts:
        n = st.count("\n") + 1
        groups.append((first_line, first_line + n - 1))
        first_line += n
    for si, (lo, hi) in enumerate(groups, start=1):
        per_depth: Dict[int, List[ast.Call]] = {}
        holder = ast.Module(body=[b for b in tree.body if lo <= b.lineno <= hi], type_ignores=[])
        stmt = holder

        def visit(node, depth):
            for child in ast.iter_child_nodes(node):
                if isinstance(child, ast.Call) and isinstance(child.func, ast.Name) and child.func.id == "f":
                    per_depth.setdefault(depth, []).append(child)
                    visit(child, depth + 1)
                else:
                    visit(child, depth)
        visit(stmt, 0)
        for depth, calls in per_depth.items():
            for k, call in enumerate(sorted(calls, key=lambda c: (c.lineno, c.col_offset)), start=1):
                out[(si, depth, k)] = call
    return out


def instantiate(template: str, bindings: Dict[str, ast.AST]) -> List[ast.stmt]:
    text = template
    for name in bindings:
        text = text.replace("{{" + name + "}}", f"__{name.upper()}__")
    tree = ast.parse(text)

    class Fill(ast.NodeTransformer):
        def visit_Name(self, node):
            for name, b in bindings.items():
                if node.id == f"__{name.upper()}__":
                    return copy.deepcopy(b)
            return node
    return Fill().visit(tree).body


def ideal_dump(text: str, case, applied: List[dict], stmts: List[str]) -> str:
    tree = ast.parse(text)
    repl = repl_text(case)
    if case["pat"] == "seq":
        body = []
        starts = {m["s"] for m in applied}
        i = 1
        while i <= len(tree.body):
            if i in starts:
                x, y = tree.body[i - 1].value.args[0], tree.body[i].value.args[0]
                body += instantiate(repl, {"x": x, "y": y})
                i += 2
            else:
                body.append(tree.body[i - 1])
                i += 1
        tree.body = body
        return ast.dump(tree)
    calls = f_calls(tree, stmts)
    targets = {id(calls[(m["s"], m["d"], m["k"])]): m for m in applied}

    class Sub(ast.NodeTransformer):
        def visit_Expr(self, node):
            if id(node.value) in targets:
                new = instantiate(repl, {"x": node.value.args[0]})
                if not isinstance(new[0], ast.Expr):
                    return new                  # the replacement is a statement: it takes the place of the statement
            return self.generic_visit(node)

        def visit_Call(self, node):
            if id(node) in targets:
                new = instantiate(repl, {"x": node.args[0]})
                return new[0].value          # the binding is taken as it is: nested matches are not applied together
            return self.generic_visit(node)
    return ast.dump(Sub().visit(tree))


def textual_splice(text: str, case, applied: List[dict], stmts: List[str]) -> Optional[str]:
    """What pasting the instantiated template over the match as text gives (the model of the implementation)."""
    if case["pat"] != "callf":
        return None
    tree = ast.parse(text)
    calls = f_calls(tree, stmts)
    lines = text.split("\n")
    offs = [0]
    for ln in lines:
        offs.append(offs[-1] + len(ln) + 1)
    edits = []
    for m in applied:
        node = calls[(m["s"], m["d"], m["k"])]
        start = offs[node.lineno - 1] + node.col_offset
        end = offs[node.end_lineno - 1] + node.end_col_offset
        edits.append((start, end, repl_text(case).replace("{{x}}", ast.unparse(node.args[0]))))
    out = text
    for start, end, new in sorted(edits, reverse=True):
        out = out[:start] + new + out[end:]
    return out


def dump_or_none(text: str) -> Optional[str]:
    try:
        return ast.dump(ast.parse(text))
    except SyntaxError:
        return None


def untouched_verbatim(stmts: List[str], touched: set, result: str) -> Optional[str]:
    """Lines of statements no applied match lies in must appear verbatim, in order."""
    res_lines = result.split("\n")
    pos = 0
    for i, st in enumerate(stmts, start=1):
        if i in touched:
            continue
        for line in st.split("\n"):
            try:
                pos = res_lines.index(line, pos) + 1
            except ValueError:
                return line
    return None


def _chunk(args):
    recs, with_cli = args
    mods = import_pyrefact()
    pm = mods["pattern_matching"]
    st = {"cases": 0, "with_matches": 0, "explained": 0, "sensitive": 0, "cli": 0}
    machinery, bad = [], []
    tmpdir = tempfile.mkdtemp(prefix="verif-c14-")
    try:
        for n_rec, rec in enumerate(recs):
            case = rec["case"]
            text, stmts = render(case)
            pattern, repl, count = PATTERN[case["pat"]], repl_text(case), case["count"]
            st["cases"] += 1
            try:
                tree = ast.parse(text)
                if case["pat"] == "callf":
                    found = sorted(f_calls(tree, stmts))
                    model = sorted((m["s"], m["d"], m["k"]) for m in rec["matches"])
                    if found != model:
                        machinery.append({"why": "the matches in the rendered module are not those of the model", "case": case, "source": text,
                                          "model": model, "found": found})
                        continue
                ideals = [(S, ideal_dump(text, case, S, stmts)) for S in rec["admissible"]]
            except Exception as exc:  # noqa: BLE001
                machinery.append({"why": f"reference substitution failed: {type(exc).__name__}: {exc}", "case": case, "source": text})
                continue
            try:
                r, n = pm.subn(pattern, repl, text, count=count)
                r2 = pm.sub(pattern, repl, text, count=count)
            except Exception as exc:  # noqa: BLE001
                bad.append({"what": f"sub/subn raised {type(exc).__name__}: {exc}", "case": case, "source": text, "sensitive": rec["sensitive_any"]})
                continue
            base = {"case": case, "source": text, "pattern": pattern, "replacement": repl, "count": count, "result": r, "n": n,
                    "sensitive": rec["sensitive"], "sensitive_any": rec["sensitive_any"]}
            if r2 != r:
                bad.append(dict(base, what="sub and subn give different texts"))
                continue
            if not rec["matches"]:
                if r != text:
                    bad.append(dict(base, what="the pattern does not occur, but the source is not returned byte for byte"))
                continue
            st["with_matches"] += 1
            got = dump_or_none(r)
            hits = [S for S, d in ideals if d == got] if got is not None else []
            hit = hits[0] if hits else None
            if count > 0 and n > count:
                bad.append(dict(base, what=f"subn reports {n} replacements, the count argument is {count}"))
                continue
            if hit is not None:
                st["explained"] += 1
                miss = None
                for cand in hits:       # several admissible sets may give the same tree (self substitution): any of them may be the applied one
                    touched = set()
                    for m in cand:
                        touched.update(range(m["s"], m["to"] + 1))
                    miss = untouched_verbatim(stmts, touched, r)
                    if miss is None:
                        hit = cand
                        break
                if miss is not None:
                    bad.append(dict(base, what=f"a line no applied match lies on was changed: {miss!r}", applied=hit))
                elif with_cli and count == 0 and n_rec % 7 == 0 and not repl.startswith("-"):
                    st["cli"] += 1
                    path = Path(tmpdir, "case.py")
                    path.write_text(text)
                    with contextlib.redirect_stdout(io.StringIO()):
                        try:
                            pm.main(["replace", pattern, repl, str(path)])
                            after = path.read_text()
                        except BaseException as exc:  # noqa: BLE001
                            if isinstance(exc, KeyboardInterrupt):
                                raise
                            after = f"raised {type(exc).__name__}: {exc}"
                    if after != r:
                        bad.append(dict(base, what="`pattern_matching replace` leaves a different file than sub() returns", cli_result=after))
                continue
            # not explained by any admissible set: is it the textual splice the model warns about?
            kf = False
            for S in rec["sensitive_sets"]:
                if not S:
                    continue
                tx = textual_splice(text, case, S, stmts)
                if tx is None:
                    continue
                st["sensitive"] += 1
                tx_dump = dump_or_none(tx)
                if r == tx or (got is not None and got == tx_dump):
                    bad.append(dict(base, textual_splice=tx, applied=S, kf=True,
                                    what="the result is the textual splice, whose tree is not the tree with the matches replaced"))
                    kf = True
                    break
            if not kf and r == text and rec["sensitive_sets"]:
                # several rewrites are validated together: a splice that is wrong or does not parse takes the others with it
                bad.append(dict(base, kf=True, what="nothing is replaced although the pattern occurs (a textual splice among the rewrites is wrong)"))
                kf = True
            if kf:
                continue
            what = ("the pattern occurs outside ignored lines but nothing was replaced" if r == text else
                    "the result is not the module with an admissible set of matches replaced by the instantiated template")
            bad.append(dict(base, what=what))
    finally:
        shutil.rmtree(tmpdir, ignore_errors=True)
    return st, machinery, bad


# ------------------------------------------------------------------------------------------ beyond the grammar of Subst.tla
# (pattern, replacement, source, the source an ideal substitution is tree-equal to).  Shapes the model does not generate:
# matched generator expressions that share the parentheses of their call (callee names of every ending), bound texts with
# backslash escapes, replacements that only re-indent the matched lines (statements moved into / out of a block).
def geometry_cases() -> List[Tuple[str, str, str, str]]:
    """Layouts of Geometry.tla (characters that str.splitlines counts as line ends but Python does not, multi-byte
    characters, CR / CRLF line ends, in front of and on the line of the match) under substitution: exactly the call is
    rewritten, wherever it stands."""
    import c13
    out = []
    fills = [[]] + [[{"sp": sp, "eol": eol}] for sp in ("none", "u2", "u4", "ff", "ls", "nel", "fs", "ps", "ffline") for eol in ("lf", "crlf")]
    fills += [[{"sp": "ls", "eol": "lf"}, {"sp": "ffline", "eol": "lf"}], [{"sp": "u4", "eol": "cr"}, {"sp": "nel", "eol": "lf"}]]
    for fill in fills:
        for pre in ("absent", "none", "u2", "u4", "ff", "ls"):
            for indent in (0, 4):
                for node in ("call", "ucall", "multi", "paren"):
                    for eol in ("lf", "crlf"):
                        lay = {"fill": fill, "pre": pre, "indent": indent, "node": node, "trail": False, "eol": eol, "feol": eol}
                        try:
                            text, _ = c13.render(lay)
                            seg = c13.cpython_segment(text, node)
                        except (SyntaxError, ValueError):
                            continue
                        if not seg or text.count(seg) != 1 or not seg.startswith("f("):
                            continue
                        out.append(("f({{x}})", "g({{x}})", text, text.replace(seg, "g(" + seg[2:])))
    return out


def special_cases() -> List[Tuple[str, str, str, str]]:
    out = geometry_cases()
    # text that occurs in the source as a PIECE of an f-string (or as a format specification) and reads as an expression, and the
    # same text as a string literal of the replacement: the literal stays a literal
    for fstr, lit in (('f"{width}px"', '"px"'), ('f"{n:d}"', '"d"'), ('f"{a}42"', '"42"'), ('f"None{a}"', '"None"'), ('f"{a!r:>8}"', '">8"'),
                      ("f'{a} and {b}'", '" and "'), ('f"{a}x" f"{b}y"', '"y"')):
        out.append(("convert({{x}})", "convert({{x}}, " + lit + ")", f"label = {fstr}\nconvert(width)\n", f"label = {fstr}\nconvert(width, {lit})\n"))
    for callee in ("sum", "sum2", "np.float64", "math.atan2", "total_", "agg[0]", "mk()", "f"):
        out.append(("({{e}} for {{v}} in {{it}})", "list({{it}})", f"r = {callee}(v * v for v in xs)\nprint(r)\n", f"r = {callee}(list(xs))\nprint(r)\n"))
        out.append(("({{e}} for {{v}} in {{it}})", "[{{e}} for {{v}} in {{it}}]", f"r = {callee}(v + 1 for v in xs)\n", f"r = {callee}([v + 1 for v in xs])\n"))
        out.append(("({{e}} for {{v}} in {{it}})", "map(abs, {{it}})", f"if c:\n    r = {callee}(abs(v) for v in xs)\n", f"if c:\n    r = {callee}(map(abs, xs))\n"))
    for text in ("'C:\\\\temp\\\\new.txt'", "'a\\nb'", "r'\\d+\\s'", "'tab\\there'", "'\\\\1 and \\\\g<0>'", "b'\\x00\\xff'"):
        out.append(("print({{x}})", "print({{x}})", f"print({text})\n", f"print({text})\n"))
        out.append(("f({{x}})", "g({{x}}, {{x}})", f"y = f({text})\n", f"y = g({text}, {text})\n"))
    moves = [
        ("for {{i}} in {{r}}:\n    {{body}}\n{{after}}", "for {{i}} in {{r}}:\n    {{body}}\n    {{after}}",
         "for i in r:\n    f(i)\ng(i)\n", "for i in r:\n    f(i)\n    g(i)\n"),
        ("if {{c}}:\n    {{body}}\n{{after}}", "if {{c}}:\n    {{body}}\n    {{after}}", "if c:\n    f(1)\ng(2)\nh(3)\n", "if c:\n    f(1)\n    g(2)\nh(3)\n"),
        ("while {{c}}:\n    {{body}}\n{{after}}", "while {{c}}:\n    {{body}}\n    {{after}}", "def k():\n    while c:\n        f(1)\n    g(2)\n",
         "def k():\n    while c:\n        f(1)\n        g(2)\n"),
        ("if {{c}}:\n    {{first}}\n    {{second}}", "if {{c}}:\n    {{first}}\n{{second}}", "if c:\n    f(1)\n    g(2)\n", "if c:\n    f(1)\ng(2)\n"),
        ("with {{a}}:\n    {{first}}\n    {{second}}", "with {{a}}:\n    {{first}}\n{{second}}", "def k():\n    with a:\n        f(1)\n        g(2)\n",
         "def k():\n    with a:\n        f(1)\n    g(2)\n"),
    ]
    out += moves
    return out


def special_part(rep: Report, mods, known) -> int:
    pm = mods["pattern_matching"]
    n = 0
    for pattern, repl, source, ideal in special_cases():
        n += 1
        try:
            got = pm.sub(pattern, repl, source)
        except Exception as exc:  # noqa: BLE001
            rep.violation(f"sub({pattern!r}, {repl!r}, {source!r}) raised {type(exc).__name__}: {exc}", {"pattern": pattern, "replacement": repl, "source": source})
            continue
        if dump_or_none(got) == dump_or_none(ideal) and dump_or_none(got) is not None:
            continue
        case = {"pattern": pattern, "replacement": repl, "source": source, "result": got, "ideal_is_tree_equal_to": ideal}
        what = ("the pattern occurs but nothing was replaced" if got == source and dump_or_none(source) != dump_or_none(ideal) else
                "the result is not the source with the match replaced by the instantiated template")
        rep.violation(f"sub({pattern!r}, {repl!r}, {source!r}): {what}: {got!r}", case)
    return n


def main(argv=None) -> int:
    rep = Report(PROP, "model_checking")
    import_pyrefact()
    t = tier()
    rng = random.Random(seed())
    known = {e["id"] for e in rep.known_entries()}
    stats: Dict[str, int] = {}
    runs = [("callf", dict(kinds='{"m", "mm", "am", "arg", "neg", "att", "two", "ml", "blk", "blk2", "ig", "igml", "igend", "n"}', pats='{"callf", "absent"}',
                           repls='{"const", "one", "twice", "self", "sum", "mul", "neg", "ifstmt"}', binds='{"atom", "sum"}',
                           counts="{0, 1, 2}", maxstmts=2 if t == "quick" else 3)),
            ("seq", dict(kinds='{"m", "n", "ig", "blk"}', pats='{"seq"}', repls='{"k2", "self", "const"}', binds='{"atom", "sum"}',
                         counts="{0, 1}", maxstmts=4))]
    all_recs = []
    for label, c in runs:
        cfg = "\n".join(["CONSTANTS", f"  StmtKinds = {c['kinds']}", f"  Patterns = {c['pats']}", f"  Repls = {c['repls']}", f"  Binds = {c['binds']}",
                         f"  Counts = {c['counts']}", f"  MaxStmts = {c['maxstmts']}", "INIT Init", "NEXT Next", "INVARIANT GreedyBounded",
                         "INVARIANT Dump", "CHECK_DEADLOCK FALSE", ""])
        res = run_tlc("Subst", cfg, timeout_s=3000, keep_stdout=False, heap_gb=12)
        rep.add_tlc(res, f"Subst {label}")
        if res.violated:
            raise MachineryError(f"Subst.tla: {res.violated} fails (the model of the implementation's choice is inconsistent)")
        if not res.records:
            raise MachineryError("Subst: no cases")
        all_recs += res.records
    if t == "quick" and len(all_recs) > 16000:
        all_recs = rng.sample(all_recs, 16000)
        rep.coverage["cases_sampled"] = True
    n = 16
    with mp.get_context("fork").Pool(n) as pool:
        parts = pool.map(_chunk, [(all_recs[i::n], True) for i in range(n)])
    for st, machinery, bad in parts:
        for k, v in st.items():
            stats[k] = stats.get(k, 0) + v
        if machinery:
            raise MachineryError(f"Subst.tla / its renderer disagree with CPython: {json.dumps(machinery[:2], default=str)[:1500]}")
        for case in bad:
            if case.pop("kf", False) and "KF-C14-1" in known:
                rep.known("KF-C14-1", {"source": case["source"], "pattern": case["pattern"], "replacement": case["replacement"], "result": case["result"]})
            else:
                rep.violation(f"sub({case.get('pattern')!r}, {case.get('replacement')!r}, {case['source']!r}, count={case.get('count')}): {case['what']}", case)
    stats["special_cases"] = special_part(rep, import_pyrefact(), known)
    # Fields.tla (optional parts of syntax forms, expression contexts): which code a pattern selects for rewriting
    import c12_fields
    c12_fields.run(rep, t, stats, api="subn")
    rep.sample({"case": all_recs[0]["case"], "source": render(all_recs[0]["case"])[0], "admissible": all_recs[0]["admissible"]})
    rep.coverage["evaluations"] = stats.get("cases", 0) + stats.get("special_cases", 0) + stats.get("field_cases", 0) + stats.get("ctx_sources", 0)
    rep.coverage["distinct_nontrivial"] = stats.get("with_matches", 0)
    rep.coverage["traces_validated_against_impl"] = stats.get("cases", 0)
    rep.coverage["detail"] = stats
    rep.coverage["rule"] = ("every Subst.tla case (modules of 1..3 statements over 11 statement kinds x patterns x 7 replacement templates x 2 bound values x "
                            "counts 0/1/2; statement-sequence patterns over 1..4 statements) replayed into sub / subn (a sample also into the command line); "
                            "the tree of the result must equal the reference substitution for one of the admissible sets TLC enumerated; "
                            "non-trivial = the pattern occurs. Fields.tla: every (pattern variant, code variant) of the optional parts of 27 syntax "
                            "forms and every expression context holding an occurrence, through subn: the count and the untouched text")
    rep.assumptions += ["which admissible set of matches is applied is left to the implementation (TLC enumerates them all)",
                        "the number returned by subn is only required not to exceed a positive count (the statement does not say more)"]
    return rep.finish()


if __name__ == "__main__":
    sys.exit(main())
