------------------------------- MODULE Repeat -------------------------------
(***************************************************************************)
(* Repeated application of the formatter to its own output (C09).           *)
(* A history is the sequence of text digests  x, f(x), f(f(x)), ...          *)
(* recorded from the real formatter; TLC evaluates the convergence clauses   *)
(* on every recorded history (trace validation with a total verdict).        *)
(*   Converges : a fixed point is reached within Budget applications        *)
(*   Stays     : from the first fixed point on the text never changes again *)
(*   NoCycle   : no text other than the fixed point occurs twice            *)
(***************************************************************************)
EXTENDS Integers, Sequences, FiniteSets, TLC, Json, IOUtils

CONSTANT Budget      \* MAX_MODULE_PASSES

Histories == JsonDeserialize(IOEnv.TRACE_FILE)

VARIABLE hi
vars == <<hi>>

FirstFixed(h) ==
    LET S == {i \in 1..(Len(h) - 1) : h[i] = h[i + 1]}
    IN IF S = {} THEN 0 ELSE CHOOSE i \in S : \A j \in S : i <= j

Converges(h) == FirstFixed(h) # 0 /\ FirstFixed(h) <= Budget + 1
Stays(h) == FirstFixed(h) # 0 => \A j \in FirstFixed(h)..Len(h) : h[j] = h[FirstFixed(h)]
NoCycle(h) == \A i, j \in 1..Len(h) : (i + 1 < j /\ h[i] = h[j]) => \A k \in i..j : h[k] = h[i]

Verdict(h) ==
    IF ~NoCycle(h) THEN "NoCycle"
    ELSE IF ~Converges(h) THEN "Converges"
    ELSE IF ~Stays(h) THEN "Stays"
    ELSE "ok"

Init == hi = 1
Next == /\ hi <= Len(Histories)
        /\ PrintT(<<"@@J", ToJson([id |-> Histories[hi].id, verdict |-> Verdict(Histories[hi].h),
                                   fixed |-> FirstFixed(Histories[hi].h)])>>)
        /\ hi' = hi + 1
=============================================================================
