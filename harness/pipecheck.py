"""Shared driver of the PipelineTrace-based checks (C01, C03, C04, C07, C08, C09, C11, C20)."""
from __future__ import annotations

import random
import textwrap
from typing import Any, Callable, Dict, List, Optional, Sequence, Tuple

import blame
import corpus
import ptrace
import shapes
from common import Report, import_pyrefact
from tlc import MachineryError


class Run:
    __slots__ = ("key", "source", "opts", "result", "error", "events", "trace", "verdict")

    def __init__(self, key, source, opts, result, error, events):
        self.key, self.source, self.opts, self.result, self.error, self.events = key, source, opts, result, error, events
        self.trace = None
        self.verdict = None

    def changed_events(self):
        return [e for e in self.events if isinstance(e, dict) and e.get("changed")]

    def opts_json(self):
        return {k: (sorted(v) if isinstance(v, (set, frozenset)) else v) for k, v in self.opts.items()}


def run_and_validate(rep: Report, items: Sequence[Tuple[Any, str, dict]], *, want: Sequence[str] = (),
                     obs: Optional[Callable[[str], Any]] = None, label: str = "inputs", timeout: float = 120.0,
                     preserve_of: Optional[Callable[[Any], Sequence[str]]] = None) -> List[Run]:
    mods = import_pyrefact()
    consts = ptrace.code_constants(mods)
    raw = ptrace.run_traced(items, timeout=timeout)
    runs = [Run(*r) for r in raw]
    if obs is not None and "obs" in want:
        # observations are computed in bulk by the caller-provided function with a prefetch hook
        prefetch = getattr(obs, "prefetch", None)
        if prefetch:
            prefetch([r.source for r in runs] + [r.result for r in runs if r.result is not None])
    traces = []
    for i, r in enumerate(runs, start=1):
        pres = tuple(preserve_of(r) if preserve_of else r.opts.get("preserve", ()))
        r.trace = ptrace.build_trace(i, r.source, {k: v for k, v in r.opts.items() if k != "preserve"}, r.result, r.error,
                                     r.events, consts, want=want, obs=obs, preserve_names=pres)
        traces.append(r.trace)
    verdicts = ptrace.validate(rep, traces, consts, label)
    for i, r in enumerate(runs, start=1):
        r.verdict = verdicts[i]
    rep.coverage["pipeline_constants_from_code"] = {k: v for k, v in consts.items() if k != "multi"}
    rep.coverage["control_structure_lost"] = rep.coverage.get("control_structure_lost", 0) + sum(1 for r in runs if r.verdict["lost"])
    return runs


def event_at(run: Run, position: int) -> Optional[dict]:
    """The trace event at a 1-based position reported by TLC."""
    ev = run.trace["ev"]
    return ev[position - 1] if 0 < position <= len(ev) else None


def stage_texts(run: Run, stage_name_at: int) -> Optional[Tuple[str, str, str]]:
    """(stage, before, after) of the recorded stage event corresponding to trace position `stage_name_at`."""
    e = event_at(run, stage_name_at)
    if e is None or e["k"] not in ("sub", "rule", "single"):
        return None
    # find the n-th text event among recorded changed events in order
    idx = sum(1 for x in run.trace["ev"][:stage_name_at] if x["k"] in ("sub", "rule", "single"))
    texts = []
    cur = run.source
    for rec in run.events:
        if "marker" in rec or rec.get("raised"):
            continue
        if rec["before"] != cur:
            texts.append(("pseudo", cur, rec["before"]))
            cur = rec["before"]
        if rec["changed"] or rec["stage"] == "single_run_chain":
            texts.append((rec["stage"], rec["before"], rec["after"]))
        cur = rec["after"]
    if 0 < idx <= len(texts):
        st, b, a = texts[idx - 1]
        return (e["s"], b, a)
    return None


def standard_inputs(rep: Report, t: str, rng: random.Random, *, shapes_on: bool = True, snippets: str = "all",
                    stdlib: int = 0, opts_list: Sequence[dict] = ({},), fragments: bool = False) -> List[Tuple[str, str, dict]]:
    items: List[Tuple[str, str, dict]] = []
    if shapes_on:
        for case in shapes.shape_cases(rep, t):
            src, opts = shapes.render_case(case)
            items.append((f"shape:{case['c']}:{case['pos']}:{'nl' if case['nl'] else 'nonl'}:{case['opt']}", src, opts))
    snips = list(corpus.repo_snippets())
    if snippets != "all":
        snips = rng.sample(snips, min(int(snippets), len(snips)))
    for origin, text in snips:
        for o in opts_list:
            tag = ",".join(f"{k}={v}" for k, v in sorted(o.items())) or "default"
            items.append((f"snippet:{origin}:{tag}", text, dict(o)))
        if fragments:
            items.append((f"snippet-fragment:{origin}", textwrap.indent(text, "    "), {}))
    if stdlib:
        std = list(corpus.stdlib_files(max_lines=150 if t == "quick" else 400))
        for origin, text in rng.sample(std, min(stdlib, len(std))):
            items.append((origin, text, {"safe": True}))
    return items


def known_by_signature(rep: Report, stage: str, before: str, after: str, source: str):
    sh = blame.shape(before, after)
    # an `input` pattern of a signature describes the text the guilty stage worked on; earlier stages may have
    # produced the construct (a `with` made by missing_context_manager), so both texts are offered
    case_text = source if before == source else source + "\n" + before
    for entry in rep.known_entries():
        if blame.matches_signature(entry, stage, sh, case_text):
            return entry["id"], sh
    return None, sh
