------------------------------- MODULE Fields -------------------------------
(***************************************************************************)
(* C12, the parts of the declarative reading Matcher.tla and Search.tla do  *)
(* not reach:                                                              *)
(*                                                                         *)
(* (1) OPTIONAL PARTS.  Many syntax forms have a part that may be absent    *)
(*     (the upper bound of a slice, the value of a return, the "as" name of *)
(*     an import, the annotation "-> t" of a def, ...).  In the tree an     *)
(*     absent part is the field value None.  "The code is the pattern with  *)
(*     each wildcard replaced by some syntax tree" then reads:              *)
(*        pattern part absent      matches exactly an absent part           *)
(*        pattern part literal p   matches exactly the same literal         *)
(*        pattern part wildcard    matches exactly a part that is present   *)
(*     A case fixes the variant of up to two optional parts of one form     *)
(*     (slot 1 / slot 2) in the pattern and in the code.  A form with a     *)
(*     named wildcard in both slots needs the SAME tree in both.            *)
(*     core._match_template_vars compares field by field (ImplPart): the    *)
(*     model of the implementation coincides with the ideal, and TLC checks *)
(*     that, plus reflexivity ("every piece of code matches itself").       *)
(*                                                                         *)
(* (2) EXPRESSION CONTEXTS.  "The search reports every occurrence of an     *)
(*     expression pattern in the source": a source is a sequence of hosts;  *)
(*     a host is an expression context (call argument, keyword, f-string    *)
(*     field, format spec, nested f-string, lambda body, default value,     *)
(*     decorator, annotation, comprehension element / iterable / filter,    *)
(*     subscript, starred, await, walrus, ...) holding a chain of nested    *)
(*     calls foo(foo(..bar(1)..)).  The number of reported occurrences is   *)
(*     the number of foo calls, whatever the context.                      *)
(***************************************************************************)
EXTENDS Integers, Sequences, FiniteSets, TLC, SequencesExt, Json

CONSTANTS
    Forms,       \* names of syntax forms with one or two optional slots
    TwoSlot,     \* subset of Forms with a second slot
    LiteralForms,\* forms whose "absent" variant is the literal None: a tree like any other
    Contexts,    \* names of expression contexts
    MaxHosts,    \* hosts per source
    MaxNest      \* nesting depth of the occurrence chain

VARIABLES mode, case
vars == <<mode, case>>

PV == {"absent", "p", "q", "wild"}      \* variants of a part in the pattern
NV == {"absent", "p", "q"}              \* variants of a part in the code

IdealPart(f, pv, nv) == CASE pv = "wild" -> (f \in LiteralForms \/ nv # "absent")
                          [] OTHER       -> pv = nv

\* field-by-field comparison, None is compared by identity, a wildcard never binds None
ImplPart(f, pv, nv) == IF pv = "absent" THEN nv = "absent"
                       ELSE IF pv = "wild" THEN (f \in LiteralForms \/ nv # "absent")
                       ELSE nv = pv

OptCases ==
    {[form |-> f, p1 |-> a, n1 |-> b, p2 |-> "absent", n2 |-> "absent"] :
        f \in Forms \ TwoSlot, a \in PV, b \in NV}
    \cup
    {[form |-> f, p1 |-> a, n1 |-> b, p2 |-> c, n2 |-> d] :
        f \in TwoSlot, a \in PV, b \in NV, c \in PV, d \in NV}

\* the same named wildcard is used in both slots
SameTree(c) == (c.p1 = "wild" /\ c.p2 = "wild") => c.n1 = c.n2

IdealOpt(c) == IdealPart(c.form, c.p1, c.n1) /\ IdealPart(c.form, c.p2, c.n2) /\ SameTree(c)
ImplOpt(c)  == ImplPart(c.form, c.p1, c.n1) /\ ImplPart(c.form, c.p2, c.n2) /\ SameTree(c)

IsSelf(c) == c.p1 = c.n1 /\ c.p2 = c.n2

-----------------------------------------------------------------------------
Hosts == [ctx : Contexts, hits : 0..MaxNest]
Sources == UNION {[1..n -> Hosts] : n \in 1..MaxHosts}

RECURSIVE Total(_)
Total(s) == IF s = <<>> THEN 0 ELSE Head(s).hits + Total(Tail(s))

-----------------------------------------------------------------------------
Init == /\ mode \in {"opt", "ctx"}
        /\ case = <<>>

Pick == /\ case = <<>>
        /\ \/ mode = "opt" /\ case' \in OptCases
           \/ mode = "ctx" /\ case' \in Sources
        /\ UNCHANGED mode

Next == Pick
Spec == Init /\ [][Next]_vars

ImplIsIdeal == (mode = "opt" /\ case # <<>>) => (IdealOpt(case) <=> ImplOpt(case))
Reflexive   == (mode = "opt" /\ case # <<>> /\ IsSelf(case)) => IdealOpt(case)
\* a wildcard never stands for nothing
WildNeedsTree == (mode = "opt" /\ case # <<>> /\ IdealOpt(case) /\ case.form \notin LiteralForms) =>
                    /\ (case.p1 = "wild" => case.n1 # "absent")
                    /\ (case.p2 = "wild" => case.n2 # "absent")

Dump == case = <<>> \/
        PrintT(<<"@@J", ToJson(
            IF mode = "opt"
              THEN [mode |-> mode, c |-> case, ideal |-> IF IdealOpt(case) THEN 1 ELSE 0]
              ELSE [mode |-> mode, src |-> case, total |-> Total(case)])>>)
=============================================================================
