------------------------------ MODULE Surface ------------------------------
(***************************************************************************)
(* The public surface of a module (C07) and the preserved set (C08).        *)
(* A module is a sequence of definitions                                    *)
(*   [kind, style, used]                                                    *)
(* kind  : how the name is bound - "func", "async", "class", "var",          *)
(*         "annvar", "augvar", "tuple", "chain" (A = B = v: the LATER target),*)
(*         "starred" (a, *NAME = ..), "listtarget" ([p, NAME] = ..),          *)
(*         "underscore" (the name _ ) at top level; "method", "selfless"     *)
(*         (a method that never uses self), "static", "classmeth",           *)
(*         "classattr" in the body of a top-level class; "initclass" (a      *)
(*         class whose __init__ / __repr__ are what has to survive);         *)
(*         "condinitclass" (the same, defined under an if statement rather   *)
(*         than directly in the module body)                                 *)
(* style : naming style of the identifier ("snake", "camel", "upper",        *)
(*         "private", "dunderish")                                          *)
(* used  : whether the module itself uses the name                          *)
(* plus module-level flags: dup (the first function has a duplicate),        *)
(* deco (definitions are decorated).                                        *)
(*                                                                         *)
(* MustSurvive(m) is the set of definition indices whose name has to be      *)
(* defined under the same name in the output:                               *)
(*   safe mode      : every definition (C07)                                *)
(*   preserve set P : the definitions whose index is in P (C08)             *)
(* The specification also records what an UNSAFE run may do (anything to an *)
(* unused definition), so that the generator space contains cases on which  *)
(* deleting / renaming rules really fire.                                   *)
(***************************************************************************)
EXTENDS Integers, Sequences, FiniteSets, TLC, Json

CONSTANTS Kinds, Styles, MaxDefs, Flags   \* Flags: set of <<dup, deco>>

VARIABLES defs, flag
vars == <<defs, flag>>

Def == [kind : Kinds, style : Styles, used : BOOLEAN]

Init == defs = <<>> /\ flag \in Flags
Add == /\ Len(defs) < MaxDefs
       /\ \E d \in Def : defs' = Append(defs, d)
       /\ UNCHANGED flag
Next == Add
Spec == Init /\ [][Next]_vars

InClass(d) == d.kind \in {"method", "selfless", "static", "classmeth", "classattr", "initclass", "condinitclass"}

\* C07: with the safe option every definition is part of the surface
MustSurviveSafe == {i \in 1..Len(defs) : TRUE}
\* C08: with preserve set P (a set of indices) exactly those
MustSurvivePreserve(P) == P \cap (1..Len(defs))

\* rules that delete or rename are expected to fire on these (vacuity witness for the generator)
AtRisk == {i \in 1..Len(defs) : ~defs[i].used \/ defs[i].style \in {"camel", "upper"} \/ defs[i].kind = "selfless"}

Dump == Len(defs) >= 1 =>
    PrintT(<<"@@J", ToJson([defs |-> defs, dup |-> flag[1], deco |-> flag[2],
                            atrisk |-> {i \in AtRisk : TRUE}])>>)
=============================================================================
