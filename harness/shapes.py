"""Catalogue of Python 3.12 constructs and the renderer of Shapes.tla cases."""
from __future__ import annotations

import ast
import textwrap
from typing import Dict, List, Tuple

from tlc import run_tlc, MachineryError

# name -> (need, text).  need: none | def | async | loop | class
CATALOGUE: Dict[str, Tuple[str, str]] = {
    "assign": ("none", "x = 1\nprint(x)"),
    "multi_assign": ("none", "a = b = [1, 2]\nprint(a, b)"),
    "tuple_unpack": ("none", "a, (b, *c) = 1, (2, 3, 4)\nprint(a, b, c)"),
    "augassign": ("none", "n = 1\nn += 2\nn **= 2\nprint(n)"),
    "annassign": ("none", "v: int = 3\nw: 'str'\nprint(v)"),
    "walrus": ("none", "if (m := len('abc')) > 2:\n    print(m)"),
    "delete": ("none", "d = {1: 2}\ndel d[1]\nprint(d)"),
    "global_stmt": ("def", "global counter\ncounter = 1\nprint(counter)"),
    "nonlocal_stmt": ("def", "val = 0\ndef inner():\n    nonlocal val\n    val += 1\n    return val\nprint(inner())"),
    "assert_msg": ("none", "assert 1 + 1 == 2, 'math'\nprint('ok')"),
    "raise_from": ("none", "try:\n    try:\n        raise KeyError('k')\n    except KeyError as e:\n        raise ValueError('v') from e\nexcept ValueError as err:\n    print(repr(err.__cause__))"),
    "try_full": ("none", "try:\n    print('body')\nexcept (TypeError, ValueError) as exc:\n    print(exc)\nexcept Exception:\n    raise\nelse:\n    print('else')\nfinally:\n    print('finally')"),
    "try_star": ("none", "try:\n    raise ExceptionGroup('g', [ValueError(1)])\nexcept* ValueError as eg:\n    print(len(eg.exceptions))"),
    "with_multi": ("none", "import contextlib\nwith contextlib.nullcontext(1) as a, contextlib.nullcontext(2) as b:\n    print(a + b)"),
    "with_paren": ("none", "import contextlib\nwith (\n    contextlib.nullcontext(1) as a,\n    contextlib.nullcontext(2) as b,\n):\n    print(a, b)"),
    "async_def": ("none", "import asyncio\nasync def co(n):\n    await asyncio.sleep(0)\n    return n * 2\nprint(asyncio.run(co(2)))"),
    "async_for_with": ("none", "import asyncio\nclass AC:\n    async def __aenter__(self):\n        return 1\n    async def __aexit__(self, *a):\n        return False\nasync def gen():\n    for i in range(2):\n        yield i\nasync def main():\n    async with AC() as v:\n        async for i in gen():\n            print(v, i)\n    print([i async for i in gen()])\nasyncio.run(main())"),
    "for_else": ("none", "for i in range(3):\n    if i == 5:\n        break\nelse:\n    print('no break')"),
    "while_else": ("none", "k = 0\nwhile k < 2:\n    k += 1\nelse:\n    print('done', k)"),
    "if_elif_else": ("none", "import sys\nif len(sys.argv) > 5:\n    print('a')\nelif len(sys.argv) > 3:\n    print('b')\nelse:\n    print('c')"),
    "match_literal": ("none", "cmd = 'go'\nmatch cmd:\n    case 'stop':\n        print(0)\n    case 'go' | 'run':\n        print(1)\n    case _:\n        print(2)"),
    "match_class_seq": ("none", "pt = (1, [2, 3])\nmatch pt:\n    case (x, [y, *rest]) if x > 0:\n        print(x, y, rest)\n    case {'k': v, **kw}:\n        print(v, kw)\n    case int(n) | float(n):\n        print(n)\n    case _:\n        pass"),
    "lambda_default": ("none", "fn = lambda a, b=2, *c, d, **e: (a, b, c, d, e)\nprint(fn(1, d=4))"),
    "listcomp_nested": ("none", "print([(i, j) for i in range(3) if i for j in range(i) if j != 7])"),
    "setcomp_dictcomp": ("none", "print(sorted({i % 2 for i in range(5)}), {k: v for k, v in zip('ab', (1, 2))})"),
    "genexp_arg": ("none", "print(sum(i * i for i in range(4)), any(x for x in [0, 1]))"),
    "ifexp_chain": ("none", "q = 3\nprint('a' if q > 5 else 'b' if q > 2 else 'c')"),
    "fstring_nested": ("none", "w, p = 7, 3.14159\nprint(f'{w:>{w}} {p!r:.4} {\"q\" + f\"{w}\"} {{literal}}')"),
    "fstring_multiline": ("none", "name = 'n'\nprint(f'''a {name}\n  b {name!s}\n''')"),
    "bytes_raw": ("none", "print(b'\\x00ab', r'\\d+\\n', rb'\\x')"),
    "string_concat": ("none", "s = ('ab'\n     'cd'\n     \"ef\")\nprint(s)"),
    "triple_quoted": ("none", "t = '''line1\n\tline2   \n\n\n\nline6'''\nprint(t)"),
    "ellipsis_slice": ("none", "arr = list(range(10))\nprint(arr[1:8:2], arr[::-1][:2], ...)"),
    "decorators": ("none", "import functools\ndef deco(f):\n    @functools.wraps(f)\n    def w(*a, **k):\n        return f(*a, **k) + 1\n    return w\n@deco\n@deco\ndef one():\n    return 1\nprint(one())"),
    "class_full": ("none", "class Meta(type):\n    pass\nclass Base:\n    pass\nclass K(Base, metaclass=Meta):\n    '''doc'''\n    attr = 1\n    def __init__(self, v):\n        self.v = v\n    @property\n    def p(self):\n        return self.v\n    @staticmethod\n    def s(a):\n        return a\n    @classmethod\n    def c(cls):\n        return cls.attr\nprint(K(2).p, K.s(3), K.c())"),
    "dataclass": ("none", "import dataclasses\n@dataclasses.dataclass(frozen=True)\nclass P:\n    x: int\n    y: int = 0\nprint(P(1))"),
    "type_alias_312": ("none", "type Pair[T] = tuple[T, T]\nprint(Pair.__name__)"),
    "generic_def_312": ("none", "def first[T](xs: list[T]) -> T:\n    return xs[0]\nclass Box[T]:\n    def __init__(self, v: T):\n        self.v = v\nprint(first([1, 2]), Box(3).v)"),
    "star_args_call": ("none", "def f(*a, **k):\n    return a, sorted(k.items())\nprint(f(*[1, 2], *(3,), **{'x': 1}, y=2))"),
    "posonly_kwonly": ("none", "def g(a, b=1, /, c=2, *, d, e=3):\n    return a + b + c + d + e\nprint(g(1, d=4))"),
    "yield_from": ("none", "def gen():\n    x = yield 1\n    yield from range(2)\n    return x\nprint(list(gen()))"),
    "return_in_loop": ("def", "for i in range(3):\n    if i == 1:\n        return i\nreturn -1"),
    "break_continue": ("loop", "if flag:\n    continue\nif not flag:\n    break\nprint('unreached?')"),
    "chained_compare": ("none", "a, b, c = 1, 2, 3\nprint(a < b <= c != a, a is not None, b in (1, 2), c not in [1])"),
    "matmul_ops": ("none", "class M:\n    def __matmul__(self, o):\n        return 'mm'\nprint(M() @ M(), 7 // 2, 7 % 3, 2 ** 3, ~1, 1 << 2, 6 >> 1, 5 & 3, 5 | 3, 5 ^ 3)"),
    "imports": ("none", "import os.path as osp\nfrom collections import OrderedDict, defaultdict as dd\nfrom os import *\nimport sys, re\nprint(osp.sep, OrderedDict, dd, re.escape('.'), sys.maxsize > 0)"),
    "relative_import": ("none", "try:\n    from . import sibling\n    from ..pkg import name as alias\nexcept ImportError:\n    print('no parent')"),
    "semicolons": ("none", "a = 1; b = 2; print(a + b)"),
    "backslash_cont": ("none", "total = 1 + \\\n    2 + \\\n    3\nprint(total)"),
    "paren_multiline": ("none", "value = (\n    1\n    + 2\n    # comment inside\n    + 3\n)\nprint(value)"),
    "docstrings": ("none", "'''Module docstring.\n\n   indented\n'''\ndef f():\n    \"\"\"Function docstring with trailing spaces.   \n    \"\"\"\n    return 1\nprint(f.__doc__ is not None)"),
    "pass_only": ("none", "pass"),
    "empty_def_class": ("none", "def e():\n    pass\nclass E:\n    ...\nprint(e(), E)"),
    "nested_functions": ("none", "def outer(a):\n    def mid(b):\n        def inner(c):\n            return a + b + c\n        return inner\n    return mid\nprint(outer(1)(2)(3))"),
    "comments_everywhere": ("none", "# leading\nx = 1  # trailing\n# between\n\nif x:  # on if\n    # only comment then statement\n    print(x)\n# end"),
    "commented_code": ("none", "# import os\n# x = compute(1, 2)\n# for i in range(3):\n#     print(i)\nprint('live')"),
    "dict_set_literals": ("none", "d = {'a': 1, **{'b': 2}}\ns = {1, 2, *[3]}\nprint(d, sorted(s), [*d], (*s,))"),
    "subscript_store": ("none", "m = [[0] * 2 for _ in range(2)]\nm[0][1] = 5\nm[1][:] = [7, 8]\nprint(m)"),
    "attribute_chain": ("none", "import os\nprint(os.path.join('a', 'b').upper().lower().split('/')[0])"),
    "number_literals": ("none", "print(0x_ff, 0b101, 0o17, 1_000, 1e3, 1.5j, .5, 5.)"),
    "unicode_idents": ("none", "größe = 3\nπ = 3.14\nprint(größe, π, 'é\\u2028x')"),
    "print_sep_end": ("none", "print(1, 2, sep='-', end='!\\n')"),
    "long_line": ("none", "result = [some_value for some_value in range(100) if some_value % 2 == 0 and some_value % 3 == 0 and some_value % 5 == 0 and some_value > 10]\nprint(result)"),
    "if_name_main": ("none", "def main():\n    print('main')\n    return 0\nif __name__ == '__main__':\n    raise SystemExit(main())"),
    "if_else_common_tail": ("none", "import random\nif random.random() < 2:\n    print(3)\n    print(100)\nelse:\n    print(21)\n    print(100)"),
    "loop_append": ("none", "out = []\nfor i in range(5):\n    if i % 2:\n        out.append(i * 2)\nprint(out)"),
    "dict_loop": ("none", "dd = {}\nfor k in 'abc':\n    dd[k] = ord(k)\nfor key in dd.keys():\n    print(key, dd[key])"),
    "early_return_shape": ("def", "if cond:\n    x = 1\n    y = 2\n    print(x + y)\n    return x\nelse:\n    return None"),
    "nested_ifs": ("none", "import sys\na = len(sys.argv)\nif a > 0:\n    if a > 1:\n        if a > 2:\n            print(3)\n        else:\n            print(2)\n    else:\n        print(1)\nelse:\n    print(0)"),
    "unused_things": ("none", "import os\nimport sys\ndef unused_function(x):\n    unused_local = x + 1\n    return x\nUNUSED_CONSTANT = 5\nclass Unused:\n    pass\nprint('x')"),
    "staticmethod_candidate": ("none", "class C:\n    def m(self, a):\n        return a + 1\n    def n(self):\n        return self.m(1)\nprint(C().n())"),
    "for_over_int": ("none", "try:\n    for x in 5:\n        print(x)\nexcept TypeError:\n    print('not iterable')"),
    "resource_never_mentioned_again": ("none", "import tempfile\nres = tempfile.TemporaryFile()\nvalue = 1\nprint(value)"),
    "resource_class_attribute": ("none", "import tempfile\nclass Keeper:\n    res = tempfile.TemporaryFile()\n    value = 1\nprint(Keeper.value)"),
    "resource_used_then_not": ("none", "import tempfile\nres = tempfile.TemporaryFile()\nres.write(b'x')\nvalue = 1\nprint(value)"),
    "tail_then_dedent": ("none", "def tail(f):\n    if f:\n        print(1)\n        print(3)\n    else:\n        print(2)\n        print(3)\nprint(tail(1))"),
    "format_errors_const": ("none", "try:\n    if '{} {}'.format('a'):\n        print(1)\nexcept IndexError:\n    print('index')"),
    "dup_functions_semicolon": ("none", "def twin_a(v):\n    return v + 1\n\n\ndef twin_b(v):\n    return v + 1\n\n\ndef report(width, height):\n    area = width * height;\n    text = 'a;  b'\n    return area, text\n\n\nprint(twin_a(1), twin_b(1), report(2, 3))"),
    "dup_functions_below_linesep": ("none", "TEXT = 'ab'  # a line separator \u2028 inside a comment\n\n\ndef twin_a(v):\n    return v + 1\n\n\ndef twin_b(v):\n    return v + 1\n\n\nprint(twin_a(1), twin_b(1), len(TEXT))"),
    "dup_functions_below_formfeed": ("none", "x = 1\n\x0c\n# page two \x1c\n\n\ndef twin_a(v):\n    return v + x\n\n\ndef twin_b(v):\n    return v + x\n\n\nprint(twin_a(1), twin_b(1))"),
    "dup_import_in_handler": ("none", "import json\ntry:\n    import simplejson as json\nexcept ImportError:\n    import json\nprint(json.dumps(1))"),
    "dup_import_in_case": ("none", "import json\nmatch len('ab'):\n    case 2:\n        import json\n    case _:\n        print(0)\nprint(json.dumps(1))"),
    "dup_import_in_finally": ("none", "import json\ntry:\n    print(1)\nfinally:\n    import json\nprint(json.dumps(1))"),
    "dup_import_in_with": ("none", "import json\nimport contextlib\nwith contextlib.nullcontext():\n    import json\nprint(json.dumps(1))"),
    "missing_import_multiline_docstring": ("none", '"""Doc\n\nmore text\n"""\nprint(os.sep)'),
    "missing_import_future_parenthesised": ("none", "from __future__ import (\n    annotations,\n)\n\nprint(os.sep, json.dumps(1))"),
    "dup_functions_longer_name_kept": ("none", "def aa(x):\n    return x + 1\n\n\ndef b(x):\n    return x + 1\n\n\ndef c(x):\n    return b(x)\n\n\ndef dd(x):\n    return b(x)\n\n\nprint(aa(1), b(2), c(3), dd(4))"),
    "dup_imports_whole_body": ("none", "import os\nimport sys\n\n\ndef f():\n    import os\n    import sys\n\n\nprint(os.sep, sys.maxsize > 0, f())"),
    "dup_imports_same_line_if": ("none", "import sys\nimport json, re\nif len(sys.argv) > 5: import json, re\nprint(json.dumps(1), re.I)"),
    "overused_constant_decorated_first": ("none", "import functools\n\n\n@functools.lru_cache(maxsize=None)\ndef f0():\n    return ('north', 'south', 'east', 'west-most')\n\n\n"
                                          + "".join(f"def f{i}():\n    return ('north', 'south', 'east', 'west-most')\n\n\n" for i in range(1, 5)) + "print(f0(), f1(), f2(), f3(), f4())"),
    "zerodiv_const": ("none", "if 1 / 0:\n    print(1)"),
    "illtyped_const": ("none", "while 'a' < 1:\n    print(1)\n    break"),
    "exit_in_condition": ("none", "if exit():\n    print(1)"),
    "tabs_indent": ("none", "if True:\n\tprint('tab')\n\tif True:\n\t\tprint('tabtab')"),
    "crlf_lines": ("none", "x = 1\r\nprint(x)\r\n"),
    "form_feed": ("none", "x = 1\n\x0c\ndef f():\n    return x\nprint(f())"),
    "star_expr_return": ("def", "rest = [2, 3]\nreturn 1, *rest"),
    "await_expr": ("async", "import asyncio\nr = await asyncio.sleep(0, 'v')\nprint(r)"),
    "method_def": ("class", "def meth(self, a=1):\n    return a\nattr: int = 2"),
}


def shape_cases(rep, tier: str) -> List[dict]:
    names = sorted(CATALOGUE)
    positions = ["only", "first", "last", "in_def", "in_class", "in_loop", "tail_of_if", "fragment"]
    if tier == "quick":
        options = [(False, False, False), (True, True, False)]
    else:
        options = [(False, False, False), (True, False, False), (False, True, True), (True, True, True)]
    mc = "\n".join([
        "---- MODULE ShapesMC ----", "EXTENDS Shapes",
        "MC_Constructs == {" + ", ".join(f'<<"{n}", "{CATALOGUE[n][0]}">>' for n in names) + "}",
        "MC_Positions == {" + ", ".join(f'"{p}"' for p in positions) + "}",
        "MC_Options == {" + ", ".join("<<" + ", ".join("TRUE" if b else "FALSE" for b in o) + ">>" for o in options) + "}",
        "====", ""])
    cfg = "\n".join(["CONSTANTS", "  Constructs <- MC_Constructs", "  Positions <- MC_Positions", "  Options <- MC_Options",
                     "INIT Init", "NEXT Next", "INVARIANT Dump", "CHECK_DEADLOCK FALSE", ""])
    res = run_tlc("ShapesMC", cfg, generated_files={"ShapesMC.tla": mc}, workers=4, timeout_s=600, keep_stdout=False)
    rep.add_tlc(res, "Shapes")
    if not res.records:
        raise MachineryError("Shapes: no cases")
    return res.records


def render_case(case: dict) -> Tuple[str, dict]:
    """(source text, format_code options) of a Shapes.tla case."""
    need, text = CATALOGUE[case["c"]]
    pos = case["pos"]
    ind = lambda s, n=4: textwrap.indent(s, " " * n)
    body = text
    if need == "def":
        body = "def wrapped(cond=True, flag=False):\n" + ind(text) + "\nprint(wrapped())"
    elif need == "async":
        body = "import asyncio\nasync def wrapped():\n" + ind(text) + "\nasyncio.run(wrapped())"
    elif need == "loop":
        body = "for flag in (True, False):\n" + ind(text)
    elif need == "class":
        body = "class Wrapped:\n" + ind(text) + "\nprint(Wrapped().meth())"
    if pos == "only":
        src = body
    elif pos == "first":
        src = body + "\nprint('after')"
    elif pos == "last":
        src = "print('before')\n" + body
    elif pos == "in_def":
        inner = text if need in ("def", "loop") else body
        if need == "loop":
            inner = "for flag in (True, False):\n" + ind(text)
        src = "def enclosing(cond=True, flag=False):\n" + ind(inner) + "\n    return 'end'\nprint(enclosing())"
    elif pos == "in_class":
        if need == "class":
            src = "class Outer:\n" + ind(text) + "\nprint(Outer().meth())"
        else:
            src = "class Outer:\n    def method(self, cond=True, flag=False):\n" + ind(body if need != "def" else text, 8) + \
                  "\n        return 'end'\nprint(Outer().method())"
    elif pos == "in_loop":
        inner = text if need == "loop" else body
        src = "for flag in (True, False):\n" + ind(inner) + "\n    print('loop end')"
    elif pos == "tail_of_if":
        src = "import random\nif random.random() < 2:\n    print('then')\n" + ind(body) + "\nelse:\n    print('else')\n" + ind(body)
    elif pos == "fragment":
        src = ind(body)
    else:
        raise MachineryError(f"unknown position {pos}")
    if case["nl"]:
        src += "\n"
    safe, keep, pres = case["opt"]
    opts = {"safe": bool(safe), "keep_imports": bool(keep)}
    if pres:
        opts["preserve"] = frozenset({"unused_function", "Unused", "wrapped", "C.m"})
    return src, opts
