------------------------------ MODULE Geometry ------------------------------
(***************************************************************************)
(* Geometry of matches (C13): where a syntax node lies in its source text.   *)
(*                                                                         *)
(* A source text is a sequence of CELLS.  A cell is one character of a given *)
(* class; what matters about it is how many characters (always 1, except the *)
(* two-character line end "crlf") and how many UTF-8 bytes it takes, whether *)
(* the Python tokenizer ends a line there (PyNl: \n, \r\n, \r) and whether   *)
(* str.splitlines() would (StrNl: also form feed, vertical tab, FS/GS/RS,    *)
(* NEL, U+2028, U+2029).  CPython reports node positions as (line number,    *)
(* UTF-8 byte column); spans of the pattern API are character offsets.       *)
(*                                                                         *)
(* A LAYOUT is a small module:                                             *)
(*     filler lines        s = "<special cell>"  <eol>       (0..MaxFillers) *)
(*     [ if c: <eol> ]                           when the node is indented    *)
(*     node line           [t = "<special>"; ] <node> [; g(2)] <final eol>    *)
(* The node is one of several shapes (one-line call, call containing a       *)
(* multi-byte character, call over three lines, call in parentheses,         *)
(* decorated def / class with various decorator spellings).                  *)
(*                                                                         *)
(* IdealSpan: count the characters before / up to the end of the node.       *)
(* ImplSpan : the algorithm of core.get_charnos - line start table by the    *)
(*            Python line rule, byte column converted through the UTF-8      *)
(*            prefix of the line, `@` adjustment for decorated definitions.  *)
(*            (found by scanning back over spaces and parentheses).           *)
(* OldSpan  : the algorithm before repair 19066d6 (str.splitlines table,     *)
(*            byte column used as a character count) - kept to show what the *)
(*            model distinguishes.                                           *)
(* TLC evaluates all of them on every layout; the layouts, IdealSpan and the *)
(* line / column of the span start are written out and replayed into the     *)
(* real finditer / findall / search / match / fullmatch / command line, and   *)
(* IdealSpan itself is validated against CPython (ast.get_source_segment).    *)
(***************************************************************************)
EXTENDS Integers, Sequences, FiniteSets, TLC, SequencesExt, Json

CONSTANTS
    Specials,     \* special cells put inside string literals: subset of the cell classes below, plus "none"
    Eols,         \* line ends used between lines: subset of {"lf", "crlf", "cr"}
    FinalEols,    \* end of the last line: subset of {"lf", "crlf", "cr", "none"}
    NodeKinds,    \* subset of {"call","ucall","multi","paren","deco","decosp","decoparen","decocall","deco2","cls"}
    MaxFillers,   \* 0..2
    Indents       \* subset of {0, 4}

Ch(k) == IF k = "crlf" THEN 2 ELSE 1
By(k) == CASE k \in {"u2", "nel"} -> 2
           [] k \in {"u3", "ls", "ps"} -> 3
           [] k = "u4" -> 4
           [] k = "crlf" -> 2
           [] OTHER -> 1
PyNl(k) == k \in {"lf", "crlf", "cr"}
StrNl(k) == PyNl(k) \/ k \in {"ff", "vt", "fs", "gs", "rs", "nel", "ls", "ps"}

Rep(k, n) == [i \in 1..n |-> k]
A(n) == Rep("a", n)                       \* n ordinary ASCII characters
Sp(n) == Rep("sp", n)                     \* n spaces
Special(s) == IF s = "none" THEN <<>> ELSE <<s>>

Chars(cells) == FoldLeft(LAMBDA acc, k : acc + Ch(k), 0, cells)
Bytes(cells) == FoldLeft(LAMBDA acc, k : acc + By(k), 0, cells)

-----------------------------------------------------------------------------
(* layouts -> cells.  Every part is [pre |-> cells before the node, node |-> cells of the node (the span), *)
(* anchor |-> how many cells into `node` the position CPython reports for the start anchor lies]            *)
Filler(f) == IF f.sp = "ffline" THEN <<"ff", f.eol>>              \* a form feed on a line of its own (page break between definitions)
             ELSE A(5) \o Special(f.sp) \o A(1) \o <<f.eol>>     \* s = "X" <eol>

\* the cells of the node and, for decorated definitions, where the first decorator EXPRESSION starts
NodeCells(kind, eol, ind) ==
    CASE kind = "call"      -> A(4)                                              \* f(1)
      [] kind = "ucall"     -> A(3) \o <<"u2">> \o A(2)                          \* f("e'")
      [] kind = "multi"     -> A(2) \o <<eol>> \o Sp(ind + 4) \o A(1) \o <<eol>> \o Sp(ind) \o A(1)
      [] kind = "paren"     -> A(4)                                              \* (f(1)) : the span is the inner call
      [] kind = "deco"      -> <<"at">> \o A(1) \o <<eol>> \o Sp(ind) \o A(8) \o <<eol>> \o Sp(ind + 4) \o A(4)
      [] kind = "decosp"    -> <<"at">> \o Sp(1) \o A(1) \o <<eol>> \o Sp(ind) \o A(8) \o <<eol>> \o Sp(ind + 4) \o A(4)
      [] kind = "decoparen" -> <<"at", "lp">> \o A(2) \o <<eol>> \o Sp(ind) \o A(8) \o <<eol>> \o Sp(ind + 4) \o A(4)     \* @(d)
      [] kind = "decocall"  -> <<"at">> \o A(4) \o <<eol>> \o Sp(ind) \o A(8) \o <<eol>> \o Sp(ind + 4) \o A(4)     \* @d(1)
      [] kind = "deco2"     -> <<"at">> \o A(1) \o <<eol>> \o Sp(ind) \o <<"at">> \o A(1) \o <<eol>> \o Sp(ind) \o A(8) \o <<eol>> \o Sp(ind + 4) \o A(4)
      [] kind = "decoasync" -> <<"at">> \o A(1) \o <<eol>> \o Sp(ind) \o A(14) \o <<eol>> \o Sp(ind + 4) \o A(4)    \* async def g():
      [] kind = "cls"       -> <<"at">> \o A(1) \o <<eol>> \o Sp(ind) \o A(8) \o <<eol>> \o Sp(ind + 4) \o A(4)     \* class G:

\* offset (in cells) of the position the code starts from: the first decorator expression, else the node itself
AnchorOffset(kind) == CASE kind \in {"deco", "decocall", "deco2", "cls", "decoasync"} -> 1
                        [] kind = "decosp" -> 2
                        [] kind = "decoparen" -> 2
                        [] OTHER -> 0
Decorated(kind) == kind \in {"deco", "decosp", "decoparen", "decocall", "deco2", "cls", "decoasync"}

Before(l) ==
    LET fill == FoldLeft(LAMBDA acc, f : acc \o Filler(f), <<>>, l.fill)
        block == IF l.indent > 0 THEN A(5) \o <<l.eol>> ELSE <<>>                \* if c: <eol>
        pre == IF l.pre = "absent" THEN <<>> ELSE A(5) \o Special(l.pre) \o A(1) \o A(1) \o Sp(1)     \* t = "X"; _
        open == IF l.node = "paren" THEN A(1) ELSE <<>>
    IN fill \o block \o Sp(l.indent) \o pre \o open

After(l) ==
    (IF l.node = "paren" THEN A(1) ELSE <<>>)
    \o (IF l.trail THEN A(1) \o Sp(1) \o A(4) ELSE <<>>)                         \* ; g(2)
    \o (IF l.feol = "none" THEN <<>> ELSE <<l.feol>>)

Node(l) == NodeCells(l.node, l.eol, l.indent)
Source(l) == Before(l) \o Node(l) \o After(l)

-----------------------------------------------------------------------------
(* IdealSpan and the line / column of its start                              *)
IdealStart(l) == Chars(Before(l))
IdealEnd(l) == Chars(Before(l)) + Chars(Node(l))

\* index of the last cell that ends a line (by rule NL) among the first n cells of src; 0 if none
LastBreak(src, n, NL(_)) == LET S == {i \in 1..n : NL(src[i])} IN IF S = {} THEN 0 ELSE CHOOSE i \in S : \A j \in S : j <= i
LineNo(src, n, NL(_)) == 1 + Cardinality({i \in 1..n : NL(src[i])})
\* line and character column of the character that follows the first n cells
IdealLine(l) == LineNo(Source(l), Len(Before(l)), PyNl)
IdealCol(l) == LET src == Source(l)
                   n == Len(Before(l))
               IN Chars(SubSeq(src, LastBreak(src, n, PyNl) + 1, n))

-----------------------------------------------------------------------------
(* what CPython reports for a cell index n (position of the character after n cells): (line, byte column) *)
PyPos(src, n) == [line |-> LineNo(src, n, PyNl), col |-> Bytes(SubSeq(src, LastBreak(src, n, PyNl) + 1, n))]

\* core._get_charno: line start table (rule NL) + byte column converted through the UTF-8 prefix of the line
\* start of line number ln (1-based) in cells under rule NL
LineStartCell(src, ln, NL(_)) ==
    IF ln = 1 THEN 0
    ELSE LET S == {i \in 1..Len(src) : NL(src[i]) /\ LineNo(src, i, NL) = ln} IN
         IF S = {} THEN Len(src) ELSE CHOOSE i \in S : \A j \in S : i <= j
\* the largest number of cells after `from` whose bytes fit in `bytecol` bytes (decode(errors="ignore") of the cut prefix)
RECURSIVE Fit(_, _, _)
Fit(src, from, bytecol) ==
    IF from >= Len(src) \/ By(src[from + 1]) > bytecol THEN 0
    ELSE 1 + Fit(src, from + 1, bytecol - By(src[from + 1]))

ImplCharno(src, pos) ==
    LET ls == LineStartCell(src, pos.line, PyNl)
    IN Chars(SubSeq(src, 1, ls)) + Chars(SubSeq(src, ls + 1, ls + Fit(src, ls, pos.col)))
OldCharno(src, pos) ==
    LET ls == LineStartCell(src, pos.line, StrNl)
    IN Chars(SubSeq(src, 1, ls)) + pos.col

\* cell index of a character offset (only used for the `@` test; offsets here never split a crlf)
RECURSIVE CellAt(_, _, _)
CellAt(src, i, chars) == IF chars <= 0 \/ i >= Len(src) THEN i ELSE CellAt(src, i + 1, chars - Ch(src[i + 1]))

\* from the decorator expression back over spaces and opening parentheses to the `@` (-1: there is none)
RECURSIVE BackToAt(_, _)
BackToAt(src, c) == IF c < 1 THEN -1
                    ELSE IF src[c] = "at" THEN c - 1
                    ELSE IF src[c] \in {"sp", "lp"} THEN BackToAt(src, c - 1)
                    ELSE -1

ImplStart(l) ==
    LET src == Source(l)
        a == Len(Before(l)) + AnchorOffset(l.node)
        s0 == ImplCharno(src, PyPos(src, a))
        c == CellAt(src, 0, s0)                    \* number of cells before offset s0
        b == BackToAt(src, c)
    IN IF Decorated(l.node) /\ b >= 0 THEN Chars(SubSeq(src, 1, b)) ELSE s0
\* before repair of the decorator rule: only an `@` immediately in front of the expression was recognised
ImplStartNarrow(l) ==
    LET src == Source(l)
        a == Len(Before(l)) + AnchorOffset(l.node)
        s0 == ImplCharno(src, PyPos(src, a))
        c == CellAt(src, 0, s0)
    IN IF Decorated(l.node) /\ c >= 1 /\ src[c] = "at" THEN s0 - 1 ELSE s0
ImplEnd(l) == LET src == Source(l) IN ImplCharno(src, PyPos(src, Len(Before(l)) + Len(Node(l))))
OldStart(l) == LET src == Source(l) IN OldCharno(src, PyPos(src, Len(Before(l)) + AnchorOffset(l.node)))

Gap(l) == ImplStart(l) # IdealStart(l) \/ ImplEnd(l) # IdealEnd(l)
OldGap(l) == OldStart(l) # IdealStart(l) + (IF Decorated(l.node) THEN AnchorOffset(l.node) ELSE 0)

-----------------------------------------------------------------------------
Fillers == UNION {[1..n -> [sp : Specials \cup {"ffline"}, eol : Eols]] : n \in 0..MaxFillers}
Layouts == [fill : Fillers, pre : Specials \cup {"absent"}, indent : Indents, node : NodeKinds, trail : BOOLEAN,
            eol : Eols, feol : FinalEols]
\* a line end inside the node and between lines is the same kind throughout one layout (files do not mix them),
\* except in the filler lines, which may
Sensible(l) == /\ (l.feol # "none" => l.feol = l.eol)
               /\ (Decorated(l.node) => l.pre = "absent" /\ ~l.trail)         \* a definition starts its own line
               /\ (l.node = "multi" /\ l.trail => TRUE)

VARIABLE l
Init == l \in {x \in Layouts : Sensible(x)}
Next == UNCHANGED l
Spec == Init /\ [][Next]_l

\* the algorithm agrees with the definition wherever the model says so; Gap layouts are reported, not hidden
Dump == PrintT(<<"@@J", ToJson([layout |-> l, start |-> IdealStart(l), end |-> IdealEnd(l), line |-> IdealLine(l), col |-> IdealCol(l),
                                 chars |-> Chars(Source(l)), bytes |-> Bytes(Source(l)),
                                 gap |-> Gap(l), narrowgap |-> (ImplStartNarrow(l) # IdealStart(l)), implstart |-> ImplStart(l), implend |-> ImplEnd(l), oldgap |-> OldGap(l)])>>)
\* design statement: the algorithm transcribed from core.get_charnos yields the ideal span on every layout
AlgorithmRight == ~Gap(l)

-----------------------------------------------------------------------------
(* The re-like API (second generator, INIT InitApi).  A module is a sequence of 1..MaxStmts statements:      *)
(*   "callf"  f(1)          "callg"  g(2)        "assignf"  x = f(3)                                       *)
(*   "def"    def h(): / f(4)   (two lines)      "deco"     @d / def k(): / pass                            *)
(*   "binf"   f(5) + 2   the call begins the statement but lies deeper in the tree than a statement-level call     *)
(* A pattern kind says which nodes it matches:                                                              *)
(*   "callf"   f({{x}})        the call itself (the whole statement in "callf", a part of it elsewhere)      *)
(*   "assign"  {{a}} = {{b}}   assignment statements        "funcdef"  any function definition               *)
(*   "seq"     f({{x}}) / g({{y}})  two consecutive statements                                              *)
(*   "absent"  q({{x}})        matches nothing                                                              *)
(* A match is [from, to, whole]: it lies in statements from..to; whole = it is exactly those statements;    *)
(* atstart = it begins where statement `from` begins.                                                       *)
CONSTANTS StmtKinds, PatKinds, MaxStmts

MatchesOf(pat, stmts) ==
    CASE pat = "callf" ->
            {[from |-> i, to |-> i, whole |-> stmts[i] = "callf", atstart |-> stmts[i] \in {"callf", "binf"}] :
                i \in {j \in 1..Len(stmts) : stmts[j] \in {"callf", "assignf", "def", "binf"}}}
      [] pat = "assign" ->
            {[from |-> i, to |-> i, whole |-> TRUE, atstart |-> TRUE] : i \in {j \in 1..Len(stmts) : stmts[j] = "assignf"}}
      [] pat = "funcdef" ->
            {[from |-> i, to |-> i, whole |-> TRUE, atstart |-> TRUE] : i \in {j \in 1..Len(stmts) : stmts[j] \in {"def", "deco"}}}
      [] pat = "seq" ->
            {[from |-> i, to |-> i + 1, whole |-> TRUE, atstart |-> TRUE] :
                i \in {j \in 1..(Len(stmts) - 1) : stmts[j] = "callf" /\ stmts[j + 1] = "callg"}}
      [] OTHER -> {}

\* match(): some match begins where the module body begins; fullmatch(): some match is the whole body
IdealMatch(pat, stmts) == \E m \in MatchesOf(pat, stmts) : m.from = 1 /\ m.atstart
IdealFull(pat, stmts) == \E m \in MatchesOf(pat, stmts) : m.from = 1 /\ m.to = Len(stmts) /\ m.whole

\* lead: what precedes the first statement (nothing, a blank line, a comment line): the module body need not start at offset 0
ApiCases == [stmts : UNION {[1..n -> StmtKinds] : n \in 1..MaxStmts}, pat : PatKinds, feol : {"lf", "none"},
             lead : {"none", "blank", "comment"}]
InitApi == l \in ApiCases
DumpApi == PrintT(<<"@@J", ToJson([case |-> l, count |-> Cardinality(MatchesOf(l.pat, l.stmts)),
                                    matches |-> SetToSeq(MatchesOf(l.pat, l.stmts)),
                                    match |-> IdealMatch(l.pat, l.stmts), full |-> IdealFull(l.pat, l.stmts)])>>)
\* relations of the statement that hold by definition of the ideal API (checked so the generator cannot drift)
ApiCoherent == /\ (IdealFull(l.pat, l.stmts) => IdealMatch(l.pat, l.stmts))
               /\ (IdealMatch(l.pat, l.stmts) => MatchesOf(l.pat, l.stmts) # {})
=============================================================================
