--------------------------- MODULE PipelineTrace ---------------------------
(***************************************************************************)
(* Trace validation of main.format_code (code -> spec).  One trace = one     *)
(* recorded run: the projection of the input, one event per stage in the     *)
(* order the code executed them, and the projection of what was returned.    *)
(* Control events drive the SAME actions as the design model (PipelineCore); *)
(* every event carries the projected state of the text after the stage.      *)
(* The trace specification is total: a clause that fails is recorded with    *)
(* the position of the event, and the rest of the trace is still examined.   *)
(*                                                                         *)
(* Event kinds (field k)                                                   *)
(*   "sub"    a stage outside the loops (normalisation, abstraction and      *)
(*            post stages); projection checks only                          *)
(*   "single" the single-run chain               -> SingleRun               *)
(*   "pb"     _multi_run_fixes entered            -> PassBegin               *)
(*   "rule"   a rule of the pass changed the text -> RuleStep                *)
(*   "idle"   n rules left the text unchanged     -> IdleRules(n)            *)
(*   "pe"     _multi_run_fixes returned           -> PassEnd                 *)
(*   "abs"    both abstraction stages done        -> Abstractions            *)
(*   "post"   all post stages done                -> SecondLoopDone, Post    *)
(* Fields: s stage name, b / a digests before / after, valid, ast (digest of *)
(* the position-free tree, docstrings normalised), layout (the stage is one  *)
(* of the layout-only stages of C11).                                        *)
(***************************************************************************)
EXTENDS PipelineCore, Sequences, TLC, Json, IOUtils

Traces == JsonDeserialize(IOEnv.TRACE_FILE)

Clauses == {"Chain", "KeepValid", "KeepAst", "Control", "Budget", "ExitOnRepeat", "LoopExitUnjustified",
            "Returns", "FinalChain", "FinalValid", "FinalObs", "FinalSurface", "FinalPreserved",
            "FinalIgnored", "SkipIsIdentity", "InvalidHandedBack", "BlankHandedBack"}

VARIABLES
    tid,       \* index of the trace being validated
    l,         \* index of the next event of that trace
    cur,       \* digest of the current text
    curValid, curAst,
    viol       \* clause -> position of the first event that broke it (0 = holds)

tvars == <<corevars, tid, l, cur, curValid, curAst, viol>>

SeqToSet(s) == {s[j] : j \in 1..Len(s)}
NoViol == [c \in Clauses |-> 0]
Mark(c) == IF viol[c] = 0 THEN [viol EXCEPT ![c] = l] ELSE viol
Mark2(v, c) == IF v[c] = 0 THEN [v EXCEPT ![c] = l] ELSE v

T == Traces[tid]

LoadTrace(i) ==
    /\ tid' = i /\ l' = 1
    /\ cur' = Traces[i].input.d /\ curValid' = Traces[i].input.valid /\ curAst' = Traces[i].input.ast
    /\ viol' = NoViol
    /\ pc' = "single" /\ doc' = Traces[i].input.d /\ hist' = {} /\ npass' = 0 /\ ri' = 1
    /\ loopNo' = 1 /\ exitWhy' = "none"

TraceInit ==
    /\ tid = 1 /\ l = 1
    /\ cur = Traces[1].input.d /\ curValid = Traces[1].input.valid /\ curAst = Traces[1].input.ast
    /\ viol = NoViol
    /\ CoreInit(Traces[1].input.d)

Lost == pc = "lost"
Lose == pc' = "lost" /\ UNCHANGED <<doc, hist, npass, ri, loopNo, exitWhy>>

\* projection clauses of an event that carries a text (sub / single / rule / abs / post)
ProjViol(e, v0) ==
    LET v1 == IF e.b # cur THEN Mark2(v0, "Chain") ELSE v0
        v2 == IF curValid /\ ~e.valid THEN Mark2(v1, "KeepValid") ELSE v1
        v3 == IF e.layout /\ curValid /\ e.valid /\ e.ast # curAst THEN Mark2(v2, "KeepAst") ELSE v2
    IN v3

TextStep(e) ==
    /\ cur' = e.a /\ curValid' = e.valid /\ curAst' = e.ast

\* ---- one event -----------------------------------------------------------------------
Sub(e) ==
    /\ e.k = "sub"
    /\ viol' = ProjViol(e, viol)
    /\ TextStep(e)
    /\ UNCHANGED corevars

Single(e) ==
    /\ e.k = "single"
    /\ TextStep(e)
    /\ IF Lost THEN viol' = ProjViol(e, viol) /\ UNCHANGED corevars
       ELSE IF pc = "single" THEN viol' = ProjViol(e, viol) /\ SingleRun(e.a)
       ELSE viol' = ProjViol(e, Mark("Control")) /\ Lose

PB(e) ==
    /\ e.k = "pb"
    /\ UNCHANGED <<cur, curValid, curAst>>
    /\ IF Lost THEN UNCHANGED <<corevars, viol>>
       ELSE IF pc = "loop" /\ npass < MaxPasses THEN PassBegin /\ UNCHANGED viol
       ELSE /\ viol' = Mark(IF pc = "loop" THEN "Budget"
                            ELSE IF pc = "abs" /\ exitWhy = "repeat" THEN "ExitOnRepeat"
                            ELSE IF pc = "abs" /\ exitWhy = "budget" THEN "Budget"
                            ELSE "Control")
            /\ Lose

Rule(e) ==
    /\ e.k = "rule"
    /\ TextStep(e)
    /\ IF Lost THEN viol' = ProjViol(e, viol) /\ UNCHANGED corevars
       ELSE IF pc = "pass" /\ ri <= NRules THEN viol' = ProjViol(e, viol) /\ RuleStep(e.a)
       ELSE viol' = ProjViol(e, Mark("Control")) /\ Lose

Idle(e) ==
    /\ e.k = "idle"
    /\ UNCHANGED <<cur, curValid, curAst>>
    /\ IF Lost THEN UNCHANGED <<corevars, viol>>
       ELSE IF pc = "pass" /\ e.n >= 1 /\ ri + e.n - 1 <= NRules THEN IdleRules(e.n) /\ UNCHANGED viol
       ELSE viol' = Mark("Control") /\ Lose

PE(e) ==
    /\ e.k = "pe"
    /\ UNCHANGED <<cur, curValid, curAst>>
    /\ IF Lost THEN UNCHANGED <<corevars, viol>>
       ELSE IF pc = "pass" /\ ri = NRules + 1 THEN PassEnd /\ UNCHANGED viol
       ELSE viol' = Mark("Control") /\ Lose

Abs(e) ==
    /\ e.k = "abs"
    /\ UNCHANGED <<cur, curValid, curAst>>
    /\ IF Lost THEN UNCHANGED <<corevars, viol>>
       ELSE IF pc = "abs" /\ loopNo = 1 THEN Abstractions(cur) /\ UNCHANGED viol
       ELSE viol' = Mark(IF pc = "loop" THEN "LoopExitUnjustified" ELSE "Control") /\ Lose

PostE(e) ==
    /\ e.k = "post"
    /\ UNCHANGED <<cur, curValid, curAst>>
    /\ IF Lost THEN UNCHANGED <<corevars, viol>>
       ELSE IF pc = "post" THEN Post(cur) /\ UNCHANGED viol
       ELSE IF pc = "abs" /\ loopNo = 2
            THEN \* SecondLoopDone \cdot Post, composed
                 /\ pc' = "done" /\ doc' = cur /\ UNCHANGED <<hist, npass, ri, loopNo, exitWhy>> /\ UNCHANGED viol
       ELSE viol' = Mark(IF pc = "loop" THEN "LoopExitUnjustified" ELSE "Control") /\ Lose

Step ==
    /\ l <= Len(T.ev)
    /\ LET e == T.ev[l] IN Sub(e) \/ Single(e) \/ PB(e) \/ Rule(e) \/ Idle(e) \/ PE(e) \/ Abs(e) \/ PostE(e)
    /\ l' = l + 1
    /\ UNCHANGED tid

\* ---- the end of a trace: what was returned ------------------------------------------
SubsetSeq(a, b) == SeqToSet(a) \subseteq SeqToSet(b)

FinalViol ==
    LET r == T.ret
        i == T.input
        early == r.early          \* "" | "skip" | "blank" | "invalid"
        v0 == viol
        v1 == IF r.kind # "return" THEN Mark2(v0, "Returns") ELSE v0
        v2 == IF r.kind = "return" /\ r.d # cur THEN Mark2(v1, "FinalChain") ELSE v1
        v3 == IF r.kind = "return" /\ i.valid /\ ~r.valid THEN Mark2(v2, "FinalValid") ELSE v2
        v4 == IF r.kind = "return" /\ T.check.obs /\ r.obs # i.obs THEN Mark2(v3, "FinalObs") ELSE v3
        v5 == IF r.kind = "return" /\ T.check.surface /\ ~SubsetSeq(i.surf, r.surf) THEN Mark2(v4, "FinalSurface") ELSE v4
        v6 == IF r.kind = "return" /\ T.check.preserved /\ ~SubsetSeq(i.pres, r.pres) THEN Mark2(v5, "FinalPreserved") ELSE v5
        v7 == IF r.kind = "return" /\ T.check.ignored /\ r.ign # i.ign THEN Mark2(v6, "FinalIgnored") ELSE v6
        v8 == IF i.skip /\ (r.kind # "return" \/ r.d # i.d \/ Len(T.ev) > 0) THEN Mark2(v7, "SkipIsIdentity") ELSE v7
        v9 == IF r.kind = "return" /\ early = "invalid" /\ ~r.wsequal THEN Mark2(v8, "InvalidHandedBack") ELSE v8
        v10 == IF r.kind = "return" /\ early = "blank" /\ ~r.wsequal THEN Mark2(v9, "BlankHandedBack") ELSE v9
        \* a run that returned normally must have gone through the whole control structure
        v11 == IF r.kind = "return" /\ early = "" /\ ~Lost /\ pc # "done" THEN Mark2(v10, "Control") ELSE v10
    IN v11

Verdict(v) == {<<c, v[c]>> : c \in {x \in Clauses : v[x] # 0}}

Finish ==
    /\ l = Len(T.ev) + 1
    /\ PrintT(<<"@@J", ToJson([id |-> T.id, lost |-> Lost, bad |-> Verdict(FinalViol)])>>)
    /\ IF tid < Len(Traces) THEN LoadTrace(tid + 1)
       ELSE /\ tid' = tid + 1 /\ l' = 0
            /\ UNCHANGED <<corevars, cur, curValid, curAst, viol>>

TraceNext == (tid <= Len(Traces)) /\ (Step \/ Finish)
=============================================================================
