"""C09 - repeated formatting converges and never oscillates.

* Repeat.tla: histories x, f(x), .., f^6(x) recorded from the real format_code (several option vectors)
  and from format_files(max_passes=5) are validated by TLC (Converges within the module pass budget, Stays, NoCycle);
* Orient.tla: the orientation heuristic of swap_if_else is model-checked for antisymmetry on all settled
  feature vectors, and every vector is rendered and replayed into the real _orelse_preferred_as_body;
* Pipeline.tla: what the loop structure alone guarantees (and what it does not) - see C04.
"""
from __future__ import annotations

import ast
import json
import random
import shutil
import sys
import tempfile
import textwrap
from pathlib import Path

import corpus
import shapes
import workers
from common import Report, import_pyrefact, tier, seed, digest
from tlc import MachineryError, run_tlc

PROP = "C09"
APPLICATIONS = 6


# ---------------------------------------------------------------------------------------------
def render_branch(b: dict, tag: str) -> str:
    if b["pass"]:
        return "pass"
    lines = []
    if b["rcb"]:
        lines.append("return 1")
    n_if = b["br"] - 1
    for i in range(n_if):
        lines.append(f"if c_{tag}{i}:\n    g_{tag}({i})")
    if not lines or (not b["rcb"] and not n_if):
        lines.append(f"g_{tag}(9)")
    want_long = b["long"]
    filler = 0
    while want_long and len(lines) < 4:
        lines.append(f"h_{tag}({filler})")
        filler += 1
    if b["blk"] and not b["rcb"]:
        lines.append("return 2")
    if not want_long and len(lines) > 3:
        return None      # cannot render: the features need more than 3 statements
    return "\n".join(lines)


def features(nodes, core, fixes) -> dict:
    return {"pass": all(isinstance(n, ast.Pass) for n in nodes),
            "blk": any(core.is_blocking(n) for n in nodes),
            "br": fixes._count_branches(nodes),
            "rcb": isinstance(nodes[0], (ast.Return, ast.Continue, ast.Break)),
            "long": len(nodes) > 3}


def orientation(rep: Report, mods) -> int:
    core, fixes = mods["core"], mods["fixes"]
    if not hasattr(fixes, "_orelse_preferred_as_body"):
        rep.notes.append("fixes._orelse_preferred_as_body not found: orientation replay skipped")
        return 0
    cfg = "\n".join(["CONSTANTS", "  MaxBranches = 3", "INIT Init", "NEXT Next", "INVARIANT Antisymmetric", "INVARIANT Dump",
                     "CHECK_DEADLOCK FALSE", ""])
    res = run_tlc("Orient", cfg, workers=4, timeout_s=900, keep_stdout=False)
    rep.add_tlc(res, "Orient (antisymmetry of the orientation heuristic on settled branches)")
    if res.violated:
        rep.violation("Orient.tla: the modelled heuristic prefers both orientations of some settled if/else",
                      {"trace": res.error_trace})
        return 0
    n = 0
    for rec in res.records:
        b, o = rec["body"], rec["orelse"]
        tb, to = render_branch(b, "b"), render_branch(o, "o")
        if tb is None or to is None:
            continue
        src = "def f():\n    if cond:\n" + textwrap.indent(tb, "        ") + "\n    else:\n" + textwrap.indent(to, "        ") + "\n"
        stmt = ast.parse(src).body[0].body[0]
        fb, fo = features(stmt.body, core, fixes), features(stmt.orelse, core, fixes)
        if fb != b or fo != o:
            continue     # the rendering does not realise this vector (e.g. blocking implied by nested ifs); skip
        n += 1
        got = bool(fixes._orelse_preferred_as_body(stmt.body, stmt.orelse))
        back = bool(fixes._orelse_preferred_as_body(stmt.orelse, stmt.body))
        if got != rec["pref"]:
            case = {"body": b, "orelse": o, "source": src, "spec_pref": rec["pref"], "code_pref": got}
            # the model is stale; what matters is antisymmetry of the REAL predicate on settled branches
            rep.coverage["orient_model_stale"] = rep.coverage.get("orient_model_stale", 0) + 1
        guarded_fwd = fb["blk"] and not fo["blk"]
        guarded_back = fo["blk"] and not fb["blk"]
        if rec["settled"] and got and not guarded_fwd and back and not guarded_back and not b["pass"]:
            rep.violation("the orientation heuristic prefers the swap in both orientations of a settled if/else "
                          "(repeated formatting would flip it for ever)", {"body": b, "orelse": o, "source": src})
    return n


# ---------------------------------------------------------------------------------------------
def _init():
    return import_pyrefact()


def _history(mods, item):
    key, text, opts = item
    opts = dict(opts)
    tree = opts.pop("__tree__", None)
    if tree is None:
        return _history_in_place(mods, key, text, opts)
    # the text is formatted next to the modules it imports from (they are found through the working directory)
    import os
    tmp = os.path.realpath(tempfile.mkdtemp(prefix="verif-c09t-"))
    try:
        for name, content in tree.items():
            Path(tmp, name).write_text(content)
        os.chdir(tmp)
        return _history_in_place(mods, key, text, opts)
    finally:
        os.chdir("/")
        shutil.rmtree(tmp, ignore_errors=True)


def _history_in_place(mods, key, text, opts):
    main = mods["main"]
    hist = [text]
    cur = text
    for _ in range(APPLICATIONS):
        try:
            cur = main.format_code(cur, **opts)
        except BaseException as exc:  # noqa: BLE001 - crashes are C04's business
            if isinstance(exc, KeyboardInterrupt):
                raise
            return (key, hist, f"{type(exc).__name__}: {exc}")
        hist.append(cur)
    return (key, hist, None)


def histories(rep: Report, t: str, rng: random.Random):
    items = []
    snippets = list(corpus.repo_snippets())
    pick = snippets if t != "quick" else rng.sample(snippets, 450)
    for origin, text in pick:
        items.append((f"snippet:{origin}", text, {}))
    for origin, text in (pick if t != "quick" else pick[:150]):
        items.append((f"snippet-safe:{origin}", text, {"safe": True}))
        items.append((f"snippet-len60:{origin}", text, {"max_line_length": 60}))
    for case in shapes.shape_cases(rep, t):
        if case["nl"] and case["pos"] in ("only", "in_def", "in_loop", "tail_of_if", "fragment"):
            src, opts = shapes.render_case(case)
            items.append((f"shape:{case['c']}:{case['pos']}:{case['opt']}", src, opts))
    # texts on which ONE rule has a lot to do: every rewrite overlaps the previous one, so a rule that gives up after one
    # iteration (or a loop that forgets what it has seen) needs one application of format_code per step
    for n in (5, 7, 9):
        funcs = "".join(f"def stepNumber{i}(v):\n    return v + {i}" + "".join(f" + stepNumber{j}(v)" for j in range(i)) + "\n\n\n" for i in range(n))
        items.append((f"stress:camel-chain:{n}", funcs + f"print(stepNumber{n - 1}(1))\n", {}))
        items.append((f"stress:camel-chain-safe:{n}", funcs + f"print(stepNumber{n - 1}(1))\n", {"safe": True}))
        dead = "def chain(v):\n" + "    a0 = v\n" + "".join(f"    a{i} = a{i - 1} + 1\n" for i in range(1, n + 2)) + "    return v\n\n\nprint(chain(1))\n"
        items.append((f"stress:dead-locals:{n}", dead, {}))
        items.append((f"stress:dead-locals-safe:{n}", dead, {"safe": True}))
        nested = "def pick(v):\n" + "".join("    " * (i + 1) + f"if v > {i}:\n" for i in range(n)) + "    " * (n + 1) + "return 1\n" + \
                 "".join("    " * (n - i) + "else:\n" + "    " * (n - i + 1) + f"return {i + 2}\n" for i in range(n)) + "\n\nprint(pick(3))\n"
        items.append((f"stress:nested-else:{n}", nested, {}))
        calls = "import os\nx = " + "list(" * n + "sorted(" + "set(" + "os.listdir('.')" + ")" * (n + 2) + "\nprint(len(x) >= 0)\n"
        items.append((f"stress:nested-casts:{n}", calls, {}))
    # one rule that rewrites ONE place per internal pass: the inner loops of format_code have to keep going (their budget is
    # far larger than the number of applications a caller may need)
    for n in (8, 12):
        swaps = "".join(f"def pick{i}(v):\n    if v > {i}:\n        print(v)\n        print(v + 1)\n        print(v + 2)\n        return v * {i + 2}\n"
                        f"    return None\n\n\n" for i in range(n)) + "".join(f"print(pick{i}(3))\n" for i in range(n))
        items.append((f"stress:many-swaps:{n}", swaps, {}))
    # a name handed down through a stack of re-exporting modules: the chain of single-run rules follows one hop per iteration
    for n in (3, 8):
        tree = {f"layer{k}.py": f"from layer{k + 1} import compute\n" for k in range(1, n)}
        tree[f"layer{n}.py"] = "def compute(a, b):\n    return a + b\n"
        items.append((f"stress:reexport-layers:{n}", "from layer1 import compute\n\nprint(compute(20, 22))\n", {"__tree__": tree}))
    std = list(corpus.stdlib_files(max_lines=150 if t == "quick" else 400))
    for origin, text in rng.sample(std, min(12 if t == "quick" else 150, len(std))):
        items.append((origin, text, {"safe": True}))
    raw = workers.run_tasks(_history, items, init=_init, procs=16, timeout=180 if t == "quick" else 600)
    out = []
    for item, r in zip(items, raw):
        if r == workers.TIMEOUT or r == workers.CRASH or (isinstance(r, tuple) and r and r[0] == "__task_raised__"):
            continue
        out.append((item, r))
    return out


def module_passes(rep: Report, mods, rng: random.Random, t: str, histories_=()):
    """format_files(max_passes=5) on temp trees: converged within the budget, a further pass changes nothing."""
    main = mods["main"]
    snippets = [s for _, s in corpus.repo_snippets()]
    hs = []
    # directed trees: the file that sorts FIRST needs several passes, the file that sorts LAST is settled already (and the
    # other way round): the per-folder bookkeeping has to look at every file of the folder
    slow = [h[0] for (k, _, o), (_, h, e) in histories_ if not o and e is None and len(h) > 3 and h[1] != h[2] and k.startswith("snippet:")]
    settled = [h[-1] for (k, _, o), (_, h, e) in histories_ if not o and e is None and len(h) > 3 and h[-1] == h[-2] and h[-1].strip()
               and k.startswith("snippet:")]
    directed = []
    for text in slow[: (6 if t == "quick" else 60)]:
        if settled:
            directed.append({"a_first.py": text, "z_last.py": rng.choice(settled)})
            directed.append({"a_first.py": rng.choice(settled), "z_last.py": text})
    rep.coverage["module_pass_directed_trees"] = len(directed)
    trees = [dict((f"m{j}.py", text) for j, text in enumerate(rng.sample(snippets, 5))) for _ in range(4 if t == "quick" else 30)]
    for k, tree in enumerate(directed + trees):
        tmp = tempfile.mkdtemp(prefix="verif-c09-")
        try:
            files = []
            for j, text in tree.items():
                p = Path(tmp) / j
                p.write_text(text)
                files.append(p)
            try:
                main.format_files(files, n_cores=2, max_passes=5)
                after5 = [p.read_text() for p in files]
                main.format_files(files, n_cores=2, max_passes=1)
                after6 = [p.read_text() for p in files]
            except Exception as exc:  # C04 / C06
                continue
            for j, (a, b) in enumerate(zip(after5, after6)):
                hs.append({"id": f"tree{k}/{files[j].name}", "final": a, "again": b})
        finally:
            shutil.rmtree(tmp, ignore_errors=True)
    return hs


def main(argv=None) -> int:
    rep = Report(PROP, "model_checking")
    mods = import_pyrefact()
    t = tier()
    rng = random.Random(seed())
    n_orient = orientation(rep, mods)
    budget = int(getattr(mods["main"], "MAX_MODULE_PASSES", 5))
    hs = histories(rep, t, rng)
    payload, by_id = [], {}
    for i, ((key, text, opts), (_, hist, err)) in enumerate(hs, start=1):
        ids = {}
        seq = [ids.setdefault(x, len(ids) + 1) for x in hist]
        if err is not None or len(seq) < APPLICATIONS + 1:
            continue
        payload.append({"id": i, "h": seq})
        by_id[i] = (key, opts, hist)
    # the cycle / fixpoint detection inside one run: loop clauses of PipelineTrace.tla on recorded runs
    import pipecheck
    sample_items = [(k, txt, o) for (k, txt, o), _ in hs[:: max(1, len(hs) // (250 if t == "quick" else 2000))] if "__tree__" not in o]
    sample_items += [(k, txt, o) for (k, txt, o), _ in hs if k.startswith("stress:") and "__tree__" not in o and (k, txt, o) not in sample_items]
    runs = pipecheck.run_and_validate(rep, sample_items, label="C09 loop clauses", timeout=120)
    for r in runs:
        bad = {c: p for c, p in r.verdict["bad"].items() if c in ("ExitOnRepeat", "LoopExitUnjustified", "Budget")}
        if bad:
            rep.violation(f"fixpoint loop of format_code breaks {'/'.join(sorted(bad))} (the loop does not stop exactly on the first repeated "
                          f"text or when the budget is used up); input {r.key}",
                          {"input_id": r.key, "source": r.source, "clauses": bad,
                           "events": [(e["k"], e["s"], e["n"]) for e in r.trace["ev"]][:60]})
    trees = module_passes(rep, mods, rng, t, hs)
    base = len(hs) + 1
    for j, h in enumerate(trees):
        # after max_passes=5 the module must be settled: one more pass is the identity
        payload.append({"id": base + j, "h": [1, 1] if h["final"] == h["again"] else [1, 2]})
        by_id[base + j] = (h["id"], {"format_files": True}, [h["final"], h["again"]])
    cfg = "\n".join(["CONSTANTS", f"  Budget = {budget}", "INIT Init", "NEXT Next", "CHECK_DEADLOCK FALSE", ""])
    res = run_tlc("Repeat", cfg, generated_files={"hist.json": json.dumps(payload)}, workers=1,
                  env_extra={"TRACE_FILE": "hist.json"}, timeout_s=1800, keep_stdout=False)
    rep.add_tlc(res, "Repeat (recorded histories)")
    verdicts = {r["id"]: r for r in res.records}
    if len(verdicts) != len(payload):
        raise MachineryError(f"Repeat consumed {len(verdicts)} of {len(payload)} histories")
    nontrivial = 0
    later = 0
    for i, v in verdicts.items():
        key, opts, hist = by_id[i]
        if len(set(hist)) > 1:
            nontrivial += 1
        if v["fixed"] > 2:
            later += 1
        if v["verdict"] == "ok":
            continue
        opts_j = {k: (sorted(x) if isinstance(x, (set, frozenset)) else x) for k, x in opts.items()}
        import blame
        kf = next((e["id"] for e in rep.known_entries() if blame.matches_signature(e, "format_code", {}, hist[0])), None)
        if kf:
            rep.known(kf, {"input_id": key, "clause": v["verdict"]})
            continue
        rep.violation(f"repeated formatting breaks clause {v['verdict']} (first fixed point at application {v['fixed'] - 1 if v['fixed'] else 'never'}); input {key}",
                      {"input_id": key, "options": opts_j, "history": hist, "clause": v["verdict"]})
    rep.coverage["evaluations"] = len(payload) + n_orient
    rep.coverage["distinct_nontrivial"] = nontrivial
    rep.coverage["traces_validated_against_impl"] = len(payload) + n_orient
    rep.coverage["histories_needing_more_than_one_application"] = later
    rep.coverage["orientation_vectors_replayed"] = n_orient
    rep.coverage["module_pass_budget_from_code"] = budget
    rep.coverage["rule"] = (f"for every input (repository snippets in 3 option vectors, Shapes cases, stdlib modules) the history of "
                            f"{APPLICATIONS} successive applications of format_code, plus format_files(max_passes=5) followed by one more "
                            "pass on temp trees; non-trivial = the history contains more than one text. Orient.tla vectors are replayed "
                            "into the real predicate")
    if payload:
        k = next(iter(by_id))
        rep.sample({"input_id": by_id[k][0], "history_digests": [digest(x) for x in by_id[k][2]]})
    rep.assumptions += ["a fixed point must be reached within MAX_MODULE_PASSES applications (read from main.py)"]
    return rep.finish()


if __name__ == "__main__":
    sys.exit(main())
