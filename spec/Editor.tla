------------------------------- MODULE Editor -------------------------------
(***************************************************************************)
(* The direct editor (processing.alter_code, machine M3 of DESIGN.md): a    *)
(* SET of additions, removals and replacements, all given in the            *)
(* coordinates of the ORIGINAL text, is applied as a SEQUENCE of textual    *)
(* operations on the text as it is at that moment.                          *)
(*                                                                         *)
(* A source is a sequence of lines [d |-> depth, h |-> is a block header];  *)
(* every line begins a statement whose extent is the line itself or, for a  *)
(* header, the line and the deeper lines that follow it.  An edit is one of *)
(*   [t |-> "del", n |-> i]          remove the statement that begins at i  *)
(*   [t |-> "rep", n |-> i]          replace it by a one-line statement     *)
(*   [t |-> "add", n |-> L, k |-> k] a new one-line statement behind line L *)
(*                                   (L = 0: in front of everything), at    *)
(*                                   the depth of the line that follows     *)
(*                                                                         *)
(* Ideal(S, E): every edit takes effect where the ORIGINAL text says - the  *)
(* set is applied "at once".  Impl(S, E): what alter_code does - the edits  *)
(* are sorted by (line, column, kind, text), processed from the bottom of   *)
(* the file upwards (a removal before an addition of the same line; what a  *)
(* removal leaves behind is an EMPTY LINE, so the lines above and the line  *)
(* itself keep their numbers),                                              *)
(* the file upwards, and each one is carried out on the CURRENT lines with  *)
(* its ORIGINAL line numbers.                                               *)
(*                                                                         *)
(* TLC checks on every source up to MaxLines and every edit set up to       *)
(* MaxEdits:  ConflictFree(E) => Impl = Ideal  (the design is right as long *)
(* as no statement is added INSIDE a statement that goes away and no two    *)
(* edits touch overlapping statements; a block that loses all its           *)
(* statements keeps a `pass` where the first one stood), and that the       *)
(* result is a function of the SET (it does not depend on the order in      *)
(* which the caller lists the edits: the sort key is total on conflict-free *)
(* sets).  The cases with conflicts are written out as well: for them the   *)
(* model predicts where sequential application goes wrong (Hazard).         *)
(***************************************************************************)
EXTENDS Integers, Sequences, FiniteSets, TLC, SequencesExt, Json

CONSTANTS MaxLines, MaxEdits, AddTags     \* AddTags: e.g. {1, 2}: two different additions may go behind one line

VARIABLES src, edits, picked
vars == <<src, edits, picked>>

Line(d, h) == [d |-> d, h |-> h]
LineKinds == {Line(0, FALSE), Line(0, TRUE), Line(1, FALSE)}

\* well-formed: depth-1 lines only inside a block, every header has a body, the first line is not indented
WF(s) == /\ Len(s) >= 1
         /\ s[1].d = 0
         /\ \A i \in 1..Len(s) : s[i].h => (i < Len(s) /\ s[i + 1].d = s[i].d + 1)
         /\ \A i \in 2..Len(s) : s[i].d = 1 => (s[i - 1].d = 1 \/ s[i - 1].h)
Sources == {s \in UNION {[1..n -> LineKinds] : n \in 1..MaxLines} : WF(s)}

\* the statement that begins at line i ends at line End(s, i)
RECURSIVE EndFrom(_, _, _)
EndFrom(s, i, j) == IF j < Len(s) /\ s[j + 1].d > s[i].d THEN EndFrom(s, i, j + 1) ELSE j
End(s, i) == IF s[i].h THEN EndFrom(s, i, i) ELSE i

Edits(s) == {[t |-> "del", n |-> i, k |-> 0] : i \in 1..Len(s)}
            \cup {[t |-> "rep", n |-> i, k |-> 0] : i \in 1..Len(s)}
            \cup {[t |-> "add", n |-> l, k |-> k] : l \in 0..Len(s), k \in AddTags}

Gone(s, E) == {e \in E : e.t \in {"del", "rep"}}
Covers(s, e, l) == e.n <= l /\ l <= End(s, e.n)             \* line l belongs to the statement of e
Overlap(s, E) == \E e, f \in Gone(s, E) : e # f /\ Covers(s, e, f.n)
\* an addition behind line L stands INSIDE the statement [a, b] when a <= L < b
AddInside(s, E) == \E a \in E, e \in Gone(s, E) : a.t = "add" /\ e.n <= a.n /\ a.n < End(s, e.n)
\* a block whose body lines are all removed (and not replaced) while its header stays
Emptied(s, E) ==
    \E i \in 1..Len(s) :
        /\ s[i].h
        /\ ~\E e \in Gone(s, E) : Covers(s, e, i)
        /\ \A j \in (i + 1)..End(s, i) : \E e \in E : e.t = "del" /\ Covers(s, e, j)
ConflictFree(s, E) == ~Overlap(s, E) /\ ~AddInside(s, E)

-----------------------------------------------------------------------------
(* output lines: [txt, d].  txt: "s<i>" an original line, "r<i>" the replacement of statement i, "a<L>_<k>" an addition *)
Orig(s, i) == [txt |-> <<"s", i, 0>>, d |-> s[i].d]
Repl(s, i) == [txt |-> <<"r", i, 0>>, d |-> s[i].d]
AddDepth(s, l) == IF l < Len(s) THEN s[l + 1].d ELSE 0
Added(s, e) == [txt |-> <<"a", e.n, e.k>>, d |-> AddDepth(s, e.n)]

\* the first statement of a block that loses ALL of its statements (each by a removal of its own) leaves a `pass` behind
Carrier(s, E, l) ==
    /\ l > 1 /\ s[l - 1].h /\ s[l].d = s[l - 1].d + 1
    /\ ~\E e \in Gone(s, E) : Covers(s, e, l - 1)
    /\ \A j \in l..End(s, l - 1) : \E e \in E : e.t = "del" /\ e.n = j
Pass(s, l) == [txt |-> <<"p", l, 0>>, d |-> s[l].d]

\* additions behind line l, in the order of their text
AddsAt(s, E, l) ==
    LET ks == {e.k : e \in {x \in E : x.t = "add" /\ x.n = l}}
    IN [j \in 1..Cardinality(ks) |-> Added(s, [t |-> "add", n |-> l, k |-> SetToSortSeq(ks, <)[j]])]

RECURSIVE IdealFrom(_, _, _)
IdealFrom(s, E, l) ==        \* the output for the original lines l.. (l = 0: what goes in front of everything)
    IF l > Len(s) THEN <<>>
    ELSE LET here == IF l = 0 THEN <<>>
                     ELSE IF Carrier(s, E, l) THEN <<Pass(s, l)>>
                     ELSE IF \E e \in E : e.t = "del" /\ Covers(s, e, l) THEN <<>>
                     ELSE IF \E e \in E : e.t = "rep" /\ Covers(s, e, l)
                            THEN (IF \E e \in E : e.t = "rep" /\ e.n = l THEN <<Repl(s, l)>> ELSE <<>>)
                     ELSE <<Orig(s, l)>>
         IN here \o AddsAt(s, E, l) \o IdealFrom(s, E, l + 1)
Ideal(s, E) == IdealFrom(s, E, 0)

-----------------------------------------------------------------------------
(* alter_code: sort key (line, column, kind, text); an addition "at line L" goes behind line L; processed in DESCENDING order *)
KindRank(t) == CASE t = "add" -> 1 [] t = "del" -> 2 [] t = "rep" -> 3
ColOf(s, e) == IF e.t = "add" THEN AddDepth(s, e.n) ELSE s[e.n].d
Less(s, e, f) ==          \* e is processed AFTER f
    \/ e.n < f.n
    \/ e.n = f.n /\ ColOf(s, e) < ColOf(s, f)
    \/ e.n = f.n /\ ColOf(s, e) = ColOf(s, f) /\ KindRank(e.t) < KindRank(f.t)
    \/ e.n = f.n /\ ColOf(s, e) = ColOf(s, f) /\ e.t = f.t /\ e.k < f.k
Descending(s, E) == SetToSortSeq(E, LAMBDA e, f : Less(s, f, e))

\* a removal takes the CHARACTERS of the statement away, not its line: one empty line stays where the statement was
Blank == [txt |-> <<"blank", 0, 0>>, d |-> 0]
Cut(lines, a, b) == SubSeq(lines, 1, a - 1) \o <<Blank>> \o SubSeq(lines, b + 1, Len(lines))
Step(s, lines, e, AllEdits) ==
    CASE e.t = "add" -> SubSeq(lines, 1, IF e.n <= Len(lines) THEN e.n ELSE Len(lines)) \o <<Added(s, e)>>
                          \o SubSeq(lines, (IF e.n <= Len(lines) THEN e.n ELSE Len(lines)) + 1, Len(lines))
      [] e.t = "del" -> IF Carrier(s, AllEdits, e.n)
                          THEN SubSeq(lines, 1, e.n - 1) \o <<Pass(s, e.n)>> \o SubSeq(lines, e.n + 1, Len(lines))
                          ELSE Cut(lines, e.n, IF End(s, e.n) <= Len(lines) THEN End(s, e.n) ELSE Len(lines))
      [] e.t = "rep" -> SubSeq(lines, 1, e.n - 1) \o <<Repl(s, e.n)>>
                          \o SubSeq(lines, (IF End(s, e.n) <= Len(lines) THEN End(s, e.n) ELSE Len(lines)) + 1, Len(lines))
RECURSIVE Run(_, _, _, _)
Run(s, lines, todo, E) == IF todo = <<>> THEN lines ELSE Run(s, Step(s, lines, Head(todo), E), Tail(todo), E)
Impl(s, E) == SelectSeq(Run(s, [i \in 1..Len(s) |-> Orig(s, i)], Descending(s, E), E), LAMBDA x : x # Blank)

-----------------------------------------------------------------------------
Init == src \in Sources /\ edits = {} /\ picked = FALSE
Next == /\ ~picked
        /\ picked' = TRUE
        /\ edits' \in {E \in SUBSET Edits(src) : Cardinality(E) <= MaxEdits /\ E # {}}
        /\ UNCHANGED src
Spec == Init /\ [][Next]_vars

Chosen == picked
\* the design fact
SequentialIsSimultaneous == Chosen /\ ConflictFree(src, edits) => Impl(src, edits) = Ideal(src, edits)
\* the sort key decides every pair of edits of a conflict-free set: the order of processing is a function of the set
KeyIsTotal == Chosen /\ ConflictFree(src, edits) => \A e, f \in edits : e = f \/ Less(src, e, f) \/ Less(src, f, e)
\* where sequential application is known to go wrong
Hazard == Chosen /\ ~ConflictFree(src, edits) /\ Impl(src, edits) # Ideal(src, edits)

Enc(out) == [i \in 1..Len(out) |-> [t |-> out[i].txt[1], n |-> out[i].txt[2], k |-> out[i].txt[3], d |-> out[i].d]]
Dump == ~Chosen \/ PrintT(<<"@@J", ToJson([src |-> src, edits |-> SetToSeq(edits), free |-> ConflictFree(src, edits),
                                            ideal |-> Enc(Ideal(src, edits)), impl |-> Enc(Impl(src, edits))])>>)
=============================================================================
