"""C15 - compile-time constant evaluation agrees with Python.

spec/ConstEval.tla holds a reference semantics of a Python expression fragment (PyEval) and an
implementation-shaped model of core.literal_value (ImplEval).  TLC enumerates the bounded
expression space (ConstEvalGen.tla), checks NoWrongValue / GapIsCrashOrEffectOnly on the model and
writes every case with both outcomes.  Each case is
  (C) validated against CPython's eval (a disagreement is a machinery failure, exit 2),
  (A) replayed into core.literal_value; the consumers are exercised through programs (c15_consumers).
"""
from __future__ import annotations

import ast
import builtins
import json
import math
import multiprocessing as mp
import sys
from typing import Any, Dict, List, Tuple

from common import Report, import_pyrefact, tier, seed
from tlc import MachineryError, run_tlc

PROP = "C15"

LITS = ['I(0)', 'I(1)', 'I(2)', 'I(-1)', 'B(TRUE)', 'B(FALSE)', 'None', 'S(<<>>)', 'S(<<97>>)',
        'T(<<>>)', 'T(<<I(1)>>)', 'L(<<I(1)>>)', 'T(<<I(2), I(2)>>)', 'L(<<I(2), I(0), I(1)>>)']   # len differs from sum / max
LITS_SMALL = ['I(0)', 'I(2)', 'I(-1)', 'B(TRUE)', 'None', 'S(<<97>>)', 'T(<<I(1)>>)']
LITS_TINY = ['I(0)', 'I(2)', 'B(TRUE)', 'S(<<97>>)']
ARITH = ["+", "-", "*", "/", "//", "%", "**"]
CMPS = ["==", "!=", "<", "<=", ">", ">=", "is", "is not", "in", "not in"]


def tla_set(xs):
    return "{" + ", ".join(xs) + "}"


def seeds_all():
    s = [['"lit"']]
    s += [['"un"', f'"{op}"'] for op in ("not", "neg", "pos", "inv")]
    s += [['"bin"', f'"{op}"'] for op in ARITH]
    s += [['"cmp1"', f'"{op}"'] for op in CMPS]
    s += [['"bool2"', f'"{op}"'] for op in ("and", "or")]
    s += [['"ife"']]
    s += [['"call0"', f'"{f}"'] for f in ("bool", "int", "print", "exit", "f")]
    s += [['"call1"', f'"{f}"'] for f in ("len", "abs", "bool", "int", "sum", "print", "f")]
    s += [['"call2"', f'"{f}"'] for f in ("min", "max")]
    s += [['"meth0"', 'S(<<97>>)', f'"{m}"'] for m in ("upper", "foo")]
    s += [['"meth1"', r, '"join"'] for r in ('S(<<>>)', 'S(<<97>>)')]
    return s


def gen_module(pool_expr: str, seeds: List[List[str]]) -> str:
    return "\n".join([
        "---- MODULE ConstEvalMC ----", "EXTENDS ConstEvalGen",
        "LitsAll == " + tla_set(LITS),
        "LitsSmall == " + tla_set(LITS_SMALL),
        "LitsTiny == " + tla_set(LITS_TINY),
        "D0(ls) == {Lit(v) : v \\in ls}",
        "D1tiny == {Bin(op, a, b) : op \\in {\"+\", \"/\", \"-\"}, a \\in D0(LitsTiny), b \\in D0(LitsTiny)}",
        "     \\cup {CmpE(<<op>>, <<a, b>>) : op \\in {\"<\", \"==\", \"in\"}, a \\in D0(LitsTiny), b \\in D0(LitsTiny)}",
        "     \\cup {Un(op, a) : op \\in {\"not\", \"neg\"}, a \\in D0(LitsTiny)}",
        "     \\cup {Call(f, <<a>>) : f \\in {\"len\", \"print\", \"f\", \"int\"}, a \\in D0(LitsTiny)}",
        "     \\cup {BoolE(op, <<a, b>>) : op \\in {\"and\", \"or\"}, a \\in D0({I(0), I(2)}), b \\in D0(LitsTiny)}",
        "     \\cup {Meth(S(<<97>>), m, <<>>) : m \\in {\"upper\", \"foo\"}}",
        "D1ife == {Bin(op, a, b) : op \\in {\"+\", \"/\"}, a \\in D0({I(0), I(2)}), b \\in D0({I(0), I(2)})}",
        "     \\cup {CmpE(<<op>>, <<a, b>>) : op \\in {\"<\", \"==\"}, a \\in D0({I(0), I(2)}), b \\in D0({I(0), I(2)})}",
        "     \\cup {Un(\"not\", a) : a \\in D0({I(0), I(2)})}",
        "     \\cup {Call(f, <<a>>) : f \\in {\"len\", \"print\", \"f\"}, a \\in D0({I(0), I(2), S(<<97>>)})}",
        "MC_Pool == " + pool_expr,
        "MC_Seeds == " + tla_set("<<" + ", ".join(s) + ">>" for s in seeds),
        "====", ""])


CFG = "\n".join(["CONSTANTS", "  Pool <- MC_Pool", "  Seeds <- MC_Seeds", "INIT Init", "NEXT Next",
                 "INVARIANT NoWrongValue", "INVARIANT ImplTotal", "INVARIANT Dump",
                 "CHECK_DEADLOCK FALSE", ""])


def runs(t: str):
    base = seeds_all()
    chain = [['"cmp2"', f'"{a}"', f'"{b}"'] for a in ("<", "==", "in", "is") for b in ("<", ">=", "!=", "not in")]
    b3 = [['"bool3"', f'"{op}"'] for op in ("and", "or")]
    if t == "quick":
        return [("depth1-all-literals", "D0(LitsAll)", base),
                ("depth1-chains-bool3", "D0(LitsSmall)", chain[:8] + b3),
                ("depth2-tiny", "D0(LitsTiny) \\cup D1tiny",
                 [s for s in base if s[0] in ('"un"', '"bool2"', '"call1"', '"meth1"')] +
                 [['"bin"', '"+"'], ['"bin"', '"/"'], ['"bin"', '"%"'], ['"cmp1"', '"<"'], ['"cmp1"', '"=="'], ['"cmp1"', '"in"']])]
    return [("depth1-all-literals", "D0(LitsAll)", base + b3),
            ("depth1-chains", "D0(LitsAll)", chain),
            ("depth2-tiny", "D0(LitsTiny) \\cup D1tiny", [s for s in base if s[0] != '"ife"' and s[0] != '"lit"']),
            ("depth2-bool3-chains", "D0({I(0), I(2)}) \\cup D1ife", [['"ife"']] + b3 + chain[:4])]


# --------------------------------------------------------------------------------------
def render_value(v) -> str:
    if "iv" in v:
        return str(v["iv"]) if v["iv"] >= 0 else f"({v['iv']})"
    if "bv" in v:
        return "True" if v["bv"] else "False"
    if "nv" in v:
        return "None"
    if "sv" in v:
        return repr("".join(chr(c) for c in v["sv"]))
    if "tv" in v:
        inner = ", ".join(render_value(x) for x in v["tv"])
        return "(" + inner + ("," if len(v["tv"]) == 1 else "") + ")"
    if "lv" in v:
        return "[" + ", ".join(render_value(x) for x in v["lv"]) + "]"
    raise MachineryError(f"cannot render value {v}")


def decode_value(v):
    if "iv" in v:
        return v["iv"]
    if "bv" in v:
        return bool(v["bv"])
    if "nv" in v:
        return None
    if "sv" in v:
        return "".join(chr(c) for c in v["sv"])
    if "tv" in v:
        return tuple(decode_value(x) for x in v["tv"])
    if "lv" in v:
        return [decode_value(x) for x in v["lv"]]
    if "rn" in v:
        return v["rn"] / v["rd"]
    raise MachineryError(f"cannot decode value {v}")


UNOPS = {"not": "not ", "neg": "-", "pos": "+", "inv": "~"}


def render(e) -> str:
    k = e["k"]
    if k == "lit":
        return render_value(e["v"])
    if k == "un":
        return f"({UNOPS[e['op']]}{render(e['a'])})"
    if k == "bin":
        return f"({render(e['a'])} {e['op']} {render(e['b'])})"
    if k == "cmp":
        s = render(e["args"][0])
        for op, a in zip(e["ops"], e["args"][1:]):
            s += f" {op} {render(a)}"
        return f"({s})"
    if k == "bool":
        return "(" + f" {e['op']} ".join(render(a) for a in e["args"]) + ")"
    if k == "ife":
        return f"({render(e['a'])} if {render(e['c'])} else {render(e['b'])})"
    if k == "call":
        return f"{e['f']}(" + ", ".join(render(a) for a in e["args"]) + ")"
    if k == "meth":
        return f"{render_value(e['recv'])}.{e['m']}(" + ", ".join(render(a) for a in e["args"]) + ")"
    raise MachineryError(f"cannot render {e}")


def same(a, b) -> bool:
    if type(a) is not type(b):
        return False
    if isinstance(a, float):
        return a == b or math.isclose(a, b, rel_tol=1e-12, abs_tol=1e-12)
    if isinstance(a, (tuple, list)):
        return len(a) == len(b) and all(same(x, y) for x, y in zip(a, b))
    return a == b


class Effects:
    def __init__(self):
        self.log = []

    def print(self, *a, **k):
        self.log.append("print")

    def exit(self, *a, **k):
        self.log.append("exit")
        raise SystemExit(0)

    def input(self, *a, **k):
        self.log.append("input")
        return ""

    def f(self, *a, **k):
        self.log.append("f")
        return 1


def python_outcome(text: str):
    fx = Effects()
    env = {"print": fx.print, "exit": fx.exit, "input": fx.input, "f": fx.f}
    import warnings
    with warnings.catch_warnings():
        warnings.simplefilter("ignore")
        try:
            v = eval(compile(text, "<case>", "eval"), env)
            out = ("val", v)
        except ValueError:
            out = ("raise", "ValueError")
        except BaseException as exc:  # noqa: BLE001 - classify everything
            out = ("raise", "other")
    if fx.log:
        return ("effect", None)
    return out


def code_outcome(core, text: str):
    """What core.literal_value answers: val / unknown / escape / exec."""
    fx = Effects()
    node = ast.parse(text, mode="eval").body
    saved = (builtins.print, builtins.exit, builtins.input)
    builtins.print, builtins.exit, builtins.input = fx.print, fx.exit, fx.input
    try:
        try:
            v = core.literal_value(node)
            out = ("val", v)
        except ValueError:
            out = ("unknown", None)
        except BaseException as exc:  # noqa: BLE001
            out = ("escape", type(exc).__name__)
    finally:
        builtins.print, builtins.exit, builtins.input = saved
    if fx.log:
        return ("exec", fx.log[0])
    return out


def _chunk(records):
    mods = import_pyrefact()
    core = mods["core"]
    st = {"cases": 0, "oom": 0, "py_val": 0, "py_raise": 0, "py_effect": 0, "code_val": 0, "code_unknown": 0,
          "impl_differs": 0}
    spec_bad, bad, known = [], [], []
    for rec in records:
        e, py, impl = rec["e"], rec["py"], rec["impl"]
        text = render(e)
        st["cases"] += 1
        real = python_outcome(text)
        # (C) the reference semantics itself against CPython
        if py["r"] == "excluded":
            st["excluded"] = st.get("excluded", 0) + 1
            continue
        if py["r"] == "oom":
            st["oom"] += 1
            ideal = real
        else:
            ok = (py["r"] == real[0]) and (
                (py["r"] == "val" and same(decode_value(py["v"]), real[1])) or
                (py["r"] == "raise" and py["e"] == real[1]) or py["r"] == "effect")
            if not ok:
                spec_bad.append({"expr": text, "spec": py, "cpython": [real[0], repr(real[1])]})
                continue
            ideal = real
        st["py_" + ideal[0]] = st.get("py_" + ideal[0], 0) + 1
        # (A) the implementation
        got = code_outcome(core, text)
        st["code_" + got[0]] = st.get("code_" + got[0], 0) + 1
        impl_class = impl["r"]
        if impl_class != "oom" and impl_class != got[0]:
            st["impl_differs"] += 1
        case = {"expr": text, "python": [ideal[0], repr(ideal[1])], "literal_value": [got[0], repr(got[1])],
                "impl_model": impl_class}
        if ideal[0] == "val":
            if got[0] == "unknown":
                continue
            if got[0] == "val" and same(got[1], ideal[1]):
                continue
            bad.append(dict(case, kind="wrong value" if got[0] == "val" else "crash or effect on a constant"))
        else:
            if got[0] == "unknown":
                continue
            if got[0] == "val":
                bad.append(dict(case, kind="value for an expression that raises / has an effect"))
            elif got[0] == "escape":
                known.append(dict(case, kind="escape"))
            else:
                known.append(dict(case, kind="exec"))
    return st, spec_bad, bad, known


# Constant expressions outside the grammar of ConstEval.tla; CPython decides them directly (the hybrid oracle):
# keyword arguments on constant-receiver methods and builtins, exceptions other than the arithmetic / type ones,
# starred displays, formatting, slices.
EXTRA_EXPRS = [
    '"a,b,c".split(",", maxsplit=1)', '"a,b,c".split(",", 1)', '"a b".split(sep=" ")', '"".encode(encoding="utf-16")', '"x".encode("ascii")',
    'b"ab".decode(encoding="ascii")', '"abc".center(7, "*")', '"x".ljust(width=3)', '(255).to_bytes(length=2, byteorder="big")',
    '(255).to_bytes(2, "little")', '"{a}".format(a=1)', '"{}-{}".format(1, 2)', 'int("ff", base=16)', 'int("ff", 16)', 'round(2.567, ndigits=1)',
    'sorted([3, 1], reverse=True)', 'max([1, -2], key=abs)', 'min(3, 1, key=lambda v: -v)', '"a".join(["x", "y"])', 'sum([1, 2], start=10)',
    'sum([1, 2], 10)', 'len("abc")', 'len((2, 2))', 'len([2, 0, 1])', 'sum((2, 2))', 'max((2, 5))', 'list(range(2, 8, 3))', 'divmod(7, -2)',
    'pow(2, 5, mod=7)', 'str(b"a", encoding="ascii")', 'bytes("a", encoding="ascii")', '"abc".startswith(("a", "x"))', '"abc".replace("b", "", 1)',
    '"a\\tb".expandtabs(tabsize=2)', '"Ab".swapcase()', '"a-b".partition("-")', '" x ".strip()', '"x".zfill(3)', '"abc"[::-1]', '"abc"[1:]', '[1, 2, 3][-1]',
    '(1, 2)[0:1]', '{"k": 1}["k"]', '{"k": 1}.get("z", 2)', '{1, 2} & {2}', '[1] * 2', '"ab" * 0', '1 if [] else 2', '"{} {}".format("a")',
    '"%(a)s" % {}', '"%d" % "x"', '"x".encode("utf-42")', '[1][5]', '{}["k"]', 'int("x")', '(1).foo', 'next(iter([]))', '"abc".index("z")',
    'float("nan") == float("nan")', '1 / 0 == 1 / 0', '(1 / 0) or 1', '[*[]]', '(*(),)', '[*[], *()]', '{*[]}', '[*[1]]', 'bool([*[]])',
    'not [*()]', '[*[]] or [1]', '(*[],) and 2', '2 ** -1', '0 ** 0', '-7 // 2', '-7 % 3', '7 % -3', '1_000 + 1', '0x10', '1e3', '1j * 1j',
    'True + True', '"a" < "b" < "c"', '1 < 2 > 0', '1 == 1.0', '"1" == 1', 'None is None', '() is ()', 'not None', '"a" in "abc"', '1 in [1]',
    '[] == ()', 'chr(97)', 'ord("a")', 'abs(-2)', 'bool("")', 'tuple([1])', 'dict(a=1)', 'dict([("a", 1)])', 'set([1, 1])', 'frozenset({1})',
    'repr("a")', 'ascii("\\xe9")', 'hex(255)', 'bin(5)', 'oct(8)', 'format(5, "03d")', 'format(5, fmt="03d")' if False else 'format(3.14159, ".2f")',
    'all([])', 'any([0, ""])', 'isinstance(1, int)', 'callable(len)', 'type(1) is int', 'hash(1)', 'id(1) == id(1)',
    # iterator objects inside a constant: every occurrence is a fresh object that can be consumed once, and such an object is
    # truthy whether or not it yields anything (the same inner call occurs in several different expressions on purpose)
    'list(zip("ab", "cd"))', 'dict(zip("ab", "cd"))', 'len(tuple(zip("ab", "cd"))) == 2', 'sorted(zip("ab", "cd"), reverse=True)',
    'list(reversed((1, 2)))', 'sum(reversed((1, 2)))', 'tuple(reversed((1, 2)))', 'list(iter((3, 4)))', 'max(iter((3, 4)))', 'set(iter((3, 4)))',
    'list(enumerate("ab"))', 'dict(enumerate("ab"))', 'list(filter(None, (0, "", None)))', 'bool(list(filter(None, (0, "", None))))',
    'any(filter(None, (0, "", None)))', 'list(map(abs, (-1, 2)))', 'sum(map(abs, (-1, 2)))', 'bool(zip((), (1, 2)))', 'not iter(())',
    'bool(reversed(()))', 'list(zip((), (1, 2)))', 'len(list(zip((), (1, 2)))) == 0', 'bool(filter(None, ()))', 'list(range(0))', 'bool(range(0))',
]
# iterator objects themselves (not printable: their repr holds an address), for the positions that only test or iterate them
LAZY_EXPRS = ['zip((), (1, 2))', 'filter(None, (0, "", None))', 'reversed(())', 'iter(())', 'enumerate(())', 'map(abs, ())', 'iter((1,))',
              'zip("ab", "cd")', 'reversed((1,))', 'enumerate("a")', 'filter(None, (0, 1))', 'range(0)', 'range(1)', 'iter("")', 'iter([])']


def extra_part(rep: Report, stats: Dict[str, int]):
    mods = import_pyrefact()
    core = mods["core"]
    for text in EXTRA_EXPRS:
        try:
            ast.parse(text, mode="eval")
        except SyntaxError:
            raise MachineryError(f"extra expression does not parse: {text}")
        stats["cases"] = stats.get("cases", 0) + 1
        stats["extra_exprs"] = stats.get("extra_exprs", 0) + 1
        ideal = python_outcome(text)
        got = code_outcome(core, text)
        case = {"expr": text, "python": [ideal[0], repr(ideal[1])], "literal_value": [got[0], repr(got[1])], "impl_model": "oom"}
        if got[0] == "unknown":
            continue
        if ideal[0] == "val":
            if got[0] == "val" and same(got[1], ideal[1]):
                stats["code_val"] = stats.get("code_val", 0) + 1
                continue
            rep.violation(f"{'wrong value' if got[0] == 'val' else 'crash or effect on a constant'}: {text} python={case['python']} "
                          f"literal_value={case['literal_value']}", case)
        elif got[0] == "val":
            rep.violation(f"value for an expression that raises / has an effect: {text} python={case['python']} literal_value={case['literal_value']}", case)
        else:
            rep.violation(f"exception escapes literal_value / effect during analysis: {text} -> {case['literal_value']}", case)


def main(argv=None) -> int:
    rep = Report(PROP, "model_checking")
    import_pyrefact()
    t = tier()
    stats: Dict[str, int] = {}
    listed = {e["id"]: e for e in rep.known_entries()}
    for label, pool, seeds in runs(t):
        res = run_tlc("ConstEvalMC", CFG, generated_files={"ConstEvalMC.tla": gen_module(pool, seeds)},
                      timeout_s=3000, keep_stdout=False, heap_gb=12)
        rep.add_tlc(res, f"ConstEval {label}")
        if res.violated:
            rep.violation(f"ConstEval.tla: design fact {res.violated} fails ({label})", {"label": label, "trace": res.error_trace})
            continue
        recs = res.records
        if not recs:
            raise MachineryError(f"ConstEval {label}: no records")
        n = max(1, min(16, len(recs) // 200 + 1))
        chunks = [recs[i::n] for i in range(n)]
        with mp.get_context("fork").Pool(n) as pool_:
            parts = pool_.map(_chunk, chunks)
        for st, spec_bad, bad, known in parts:
            for k, v in st.items():
                stats[k] = stats.get(k, 0) + v
            if spec_bad:
                raise MachineryError("ConstEval.tla disagrees with CPython (the SPEC is wrong, not the code): "
                                     + json.dumps(spec_bad[:5]))
            for case in bad:
                rep.violation(f"{case['kind']}: {case['expr']} python={case['python']} literal_value={case['literal_value']}", case)
            for case in known:
                kf = "KF-C15-1" if case["kind"] == "escape" else "KF-C15-2"
                if kf in listed and case["impl_model"] == case["kind"]:
                    rep.known(kf, case["expr"])
                else:
                    what = ("exception escapes literal_value" if case["kind"] == "escape"
                            else "literal_value executes an effect during analysis")
                    rep.violation(f"{what}: {case['expr']} -> {case['literal_value']}", case)
        for r in recs[:: max(1, len(recs) // 3)]:
            rep.sample({"expr": render(r["e"]), "spec_python": r["py"], "spec_impl": r["impl"]}, limit=6)

    extra_part(rep, stats)
    import c15_consumers
    c15_consumers.run(rep, t, stats)

    rep.coverage["evaluations"] = stats.get("cases", 0) + stats.get("consumer_programs", 0)
    rep.coverage["distinct_nontrivial"] = stats.get("code_val", 0) + stats.get("py_raise", 0) + stats.get("py_effect", 0)
    rep.coverage["traces_validated_against_impl"] = stats.get("cases", 0)
    rep.coverage["exhaustive"] = True
    rep.coverage["detail"] = stats
    rep.coverage["rule"] = (
        "every expression of the bounded grammar (12 literals; unary/binary/comparison/chained/boolean operators, "
        "conditional expressions, builtin calls, constant-receiver methods; depth 1 exhaustively, depth 2 over a reduced "
        "pool) is a TLC state; non-trivial = literal_value returned a value, or Python raises / has an effect")
    rep.assumptions += ["PyEval of ConstEval.tla is validated against CPython eval on every case of every run (exit 2 on disagreement)",
                        "cases the TLA+ semantics marks out-of-model (oom) are decided by CPython's eval directly",
                        "identity tests between non-singleton literals are excluded (the statement excludes them)"]
    return rep.finish()


if __name__ == "__main__":
    sys.exit(main())
